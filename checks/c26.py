"""C26  The state vector API is a faithful serialization (DESIGN.md §5.C26)."""
import json
import os
import subprocess
import sys

from . import common

META = {
    "technique": "Lean 4 proof over a table-generic model of mj_stateSize/getState/setState/extractState/copyState "
                 "(all signatures, error branches included) + translator-regenerated state table proved well-formed "
                 "+ exact differential correspondence with the real API on mjSpec-built models + round-trip/reset/keyframe oracle",
    "text": "For every well-formed table (distinct bits, distinct mjData fields, size expression = allocated dimension of the "
            "field, one case per bit below mjNSTATE) and every signature sig:Int (not enumerated): stateSize = length written "
            "by getState (as outcomes, so error branches agree), setState(getState d) restores exactly the components of sig "
            "and leaves every other field untouched, setState of any vector leaves components outside sig untouched, "
            "extractState = getState with the sub-signature for dstsig a subset of srcsig, copyState = getState then setState; "
            "negative / too large signatures and bits without a case end in mju_error (modelled as Except). "
            "generated_table_wf proves the hypothesis for the table regenerated from engine_support.c, mjtype.h, mjxmacro.h, "
            "mjdata.h on every run (sizes compared as normal forms, valid for all model sizes). The five loop bodies are tied "
            "to the hand-written generic model by a strict template match in the translator and by an exact differential run "
            "(sizes and vectors) on models with free/ball/slide/hinge joints, stateful actuators, history buffers, mocap "
            "bodies, equalities and userdata.",
    "note": "mj_resetData / mj_resetDataKeyframe are NOT modelled in Lean: they are decided by the oracle only (reset vs a fresh "
            "mj_makeData on every state field and the whole buffer, and vs the documented defaults; keyframe vs the model's "
            "key_* arrays). npluginstate is always 0 in generated models (plugin-less build), so mjSTATE_PLUGIN is exercised "
            "only as an empty component. State vectors are modelled as lists (adr arithmetic is covered by the correspondence); "
            "values are integers in the differential run. The documented element->field map used by the oracle is hand-written "
            "(SPEC in checks/c26.py).",
}

THEOREMS = [
    "MjProof.C26.size_eq_length_getState",
    "MjProof.C26.size_eq_length_getState_ok",
    "MjProof.C26.set_get_id",
    "MjProof.C26.set_get_self",
    "MjProof.C26.get_set_frame",
    "MjProof.C26.get_after_set_disjoint",
    "MjProof.C26.extract_eq_get_sub",
    "MjProof.C26.extract_not_subset",
    "MjProof.C26.copy_eq_set_get",
    "MjProof.C26.sig_negative_error",
    "MjProof.C26.sig_too_large_error",
    "MjProof.C26.sig_outside_table_error",
    "MjProof.C26.getState_total",
]
# about the regenerated table; kept in a separate module so that a source change breaking the
# table's well-formedness shows up as exactly these obligations
THEOREMS_GEN = [
    "MjProof.C26.generated_table_wf",
    "MjProof.C26.gen_size_eq_length_getState",
    "MjProof.C26.gen_copy_eq_set_get",
]

GEN_DIR = os.path.join(common.LEAN, "MjProof", "Gen")
GEN_LEAN = os.path.join(GEN_DIR, "StateTable.lean")
GEN_JSON = os.path.join(GEN_DIR, "StateTable.json")

# Documented meaning of each state element (include/mujoco/mjtype.h comments, doc "State" section):
# element -> (mjData field, size as a function of the model sizes).  Hand-written specification used
# by the oracle only; bits default to the documented order when the header cannot be read.
SPEC = [
    ("mjSTATE_TIME", "time", lambda s: 1),
    ("mjSTATE_QPOS", "qpos", lambda s: s["nq"]),
    ("mjSTATE_QVEL", "qvel", lambda s: s["nv"]),
    ("mjSTATE_ACT", "act", lambda s: s["na"]),
    ("mjSTATE_HISTORY", "history", lambda s: s["nhistory"]),
    ("mjSTATE_WARMSTART", "qacc_warmstart", lambda s: s["nv"]),
    ("mjSTATE_CTRL", "ctrl", lambda s: s["nu"]),
    ("mjSTATE_QFRC_APPLIED", "qfrc_applied", lambda s: s["nv"]),
    ("mjSTATE_XFRC_APPLIED", "xfrc_applied", lambda s: 6 * s["nbody"]),
    ("mjSTATE_EQ_ACTIVE", "eq_active", lambda s: s["neq"]),
    ("mjSTATE_MOCAP_POS", "mocap_pos", lambda s: 3 * s["nmocap"]),
    ("mjSTATE_MOCAP_QUAT", "mocap_quat", lambda s: 4 * s["nmocap"]),
    ("mjSTATE_USERDATA", "userdata", lambda s: s["nuserdata"]),
    ("mjSTATE_PLUGIN", "plugin_state", lambda s: s["npluginstate"]),
]
SPEC_FIELD = {n: f for n, f, _ in SPEC}
SPEC_SIZE = {n: z for n, _, z in SPEC}
SIZE_NAMES = ["nq", "nv", "na", "nhistory", "nu", "nbody", "neq", "nmocap", "nuserdata", "npluginstate", "nkey"]
KNOWN_DATA_FIELDS = None  # filled from mjxmacro.h


# ------------------------------------------------------------------------------------------ models
def gen_model(rng, kind):
    """Returns the spec token string of one model (grammar in harness/c/c26_state.c build_model)."""
    toks = ["dt", rng.choice(["0.002", "0.001", "0.005", "0.01"])]
    bodies = []   # (index, is_mocap, joints string)
    joints = []   # (body, k, type)
    if kind == "minimal":
        specs = [(0, "h")]
    elif kind == "nojoint":
        specs = [(0, "-"), (0, "m")]
    else:
        nb = rng.randint(2, 6) if kind == "full" else rng.randint(1, 5)
        specs = []
        for i in range(nb):
            cand = [0] + [b for b, mocap, js in bodies_preview(specs) if not mocap]
            par = rng.choice(cand)
            if par == 0:
                js = rng.choice(["f", "f", "-", "m", "m", "h", "s", "b", "hs", "hh", "sb"])
            else:
                js = rng.choice(["h", "s", "b", "hs", "-", "hh", "bs"])
            specs.append((par, js))
        if kind == "full":
            have = "".join(js for _, js in specs)
            for need in "fbshm":
                if need not in have:
                    specs.append((0, need))
    for i, (par, js) in enumerate(specs):
        idx = i + 1
        toks += ["B", str(par), js] + ["%.2f" % rng.uniform(-1, 1) for _ in range(3)]
        k = 0
        for c in js:
            if c in "fbsh":
                joints.append((idx, k, c))
                k += 1
        bodies.append((idx, "m" in js, js))
    if kind not in ("minimal", "nojoint"):
        toks += ["U", str(rng.choice([0, 0, 1, 3, 5]))]
    elif kind == "nojoint":
        toks += ["U", "2"]
    act_j = [j for j in joints if j[2] in "bsh"]
    nact = 0 if kind in ("minimal", "nojoint") or not act_j else rng.randint(2 if kind == "full" else 0, 4)
    for a in range(nact):
        b, k, _ = rng.choice(act_j)
        dyn = rng.choice("niffe") if a or kind != "full" else "i"
        ns = rng.choice([0, 0, 1, 2, 3]) if a != 1 or kind != "full" else 2
        toks += ["A", str(b), str(k), dyn, str(ns)]
    sen_j = [j for j in joints if j[2] in "sh"]
    if sen_j and kind not in ("minimal", "nojoint"):
        for _ in range(rng.randint(0, 2)):
            b, k, _ = rng.choice(sen_j)
            toks += ["S", str(b), str(k), str(rng.choice([0, 1, 2, 4]))]
    if len(bodies) >= 2 and kind not in ("minimal",):
        for e in range(rng.randint(1 if kind == "full" else 0, 3)):
            b1, b2 = rng.sample([b[0] for b in bodies], 2)
            toks += ["E", rng.choice("cw"), str(b1), str(b2), str(rng.choice([0, 1]))]
    for _ in range(rng.randint(1 if kind == "full" else 0, 2)):
        toks += ["K", "%.2f" % rng.uniform(0, 9), str(rng.randint(1, 50))]
    return " ".join(toks)


def bodies_preview(specs):
    return [(i + 1, "m" in js, js) for i, (par, js) in enumerate(specs)]


# ------------------------------------------------------------------------------------------ helpers
def parse_kv(out):
    d = {}
    for seg in out.split(";"):
        if "=" in seg:
            k, v = seg.split("=", 1)
            d[k] = v
    return d


def fvec(s):
    return [float(x) for x in s.split()] if s.strip() else []


def parse_dump(s):
    d = {}
    for part in s.split("|"):
        if ":" in part:
            k, v = part.split(":", 1)
            d[k] = fvec(v)
    return d


def table_size(info, sizes, sig):
    """length of the vector for sig according to the generated table (used only to size test vectors)"""
    n = 0
    for e in info["elems"]:
        if sig >> e["bit"] & 1:
            p = 1
            for k, v in e["size"]:
                p *= v if k == "const" else sizes.get(v, 0)
            n += p
    return n


def signatures(ctx, nstate, named, exhaustive):
    rng = ctx.rng
    full = (1 << nstate) - 1
    if exhaustive:
        return list(range(1 << nstate))
    sigs = [0, full] + [1 << i for i in range(nstate)]
    sigs += [(1 << i) | (1 << j) for i in range(nstate) for j in range(i + 1, nstate)]
    sigs += [v for _, v in named if 0 <= v <= full]
    sigs += [full & ~(1 << i) for i in range(nstate)]
    for _ in range(40 if ctx.tier == "quick" else 400):
        sigs.append(rng.randint(0, full))
    seen, out = set(), []
    for s in sigs:
        if s not in seen:
            seen.add(s)
            out.append(s)
    return out


# ------------------------------------------------------------------------------------------ line generation
def diff_lines(ctx, mid, spec, sizes, info, fields, sigs, light):
    rng = ctx.rng
    nstate = info["nstate"]
    F = " ".join(fields)
    L = ["model m%d %s ; %s" % (mid, " ".join("%s=%d" % (k, sizes[k]) for k in SIZE_NAMES if k != "nkey"), spec)]
    for k in range(4):
        L.append("fill %d %d %s" % (k, (k + 1) * 100000 + rng.randint(0, 9) * 17, F))
    L.append("dump 0 " + F)
    cnt = 0
    for sig in sigs:
        need = table_size(info, sizes, sig)
        L.append("size %d" % sig)
        L.append("get %d %d" % (rng.randint(0, 3), sig))
        # set with a recognisable vector of exactly the needed length (sometimes longer, sometimes one short)
        r = rng.random()
        ln = need + (rng.randint(1, 3) if r < 0.15 else 0) - (1 if r > 0.93 and need > 0 else 0)
        base = rng.randint(1, 9) * 1000000
        vec = [base + i if rng.random() > 0.05 else rng.choice([0, -1, 2, 255, 256]) for i in range(ln)]
        k = rng.randint(0, 3)
        L.append(("set %d %d %s" % (k, sig, " ".join(map(str, vec)))).strip())
        cnt += 1
        if not light or cnt % 16 == 0:
            L.append("dump %d %s" % (k, F))
        # extract: random sub-signature (sometimes not a subset)
        sub = sig & rng.randint(0, (1 << nstate) - 1)
        if rng.random() < 0.1:
            sub = rng.randint(0, (1 << nstate) - 1)
        ev = [rng.randint(-5, 10 ** 6) for _ in range(need + (rng.randint(0, 2) if rng.random() < 0.2 else 0))]
        if not light or cnt % 4 == 0:
            L.append(("extract %d %d %s" % (sig, sub, " ".join(map(str, ev)))).strip())
        k1, k2 = rng.sample(range(4), 2)
        L.append("copy %d %d %d" % (k1, k2, sig))
        if not light or cnt % 16 == 0:
            L.append("dump %d %s" % (k2, F))
    # error branches and malformed ops
    big = 1 << nstate
    for s in (-1, -2, -2147483648, big, big + 5, 2147483647, 1 << 20):
        L += ["size %d" % s, "get 0 %d" % s, "set 1 %d 1 2 3" % s, "copy 0 1 %d" % s, "extract %d 1 4 5 6" % s]
    L += ["extract 3 -1 1 2 3", "extract 3 -2147483648 1 2 3", "extract 2 4 1 2 3 4 5 6 7 8", "extract 0 0", "extract 0 1",
          "size 99999999999", "get 9 1", "copy 1 1 3", "frob 1 2", "dump 0 nosuchfield", "size", "get 0"]
    for k in range(4):
        L.append("dump %d %s" % (k, F))
    return L


def oracle_lines(ctx, mid, spec, sizes, info, fields, sigs, nkey):
    rng = ctx.rng
    nstate = info["nstate"]
    F = " ".join(fields)
    L = ["model m%d %s ; %s" % (mid, " ".join("%s=%d" % (k, sizes[k]) for k in SIZE_NAMES if k != "nkey"), spec), "minfo"]
    for k in range(4):
        L.append("fill %d %d %s" % (k, (k + 1) * 100000 + rng.randint(0, 9) * 17, F))
    for i, sig in enumerate(sigs):
        k1, k2, k3 = rng.sample(range(4), 3)
        L.append("rt %d %d %d %s" % (k1, k2, sig, F))
        if i % 7 == 0:
            # keep the four data distinct so that copies stay observable
            L.append("fill %d %d %s" % (k2, rng.randint(5, 90) * 100000, F))
        sub = sig & rng.randint(0, (1 << nstate) - 1)
        L.append("ext %d %d %d" % (k1, sig, sub))
        L.append("cp %d %d %d %d %s" % (k1, k2, k3, sig, F))
        if i % 5 == 0:
            L.append("fill %d %d %s" % (k3, rng.randint(5, 90) * 100000, F))
    # invalid signatures must end in mju_error (documented: "invalid state signature")
    big = 1 << nstate
    for sg in (-1, -2147483648, big, big + 1, 2147483647):
        L += ["size %d" % sg, "get 0 %d" % sg, "set 1 %d 1 2 3" % sg, "copy 0 1 %d" % sg, "extract %d 0" % sg]
    L += ["extract 1 2 5", "extract 3 -1 1 2 3"]
    L.append("reset 0 %d %s" % (rng.randint(1, 9) * 1000, F))
    L.append("reset 1 %d %s" % (rng.randint(1, 9) * 1000, F))
    for idx in list(range(nkey)) + [-1, nkey, nkey + 3]:
        L.append("key %d %d %d %s" % (rng.randint(0, 3), idx, rng.randint(1, 9) * 1000, F))
    return L


# ------------------------------------------------------------------------------------------ oracle
def reset_expect(sizes, mi):
    """documented defaults after mj_resetData, from the model arrays printed by `minfo`"""
    dt = float(mi["dt"])
    hist = [0.0] * sizes["nhistory"]
    ok_hist = True
    for ent in mi["ahist"].split():
        n, adr = map(int, ent.split(":"))
        if n > 0:
            hist[adr] = 0.0
            hist[adr + 1] = float(n - 1)
            for j in range(n):
                hist[adr + 2 + j] = -(n - j) * dt
    for ent in mi["shist"].split():
        n, adr, dim, period, phase = ent.split(":")
        n, adr, dim = int(n), int(adr), int(dim)
        if n > 0:
            if float(period) > 0:
                ok_hist = False
                continue
            hist[adr] = -dt
            hist[adr + 1] = float(n - 1)
            for j in range(n):
                hist[adr + 2 + j] = -(n - j) * dt
    exp = {
        "time": [0.0], "qpos": fvec(mi["qpos0"]), "qvel": [0.0] * sizes["nv"], "act": [0.0] * sizes["na"],
        "qacc_warmstart": [0.0] * sizes["nv"], "ctrl": [0.0] * sizes["nu"], "qfrc_applied": [0.0] * sizes["nv"],
        "xfrc_applied": [0.0] * (6 * sizes["nbody"]), "eq_active": fvec(mi["eq0"]), "mocap_pos": fvec(mi["mpos"]),
        "mocap_quat": fvec(mi["mquat"]), "userdata": [0.0] * sizes["nuserdata"], "plugin_state": [0.0] * sizes["npluginstate"],
    }
    if ok_hist:
        exp["history"] = hist
    return exp


class Oracle:
    def __init__(self, ctx, bits):
        self.ctx = ctx
        self.bits = bits          # element name -> bit (from the header)
        self.nfail = 0
        self.checked = 0
        self.byop = {}

    def fail(self, key, what, line, out, spec):
        self.nfail += 1
        if self.nfail <= 8:
            self.ctx.oracle_failure("c26:" + key, what, {
                "model_spec": spec, "op": line[:3000], "impl_output": out[:6000],
                "replay": "printf '<model line>\\n<fill lines>\\n%s\\n' | <c26_state harness>  (full op stream in the check: seed %d tier %s)"
                          % (line[:200], self.ctx.seed, self.ctx.tier)})

    def comps(self, sig):
        return [n for n, b in sorted(self.bits.items(), key=lambda kv: kv[1]) if sig >> b & 1]

    def judge(self, line, out, spec, sizes, mi):
        w = line.split()
        op = w[0]
        self.checked += 1
        self.byop[op] = self.byop.get(op, 0) + 1
        kv = parse_kv(out)
        if op in ("size", "get", "set", "copy", "extract"):
            sg = int(w[1] if op in ("size", "extract") else w[-1] if op == "copy" else w[2])
            nst = int(mi.get("nstate", 0))
            want = "error:sigNeg" if sg < 0 else "error:sigRange" if sg >= (1 << nst) else "error:notSubset"
            if out != want:
                return self.fail("invalid_sig_accepted", "%s with an invalid signature returned %r instead of raising %s" % (op, out[:80], want), line, out, spec)
            return
        if out.startswith("bad-op") or "error" in kv or out.startswith("error"):
            return self.fail(op + ":error", "%s on a valid signature ended in an error: %s" % (op, out[:200]), line, out, spec)
        if op == "rt":
            sig = int(w[3])
            A, B0, B1 = parse_dump(kv["A"]), parse_dump(kv["B0"]), parse_dump(kv["B1"])
            vec, g1, c0, c1 = fvec(kv["vec"]), fvec(kv["g1"]), fvec(kv["c0"]), fvec(kv["c1"])
            n, wr = int(kv["n"]), int(kv["w"])
            if n != wr or wr != len(vec):
                return self.fail("size_ne_written", "mj_stateSize=%d but mj_getState wrote %d entries (sig=%d)" % (n, wr, sig), line, out, spec)
            if kv["restA"] != "1":
                return self.fail("get_modified_data", "mj_getState/mj_stateSize modified the source mjData (sig=%d)" % sig, line, out, spec)
            if g1 != vec:
                return self.fail("get_set_get", "get(set(get(d1)), sig) differs from get(d1, sig) (sig=%d)" % sig, line, out, spec)
            if c1 != c0:
                return self.fail("set_touched_complement", "mj_setState(sig=%d) changed what mj_getState returns for the complementary signature" % sig, line, out, spec)
            if kv["rest"] != "1":
                return self.fail("set_touched_nonstate", "mj_setState(sig=%d) changed bytes of mjData outside the state fields" % sig, line, out, spec)
            comps = self.comps(sig)
            if all(c in SPEC_FIELD for c in comps):
                exp = []
                for c in comps:
                    exp += A.get(SPEC_FIELD[c], [])
                want = sum(SPEC_SIZE[c](sizes) for c in comps)
                if n != want:
                    return self.fail("size_ne_documented", "mj_stateSize(sig=%d)=%d, documented sizes sum to %d" % (sig, n, want), line, out, spec)
                if vec != exp:
                    return self.fail("layout", "state vector for sig=%d is not the concatenation (in bit order) of the documented fields %s"
                                     % (sig, [SPEC_FIELD[c] for c in comps]), line, out, spec)
                inside = {SPEC_FIELD[c] for c in comps}
                for f in B1:
                    if f in inside and B1[f] != A[f]:
                        return self.fail("set_get_restore", "after set(get(d1,sig),sig) field %s of d2 differs from d1 (sig=%d)" % (f, sig), line, out, spec)
                    if f not in inside and B1[f] != B0[f]:
                        return self.fail("set_touched_other", "mj_setState(sig=%d) changed field %s which is not a component of sig" % (sig, f), line, out, spec)
        elif op == "ext":
            ex, sub = fvec(kv["ex"]), fvec(kv["sub"])
            if ex != sub:
                return self.fail("extract_ne_get", "mj_extractState(src=%s,dst=%s) differs from mj_getState(dst)" % (w[2], w[3]), line, out, spec)
            if "nd" in kv and int(kv["nd"]) != len(ex):
                return self.fail("extract_len", "mj_extractState wrote %d entries, mj_stateSize(dst)=%s" % (len(ex), kv["nd"]), line, out, spec)
        elif op == "cp":
            if kv["B"] != kv["C"] or kv["same"] != "1":
                return self.fail("copy_ne_get_set", "mj_copyState(sig=%s) differs from mj_getState followed by mj_setState" % w[4], line, out, spec)
            if kv["restA"] != "1":
                return self.fail("copy_modified_src", "mj_copyState modified its source", line, out, spec)
        elif op in ("reset", "key"):
            R, Fr = parse_dump(kv["R"]), parse_dump(kv["F"])
            exp = reset_expect(sizes, mi)
            keyed = {}
            if op == "key" and "ktime" in kv:
                keyed = {"time": fvec(kv["ktime"]), "qpos": fvec(kv["kqpos"]), "qvel": fvec(kv["kqvel"]), "act": fvec(kv["kact"]),
                         "ctrl": fvec(kv["kctrl"]), "mocap_pos": fvec(kv["kmpos"]), "mocap_quat": fvec(kv["kmquat"])}
            else:
                if R != Fr or kv["samebuf"] != "1" or kv["hdr"] != kv["fhdr"]:
                    bad = [f for f in R if R[f] != Fr.get(f)]
                    return self.fail("reset_ne_fresh", "%s: data differs from a freshly made mjData (fields %s, samebuf=%s)" % (op, bad, kv["samebuf"]), line, out, spec)
            for f in R:
                want = keyed.get(f, exp.get(f))
                if want is not None and R[f] != want:
                    src = "keyframe array" if f in keyed else "documented default"
                    return self.fail(op + "_value:" + f, "%s: field %s = %s, expected %s %s" % (op, f, R[f][:8], src, want[:8]), line, out, spec)


def run_oracle(ctx, impl, streams, bits):
    orc = Oracle(ctx, bits)
    for spec, sizes, lines in streams:
        rc, outs, err = ctx.run_lines([impl], lines)
        if rc != 0 or len(outs) != len(lines):
            idx = min(len(outs), len(lines) - 1)
            ctx.oracle_failure("c26:crash", "state harness crashed (rc=%s) at op %r" % (rc, lines[idx][:200]),
                               {"model_spec": spec, "op": lines[idx][:3000], "stderr": err[-500:]})
            orc.nfail += 1
            continue
        mi = {}
        for l, o in zip(lines, outs):
            op = l.split()[0]
            if op == "model":
                if o != "ok":
                    orc.fail("model", "model did not build as in the size pass: " + o[:200], l, o, spec)
                    break
            elif op == "minfo":
                mi = parse_kv(o)
            elif op == "fill":
                if o != "ok":
                    orc.fail("fill", "fill rejected: " + o[:100], l, o, spec)
            else:
                orc.judge(l, o, spec, sizes, mi)
    return orc


# ------------------------------------------------------------------------------------------ run
def run_translator(ctx):
    r = subprocess.run([sys.executable, os.path.join(common.VERIF, "translate", "c26_tables.py")],
                       capture_output=True, text=True, env=dict(os.environ, VERIF_REPO=common.REPO))
    ok = r.returncode == 0
    ctx.oblige("translator c26_tables (mjtState, size/ptr switches, loop templates, MJDATA_POINTERS)", "translator", ok,
               (r.stdout + r.stderr)[-1500:])
    if not ok:
        # nothing may be proved about a stale table
        for p in (GEN_LEAN, GEN_JSON):
            if os.path.exists(p):
                os.remove(p)
        return None
    return json.load(open(GEN_JSON))


def data_fields():
    import re
    src = open(os.path.join(common.REPO, "include", "mujoco", "mjxmacro.h")).read()
    m = re.search(r"#define\s+MJDATA_POINTERS\b[^\n]*\\\n((?:[^\n]*\\\n)*[^\n]*\n)", src)
    out = {"time"}
    if m:
        for mm in re.finditer(r"X(?:NV)?\s*\(\s*(mjtNum|mjtBool)\s*,\s*(\w+)\s*,", m.group(1)):
            out.add(mm.group(2))
    return out


def run(ctx):
    tmp = []
    try:
        _run(ctx, tmp)
    finally:
        for p in tmp:
            if os.path.exists(p):
                os.remove(p)


def _run(ctx, tmp):
    ctx.rule = ("models: seeded random kinematic trees built through mjSpec (free/ball/slide/hinge joints, mocap bodies, "
                "actuators with none/integrator/filter/filterexact dynamics and history buffers, joint sensors with history, "
                "connect/weld equalities, userdata, keyframes) plus a minimal and a joint-less model; signatures: 0, all, every "
                "single bit, every pair, every all-but-one, the named unions, seeded random (thorough: all 2^mjNSTATE on three "
                "models); a case is distinct by (model, op line); non-trivial = op on a signature with at least one non-empty component")
    info = run_translator(ctx)
    ctx.checker_cmd = ("cd /verif && python3 translate/c26_tables.py && cd lean && lake build MjProof.Props.C26 "
                       "MjProof.Props.C26Gen && lake env lean Audit/C26.lean")
    ctx.lean_props(THEOREMS)
    drv = None
    if info:
        # Other checks may run translate/regen_all.py (which runs this translator on *their* VERIF_REPO)
        # concurrently: make sure that what lake compiles and audits is the table of *this* tree.
        want = open(GEN_LEAN).read()

        def table_is_ours():
            return os.path.exists(GEN_LEAN) and open(GEN_LEAN).read() == want
        for attempt in range(4):
            if not table_is_ours():
                with open(GEN_LEAN, "w") as f:
                    f.write(want)
            n0 = len(ctx.obligations)
            ctx.lean_props(THEOREMS_GEN, module="MjProof.Props.C26Gen")
            d = ctx.driver("drv_c26")
            if d:
                # private copy: a later rebuild by someone else must not change the model we run
                import shutil
                os.makedirs(os.path.join(common.CACHE, "c26"), exist_ok=True)
                drv = os.path.join(common.CACHE, "c26", "drv_c26.%d" % os.getpid())
                shutil.copy2(d, drv)
                tmp.append(drv)
            if drv:
                r = common.sh([drv], inp="tableid\n")
                if r.stdout.strip() != info["table_id"]:
                    drv = None   # compiled from somebody else's table
            if table_is_ours() and (drv or not d):
                break
            del ctx.obligations[n0:]
            drv = None
        else:
            raise common.Infra("lean/MjProof/Gen/StateTable.lean keeps being modified concurrently")
    else:
        for t in THEOREMS_GEN:
            ctx.oblige("theorem " + t, "theorem", False, "no generated table: the translator refused the source shape")
    # one audit file listing everything (lean_props rewrites it per call)
    with open(os.path.join(common.LEAN, "Audit", "C26.lean"), "w") as f:
        f.write("import MjProof.Props.C26\nimport MjProof.Props.C26Gen\n" + "".join("#print axioms %s\n" % t for t in THEOREMS + THEOREMS_GEN))
    impl = ctx.harness("harness/c/c26_state.c", "c26_state")
    if not impl:
        return
    thorough = ctx.tier == "thorough"

    # element bits and the list of fields to fill/dump: documented ones plus whatever the table points at
    known = data_fields()
    if info:
        bits = {e["name"]: e["bit"] for e in info["enum"]}
        nstate = info["nstate"]
        named = [(n["name"], n["value"]) for n in info["named"]]
        fields = [f for _, f, _ in SPEC] + [f for f in info["fields"] if f not in SPEC_FIELD.values()]
    else:
        bits = {n: i for i, (n, _, _) in enumerate(SPEC)}
        nstate = len(SPEC)
        named = []
        fields = [f for _, f, _ in SPEC]
    fields = [f for f in fields if f in known]
    unknown_elems = [n for n in bits if n not in SPEC_FIELD]
    if unknown_elems:
        ctx.extra["elements_without_documented_spec"] = unknown_elems

    # ---- models, first pass: compiled sizes from the real compiler
    kinds = ["full", "minimal", "nojoint"] + ["rand"] * (9 if thorough else 4) + ["full"] * (2 if thorough else 1)
    specs = [gen_model(ctx.rng, k) for k in kinds]
    rc, outs, err = ctx.run_lines([impl], ["sizes %s ; %s" % (" ".join(SIZE_NAMES), s) for s in specs])
    if rc != 0 or len(outs) != len(specs):
        ctx.oracle_failure("c26:crash", "harness crashed while compiling generated models (rc=%s)" % rc, {"stderr": err[-800:], "specs": specs})
        return
    models = []
    for kind, s, o in zip(kinds, specs, outs):
        if o.startswith("compile-error") or o.startswith("error"):
            ctx.oblige("generated model compiles: " + s[:120], "impl-build", False, o)
            continue
        sizes = {k: int(v) for k, v in (p.split("=") for p in o.split())}
        models.append((kind, s, sizes))
    ctx.extra["models"] = [{"kind": k, "sizes": z} for k, _, z in models]

    # ---- T: differential correspondence (Lean model on the generated table vs the real API)
    nexh = 0
    dstreams, ostreams = [], []
    for mid, (kind, s, sizes) in enumerate(models):
        exhaustive = thorough and nexh < 3 and kind in ("full", "minimal", "rand")
        if exhaustive:
            nexh += 1
        sigs = signatures(ctx, nstate, named, exhaustive)
        if info:
            # the Lean driver knows exactly the fields of the generated table
            dstreams.append((mid, s, sizes, diff_lines(ctx, mid, s, sizes, info, [f for f in info["fields"] if f in known], sigs, light=exhaustive)))
        osigs = sigs if exhaustive or thorough else sigs
        ostreams.append((s, sizes, oracle_lines(ctx, mid, s, sizes, info or {"nstate": nstate}, fields, osigs, sizes.get("nkey", 0))))
    ctx.extra["exhaustive_scopes"] = ("all 2^%d signatures on %d models" % (nstate, nexh)) if nexh else \
        "quick tier: singles, pairs, all-but-one, named unions, 0, all, 40 random per model"
    if drv:
        def keyf(l):
            w = l.split()
            if w and w[0] in ("size", "get", "set", "extract", "copy") and len(w) >= 2:
                return l
            return None
        all_lines = []
        for mid, s, sizes, lines in dstreams:
            all_lines += lines
        bad = ctx.differential("state API (size/get/set/extract/copy) vs Lean model on the generated table, %d models" % len(dstreams),
                               [drv], [impl], all_lines, keyf=keyf)
        ctx.extra["differential_ops"] = len(all_lines)
        # real samples
        if not bad and len(all_lines) > 400:
            rc, outs, _ = ctx.run_lines([impl], all_lines[:400])
            shown = set()
            for l, o in zip(all_lines[:400], outs):
                w = l.split()
                if w[0] in ("size", "get", "extract", "copy") and w[0] not in shown and len(o) > 8 and not o.startswith("error"):
                    shown.add(w[0])
                    ctx.sample({"op": l[:160], "model_and_impl_output": o[:160]})
    elif info:
        ctx.oblige("correspondence state API vs Lean model", "correspondence", False, "driver did not build")
    else:
        ctx.oblige("correspondence state API vs Lean model", "correspondence", False, "no generated table (translator refused)")

    # ---- S: property oracle on the real code alone
    orc = run_oracle(ctx, impl, ostreams, bits)
    ctx.extra["oracle_checked"] = orc.checked
    ctx.extra["oracle_ops"] = orc.byop
    ctx.extra["oracle_failures"] = orc.nfail
    for s, sizes, lines in ostreams[:1]:
        ctx.sample({"oracle_op": lines[30][:60] + " ...", "model": s[:200], "sizes": sizes})

    def directed(ctx2):
        # a proof/tie obligation broke and the sampled oracle saw nothing: all 2^n signatures on up to three models
        n0 = len(ctx2.oracle_failures)
        streams = []
        for mid, (kind, s, sizes) in enumerate(models[:3]):
            sg = list(range(1 << nstate))
            streams.append((s, sizes, oracle_lines(ctx2, mid, s, sizes, info or {"nstate": nstate}, fields, sg, sizes.get("nkey", 0))))
        run_oracle(ctx2, impl, streams, bits)
        if len(ctx2.oracle_failures) > n0:
            f = ctx2.oracle_failures[n0]
            return {"key": f["key"], "what": f["what"], "replay": f["replay"]}
        return None
    ctx.directed_search = directed
    if thorough:
        ctx.leanchecker(["MjProof.Props.C26"])
