"""C41  The MJCF schema-language parser is total and its checks sound (DESIGN.md §5.C41)."""
import os
import struct

from checks import common

# this check never reads lean/MjProof/Gen: no generated-code lock needed
USES_GEN = False

META = {
    "technique": "Lean 4 proof (termination = totality; intrinsic line bounds; validator <-> declarative well-formedness by induction over the use graph) + exact differential correspondence with doc/generate/mjcf_schema.py",
    "text": "Lean model of the lexer (all token classes, the `..` look-ahead, Unicode \\d), of the recursive-descent parser and of _validate/_check_group_cycle/_validate_attr, returning Except (line x class) Schema. "
            "Totality is Lean's termination checker (well-founded recursion on remaining tokens / unvisited groups, no fuel). Proved for every text: a reported line lies in 1..(number of lines); every accepted schema "
            "satisfies each documented rule (unique declarations, non-empty enums/groups with unique keywords, well-formed arities, known unique facets, no dangling or cyclic use, variant-group rules, constraint references, "
            "children/alias resolved and unique, no duplicate attribute after group expansion, per-attribute type/arity/facet/default consistency), and for the validator rules the converse (any breach is rejected: validate ok <-> WF). "
            "The model is hand-written; it is tied to the tree by an exact differential run of the unmodified Python module against the compiled Lean model (grammar-generated valid schemas, single-rule mutants, token soups, "
            "the real mjcf.schema and its token mutants) with canonical schema dumps and (line, class) of errors compared exactly; the Unicode \\d / isspace tables of the model are compared with the running interpreter.",
    "note": "error classes stand for message templates (message text/arguments are not modelled); int()/float() of NUMBER tokens are modelled (CPython's 4300-digit int limit, correctly rounded binary64) and tied only by the differential run; "
            "Python's recursion limit is NOT modelled: the model is total where _check_group_cycle/_group_attrs raise RecursionError on use chains ~1000 deep (reported by the oracle under c41:recursionerror-deep-use-chain); "
            "lone surrogate code points in the text are outside the model (Lean Char).",
}

P = "MjProof.C41."
THEOREMS = [P + n for n in [
    "parseString_total",
    "error_line_within_text",
    "validate_ok_iff_wf",
    "accepted_wf",
    "accepted_unique_declarations",
    "accepted_enums_wellformed",
    "accepted_groups_nonempty",
    "accepted_arities_wellformed",
    "accepted_facets_known_unique",
    "accepted_constraints_wellformed",
    "accepted_no_use_cycle",
    "accepted_no_dangling_use",
    "accepted_variant_groups",
    "accepted_constraints_resolved",
    "accepted_element_facets",
    "accepted_children_resolved_unique",
    "accepted_expanded_attrs_nodup",
    "accepted_attrs_wellformed",
    "accepted_defaults_consistent",
    "breach_rejected",
    "use_cycle_rejected",
    "dangling_use_rejected",
    "duplicate_expanded_attr_rejected",
    "bad_default_rejected",
    "groupAttrs_unfold",
]]

IMPL = os.path.join(common.VERIF, "harness", "py", "c41_schema.py")
PY = "/venv/bin/python"

SCALARS = ["double", "float", "int", "bool", "string", "file", "chars"]
NUMERIC = ("double", "float", "int")
KNOWN_FACETS = ["field", "required", "nodefault", "pattern", "reading", "writing", "min", "max", "positive"]
ELEMENT_FACETS = ["xml", "alias", "field"]
VERBS = ["exclusive", "together", "requires", "oneof"]
CARDS = ["?", "!", "*", "R"]
RESERVED_MEMBER = {"use", "set", "child"}
UNI_DIGIT_STARTS = [0x660, 0x966, 0xFF10, 0x1D7CE, 0x1E950]
UNI_SPACES = ["\u00a0", "\u2003", "\u3000", "\x0b", "\x1f", "\u2028", "\r", "\x85"]


def enc(t):
    return "".join(c if (0x20 <= ord(c) <= 0x7E and c != "\\") else "\\u{%x}" % ord(c) for c in t)


# ======================================================================================================
# generator of valid schemas (structure level) and renderer
# ======================================================================================================
class Num:
    """A NUMBER literal: its source text (the value is float(text) / int(text))."""

    def __init__(self, text):
        self.text = text

    def f(self):
        return float(self.text)


def unidigits(rng, s):
    base = rng.choice(UNI_DIGIT_STARTS)
    return "".join(chr(base + ord(c) - 48) if c.isdigit() else c for c in s)


def gen_int_text(rng, v):
    s = str(v)
    r = rng.random()
    if r < 0.08:
        s = "0" * rng.randint(1, 3) + s
    if r > 0.95 and v == 0:
        s = "-0"
    if rng.random() < 0.04:
        s = unidigits(rng, s)
    return s


def gen_num_text(rng, lo=None, hi=None):
    """Random NUMBER literal; optionally with value in [lo, hi]."""
    r = rng.random()
    if lo is not None:
        v = rng.uniform(lo, hi)
        s = rng.choice(["%g", "%.3f", "%e", "%r"]) % v
    elif r < 0.35:
        s = str(rng.randint(-20, 20))
    elif r < 0.6:
        s = "%g" % rng.uniform(-100, 100)
    elif r < 0.7:
        s = rng.choice([".5", "-.25", "1.", "-3.", "0.", "-0", "-0.0", "00.50", "1e3", "1E-3", "2.5e+2", "1.e1", ".5E2"])
    elif r < 0.8:
        s = "%de%d" % (rng.randint(1, 99), rng.randint(-400, 400))
    elif r < 0.86:
        # halfway / subnormal / overflow boundaries
        s = rng.choice(["9007199254740993", "9007199254740992.5", "1.7976931348623157e308", "1.7976931348623159e308",
                        "1.797693134862315807e308", "4.9406564584124654e-324", "2.4703282292062327e-324",
                        "2.4703282292062328e-324", "2.2250738585072014e-308", "2.2250738585072011e-308",
                        "1e-400", "-1e-400", "1e400", "0.1", "0.30000000000000004", "123456789012345678901234567890",
                        "5e-324", "3e-324", "1e23", "8.5e22", "0e999999", "0.000000000000000000000000000001e30"])
    else:
        s = "%s%d.%0*d" % (rng.choice(["", "-"]), rng.randint(0, 9999), rng.randint(1, 25), rng.randint(0, 10 ** 9))
    if rng.random() < 0.04:
        s = unidigits(rng, s)
    return Num(s)


class Gen:
    def __init__(self, rng, size):
        self.rng = rng
        self.size = size
        self.counter = 0

    def ident(self, prefix="a"):
        self.counter += 1
        rng = self.rng
        tail = "".join(rng.choice("abcxyzQR_019") for _ in range(rng.randint(0, 3)))
        return "%s%dz%s" % (prefix, self.counter, tail)   # the letter keeps "<n><tail>" unambiguous

    def string_body(self):
        rng = self.rng
        n = rng.randint(0, 6)
        alphabet = "abcXYZ019 _-+#{}[]<>:=,?!*.\\'\t" + "\u00e9\u4e2d\u0663\u00a0"
        return "".join(rng.choice(alphabet) for _ in range(n))

    def schema(self):
        rng, size = self.rng, self.size
        s = {"enums": [], "groups": [], "elements": []}
        for _ in range(rng.randint(0, max(1, size // 2))):
            items = []
            for _ in range(rng.randint(1, 4)):
                key = self.ident("k") if rng.random() < 0.7 else self.string_body() + str(self.counter)
                self.counter += 1
                val = self.ident("mjC") if rng.random() < 0.6 else gen_num_text(rng).text
                items.append((key, val))
            s["enums"].append({"name": self.ident("e"), "ctype": self.ident("mjt") if rng.random() < 0.5 else None,
                               "items": items})
        namespaces = [self.ident("ns") for _ in range(rng.randint(0, 2))]
        self.ns_declared = set()
        self.pending_ns = list(namespaces)
        # groups: acyclic uses with pairwise disjoint expansions
        exp = {}
        ngroups = rng.randint(0, size)
        for gi in range(ngroups):
            variant = rng.random() < 0.25
            name = self.ident("g")
            members = []
            own = set()
            for _ in range(rng.randint(1, 4)):
                a = self.attr(s, in_variant=variant)
                members.append(("attr", a))
                own.add(a["name"])
            if not variant and exp and rng.random() < 0.6:
                for h in rng.sample(sorted(exp), min(len(exp), rng.randint(1, 2))):
                    if not (exp[h] & own):
                        members.insert(rng.randint(0, len(members)), ("use", h))
                        own |= exp[h]
            direct = [m[1]["name"] for m in members if m[0] == "attr"]
            if len(direct) >= 2 and rng.random() < 0.3:
                members.append(self.constraint(direct, in_group=True))
            exp[name] = own
            s["groups"].append({"name": name, "variant": variant, "members": members})
        rng.shuffle(s["groups"])  # forward references are legal
        # elements
        nel = rng.randint(1, max(1, size))
        names = [self.ident("el") for _ in range(nel)]
        for name in names:
            members = []
            have = set()
            for _ in range(rng.randint(0, 5)):
                a = self.attr(s, in_variant=False)
                members.append(("attr", a))
                have.add(a["name"])
            for h in rng.sample(sorted(exp), min(len(exp), rng.randint(0, 2))):
                if not (exp[h] & have):
                    members.insert(rng.randint(0, len(members)), ("use", h))
                    have |= exp[h]
            for c in rng.sample(names, min(len(names), rng.randint(0, 2))):
                members.insert(rng.randint(0, len(members)), ("child", c, rng.choice(CARDS)))
            for _ in range(rng.randint(0, 1)):
                members.insert(0, ("const", self.ident("f"), self.ident("mjV")))
            if len(have) >= 2 and rng.random() < 0.4:
                members.append(self.constraint(sorted(have), in_group=False))
            facets = []
            if rng.random() < 0.2:
                facets.append(("xml", rng.choice([self.ident("tag"), '"' + self.string_body() + '"'])))
            if rng.random() < 0.2:
                facets.append(("alias", rng.choice(names)))
            if rng.random() < 0.15:
                facets.append(("field", rng.choice([self.ident("fld"), True, gen_num_text(rng)])))
            rng.shuffle(facets)
            s["elements"].append({"name": name, "spec": self.ident("mjs") if rng.random() < 0.5 else None,
                                  "facets": facets, "members": members})
        # every namespace referred to must be declared by some id<ns>
        for ns in self.pending_ns:
            if ns not in self.ns_declared:
                e = rng.choice(s["elements"])
                e["members"].append(("attr", self.plain_attr("id", ns)))
        return s

    def plain_attr(self, ty, target):
        return {"name": self.ident("n"), "type": ty, "target": target, "arity": None, "default": None, "facets": []}

    def constraint(self, names, in_group):
        rng = self.rng
        kind = rng.choice(VERBS)
        if kind == "requires" and not in_group:
            bundles = [[n] for n in rng.sample(names, 2)]
        else:
            bundles = []
            for _ in range(rng.randint(2, 3)):
                bundles.append([rng.choice(names) for _ in range(rng.randint(1, 3))])
        return ("con", kind, bundles)

    def attr(self, s, in_variant):
        rng = self.rng
        r = rng.random()
        name = self.ident(rng.choice(["a", "b", "attr", "x_"]))
        if rng.random() < 0.03:
            name = rng.choice(["enum", "group", "element", "variant", "R", "exclusive", "requires", "double", "id"]) \
                + ("" if rng.random() < 0.3 and not hasattr(self, "_kwused") else str(self.counter))
            self._kwused = True
            self.counter += 1
        a = {"name": name, "target": None, "arity": None, "default": None, "facets": []}
        fac = a["facets"]
        if r < 0.12 and s["enums"]:
            e = rng.choice(s["enums"])
            a["type"] = rng.choice(["enum", "enum", "flags"])
            a["target"] = e["name"]
            if a["type"] == "enum" and rng.random() < 0.5:
                k = rng.choice(e["items"])[0]
                a["default"] = ("s", k, rng.random() < 0.5 or not k.isidentifier() or not k.isascii())
            elif a["type"] == "flags" and rng.random() < 0.2:
                a["default"] = ("f", gen_num_text(rng))
        elif r < 0.2:
            a["type"] = "id"
            ns = rng.choice(self.pending_ns) if self.pending_ns and rng.random() < 0.7 else self.ident("ns")
            a["target"] = ns
            self.ns_declared.add(ns)
        elif r < 0.27 and self.pending_ns:
            a["type"] = "ref"
            a["target"] = rng.choice(self.pending_ns)
        else:
            ty = rng.choice(SCALARS + ["double", "int", "double"])
            a["type"] = ty
            if ty in ("file", "bool"):
                a["arity"] = rng.choice([None, None, ("exact", 1)])
                if rng.random() < 0.5:
                    if ty == "bool":
                        a["default"] = ("s", rng.choice(["true", "false"]), rng.random() < 0.2)
                    else:
                        a["default"] = ("s", self.string_body(), True)
            elif ty == "chars":
                a["arity"] = rng.choice([None, ("exact", rng.randint(0, 12)), ("range", rng.randint(0, 3), rng.randint(4, 12))])
                if rng.random() < 0.3:
                    fac.append(("pattern", '"' + self.string_body() + '"'))
            elif ty == "string":
                a["arity"] = rng.choice([None, None, ("any",), ("exact", rng.randint(0, 5)),
                                         ("range", 0, rng.randint(1, 5)), ("sym", rng.randint(0, 3), self.ident("mjN"))])
                if rng.random() < 0.4:
                    sb = self.string_body()
                    a["default"] = ("s", sb, True) if rng.random() < 0.8 else ("s", "kw" + str(self.counter), False)
                if rng.random() < 0.2:
                    fac.append(("pattern", rng.choice(['"' + self.string_body() + '"', "custom", True])))
            else:
                kind = rng.random()
                if kind < 0.4:
                    a["arity"] = rng.choice([None, None, ("exact", 1)])
                    lo, hi = 1, 1
                elif kind < 0.6:
                    n = rng.randint(0, 6)
                    a["arity"] = ("exact", n)
                    lo, hi = n, n
                elif kind < 0.8:
                    lo = rng.randint(0, 4)
                    hi = lo + rng.randint(1, 4)
                    a["arity"] = ("range", lo, hi)
                elif kind < 0.9:
                    lo = rng.randint(0, 3)
                    hi = None
                    a["arity"] = ("sym", lo, self.ident("mjN"))
                else:
                    lo, hi = 0, None
                    a["arity"] = ("any",)
                if rng.random() < 0.5:
                    scalar = (lo == 1 and hi == 1)
                    top = hi if hi is not None else lo + 3
                    if scalar or (lo <= 1 and top >= 1 and rng.random() < 0.3):
                        a["default"] = ("f", gen_num_text(rng))
                    elif top >= 1:
                        n = rng.randint(max(lo, 1), top)
                        a["default"] = ("v", [gen_num_text(rng) for _ in range(n)])
                if rng.random() < 0.3:
                    x, y = sorted(max(-1e300, min(1e300, gen_num_text(rng).f())) for _ in range(2))
                    which = rng.random()
                    if which < 0.4:
                        fac.append(("min", Num(repr(x))))
                    elif which < 0.7:
                        fac.append(("max", Num(repr(y))))
                    else:
                        fac += [("min", Num(repr(x))), ("max", Num(repr(y)))]
                        if rng.random() < 0.3:
                            fac.reverse()
                if rng.random() < 0.1:
                    fac.append(("positive", rng.choice([True, True, "yes", Num("1")])))
        # falsy facet payloads are legal anywhere
        if rng.random() < 0.03 and not any(k == "positive" for k, _ in fac):
            fac.append(("positive", rng.choice([Num("0"), Num("-0.0"), Num("1e-999"), '""'])))
        if a["default"] is None and not in_variant and rng.random() < 0.15:
            fac.append(("required", True))
        elif rng.random() < 0.03:
            fac.append(("required", rng.choice([Num("0"), '""', Num("0e5")])))
        for k in ("field", "nodefault", "reading", "writing"):
            if rng.random() < 0.06:
                fac.append((k, rng.choice([True, self.ident("v"), '"' + self.string_body() + '"', gen_num_text(rng)])))
        return a


class Render:
    """Schema structure -> text, with random layout and comments."""

    def __init__(self, rng, wild=True):
        self.rng = rng
        self.wild = wild
        self.out = []

    def ws(self, must=False):
        rng = self.rng
        if must:
            return rng.choice([" ", " ", "  ", "\t", " \t "])
        return rng.choice(["", " ", " ", "  "])

    def comment(self):
        rng = self.rng
        if rng.random() < 0.25:
            body = "".join(rng.choice("abc xyz#\"{}=:.019\t" + "\u00e9\u4e2d") for _ in range(rng.randint(0, 12)))
            pre = rng.choice(["", " ", "  "]) + (rng.choice(UNI_SPACES) if self.wild and rng.random() < 0.1 else "")
            post = (rng.choice(UNI_SPACES) if self.wild and rng.random() < 0.1 else "") + rng.choice(["", " ", "\t"])
            return self.ws() + "#" + pre + body + post
        return ""

    def nl(self):
        rng = self.rng
        s = self.comment() + "\n"
        while rng.random() < 0.15:
            s += self.ws() + self.comment() + "\n"
        return s

    def soft(self):
        """Optional line break between tokens where the grammar does not care."""
        return self.nl() if self.rng.random() < 0.05 else self.ws()

    def val(self, v):
        if v is True:
            return None
        if isinstance(v, Num):
            return v.text
        return v  # identifier or quoted string, already source text

    def facets(self, fs):
        if not fs:
            return ""
        parts = []
        for k, v in fs:
            t = self.val(v)
            parts.append(k if t is None else k + self.ws() + "=" + self.ws() + t)
        return self.ws() + "(" + self.ws() + (self.ws() + "," + self.soft()).join(parts) + self.ws() + ")"

    def arity(self, ar):
        rng = self.rng
        if ar is None:
            return ""
        if "raw" == ar[0]:
            return ar[1]
        if ar[0] == "any":
            return "[" + self.ws() + "]"
        if ar[0] == "exact":
            return "[" + self.ws() + gen_int_text(rng, ar[1]) + self.ws() + "]"
        if ar[0] == "range":
            return "[" + gen_int_text(rng, ar[1]) + self.ws() + ".." + self.ws() + gen_int_text(rng, ar[2]) + "]"
        return "[" + gen_int_text(rng, ar[1]) + ".." + self.ws() + ar[2] + self.ws() + "]"

    def default(self, d):
        if d is None:
            return ""
        eq = self.ws() + "=" + self.ws()
        if d[0] == "raw":
            return eq + d[1]
        if d[0] == "f":
            return eq + d[1].text
        if d[0] == "s":
            return eq + ('"' + d[1] + '"' if d[2] else d[1])
        return eq + "{" + self.ws() + (self.ws() + "," + self.soft()).join(n.text for n in d[1]) + self.ws() + "}"

    def member(self, m):
        rng = self.rng
        if m[0] == "attr":
            a = m[1]
            if a["type"] in ("enum", "flags", "ref", "id") or a.get("target") is not None:
                ty = a["type"] + self.ws() + "<" + self.ws() + str(a["target"]) + self.ws() + ">"
            else:
                ty = a["type"] + self.arity(a["arity"])
            return a["name"] + self.ws() + ":" + self.ws() + ty + self.default(a["default"]) + self.facets(a["facets"])
        if m[0] == "use":
            return "use" + self.ws(True) + m[1]
        if m[0] == "child":
            return "child" + self.ws(True) + m[1] + self.ws(True) + m[2]
        if m[0] == "const":
            return "set" + self.ws(True) + m[1] + self.ws() + "=" + self.ws() + m[2]
        if m[0] == "con":
            return m[1] + self.ws(True) + self.ws(True).join((self.ws() + "+" + self.ws()).join(b) for b in m[2])
        if m[0] == "raw":
            return m[1]
        raise ValueError(m)

    def members(self, ms):
        rng = self.rng
        s = ""
        for i, m in enumerate(ms):
            line = self.ws() + self.member(m)
            # a constraint is a single-line construct: it must be followed by a line break (or a non-identifier)
            if m[0] in ("con", "raw") or rng.random() < 0.93 or i == len(ms) - 1:
                s += line + self.nl()
            else:
                s += line + self.ws(True)
        return s

    def schema(self, s, order=None):
        rng = self.rng
        decls = [("enum", e) for e in s["enums"]] + [("group", g) for g in s["groups"]] + \
                [("element", e) for e in s["elements"]]
        if order is None:
            # keep relative order inside each table (it is observable), interleave the tables
            idx = {"enum": 0, "group": 0, "element": 0}
            tabs = {"enum": s["enums"], "group": s["groups"], "element": s["elements"]}
            seq = [k for k, _ in decls]
            rng.shuffle(seq)
            decls = []
            for k in seq:
                decls.append((k, tabs[k][idx[k]]))
                idx[k] += 1
        text = ""
        while rng.random() < 0.2:
            text += self.nl()
        for kind, d in decls:
            open_ = self.soft() + "{"
            if kind == "enum":
                text += "enum" + self.ws(True) + d["name"]
                if d["ctype"] is not None:
                    text += self.ws() + ":" + self.ws() + d["ctype"]
                text += open_ + (self.nl() if rng.random() < 0.9 else self.ws())
                for k, v in d["items"]:
                    key = k if (k.isascii() and k.isidentifier() and rng.random() < 0.85) else '"' + k + '"'
                    text += self.ws() + key + self.ws() + "=" + self.ws() + v + (self.nl() if rng.random() < 0.9 else self.ws(True))
                text += self.ws() + "}" + self.nl()
            elif kind == "group":
                text += "group" + self.ws(True) + d["name"] + (self.ws(True) + "variant" if d["variant"] else "")
                text += open_ + (self.nl() if rng.random() < 0.9 else self.ws())
                text += self.members(d["members"])
                text += self.ws() + "}" + self.nl()
            else:
                text += "element" + self.ws(True) + d["name"]
                if d["spec"] is not None:
                    text += self.ws() + ":" + self.ws() + d["spec"]
                text += self.facets(d["facets"])
                text += open_ + (self.nl() if rng.random() < 0.9 or not d["members"] else self.ws())
                text += self.members(d["members"])
                text += self.ws() + "}" + (self.nl() if rng.random() < 0.9 else "")
        return text


# ======================================================================================================
# single-rule mutations (structure level); each returns the name of the rule broken, or None
# ======================================================================================================
def _attrs_of(s):
    for c in s["groups"] + s["elements"]:
        for m in c["members"]:
            if m[0] == "attr":
                yield c, m[1]


def _pick(rng, it):
    xs = list(it)
    return rng.choice(xs) if xs else None


def _numeric_attr(rng, s, pred=lambda a: True):
    return _pick(rng, (ca for ca in _attrs_of(s) if ca[1]["type"] in NUMERIC and ca[1].get("target") is None and pred(ca[1])))


def _clear(a):
    a["default"] = None
    a["facets"] = [f for f in a["facets"] if f[0] not in ("required",)]


def m_dup_decl(rng, s):
    tab = rng.choice(["enums", "groups", "elements"])
    if not s[tab]:
        return None
    d = rng.choice(s[tab])
    s[tab].insert(rng.randint(0, len(s[tab])), d)
    return "unique-declarations"


def m_empty_enum(rng, s):
    if not s["enums"]:
        return None
    rng.choice(s["enums"])["items"] = []
    return "enum-nonempty"


def m_dup_enum_key(rng, s):
    if not s["enums"]:
        return None
    e = rng.choice(s["enums"])
    e["items"].insert(rng.randint(0, len(e["items"])), (rng.choice(e["items"])[0], "mjX"))
    return "enum-unique-keywords"


def m_empty_group(rng, s):
    g = _pick(rng, (g for g in s["groups"] if not any(m[0] == "use" and m[1] == g["name"] for c in s["groups"] + s["elements"] for m in c["members"])))
    if g is None:
        return None
    g["members"] = []
    return "group-nonempty"


def m_dangling_use(rng, s):
    c = rng.choice(s["groups"] + s["elements"])
    if c in s["groups"] and c["variant"]:
        return None
    c["members"].insert(rng.randint(0, len(c["members"])), ("use", "nosuchgroup"))
    return "no-dangling-use"


def m_cycle(rng, s):
    gs = [g for g in s["groups"] if not g["variant"]]
    if not gs:
        return None
    g = rng.choice(gs)
    # the groups reachable from g (including g): a use of g inside any of them closes a cycle
    reach, todo = set(), [g["name"]]
    byname = {x["name"]: x for x in s["groups"]}
    while todo:
        n = todo.pop()
        if n in reach or n not in byname:
            continue
        reach.add(n)
        todo += [m[1] for m in byname[n]["members"] if m[0] == "use"]
    tgt = byname[rng.choice(sorted(n for n in reach if not byname[n]["variant"]))]
    tgt["members"].insert(rng.randint(0, len(tgt["members"])), ("use", g["name"]))
    return "no-use-cycle"


def m_variant_use(rng, s):
    g = _pick(rng, (g for g in s["groups"] if g["variant"]))
    o = _pick(rng, (o for o in s["groups"] if o is not g))
    if g is None or o is None:
        return None
    g["members"].append(("use", o["name"]))
    return "variant-no-use"


def m_variant_required(rng, s):
    ca = _pick(rng, ((g, m[1]) for g in s["groups"] if g["variant"] for m in g["members"] if m[0] == "attr"))
    if ca is None:
        return None
    a = ca[1]
    a["default"] = None
    a["facets"] = [f for f in a["facets"] if f[0] != "required"] + [("required", rng.choice([True, "yes", Num("1")]))]
    return "variant-no-required"


def m_group_con_unknown(rng, s):
    g = _pick(rng, (g for g in s["groups"] if any(m[0] == "attr" for m in g["members"])))
    if g is None:
        return None
    n = [m[1]["name"] for m in g["members"] if m[0] == "attr"][0]
    g["members"].append(("con", rng.choice(VERBS), [[n], ["nosuchattr"]]))
    return "constraint-references"


def m_elem_con_unknown(rng, s):
    e = rng.choice(s["elements"])
    names = [m[1]["name"] for m in e["members"] if m[0] == "attr"]
    b = [names[0]] if names else ["alsonosuch"]
    e["members"].append(("con", rng.choice(VERBS), [b, [rng.choice(names + ["x"]), "nosuchattr"]]))
    return "constraint-references"


def m_requires_shape(rng, s):
    e = _pick(rng, (e for e in s["elements"] if sum(1 for m in e["members"] if m[0] == "attr") >= 2))
    if e is None:
        return None
    n = [m[1]["name"] for m in e["members"] if m[0] == "attr"]
    e["members"].append(("con", "requires", rng.choice([[[n[0]], [n[1], n[0]]], [[n[0]], [n[1]], [n[0]]], [[n[0], n[1]], [n[1]]]])))
    return "requires-two-attributes"


def m_con_one_bundle(rng, s):
    ca = _pick(rng, _attrs_of(s))
    if ca is None:
        return None
    ca[0]["members"].append(("con", rng.choice(VERBS), [[ca[1]["name"]] * rng.randint(1, 3)]))
    return "constraint-two-bundles"


def m_dangling_child(rng, s):
    e = rng.choice(s["elements"])
    e["members"].insert(rng.randint(0, len(e["members"])), ("child", "nosuchelement", rng.choice(CARDS)))
    return "children-resolved"


def m_dup_child(rng, s):
    e = rng.choice(s["elements"])
    c = rng.choice(s["elements"])["name"]
    e["members"] = [m for m in e["members"] if not (m[0] == "child" and m[1] == c)]
    e["members"] += [("child", c, rng.choice(CARDS)), ("child", c, rng.choice(CARDS))]
    return "children-unique"


def m_bad_card(rng, s):
    e = rng.choice(s["elements"])
    e["members"].append(("child", e["name"], rng.choice(["+", "r", "1", '"R"', "=", "RR"])))
    return "cardinality"


def m_alias_dangling(rng, s):
    e = rng.choice(s["elements"])
    e["facets"] = [f for f in e["facets"] if f[0] != "alias"] + [("alias", "nosuchelement")]
    return "alias-resolved"


def m_alias_not_name(rng, s):
    e = rng.choice(s["elements"])
    k = rng.choice(["xml", "alias"])
    e["facets"] = [f for f in e["facets"] if f[0] != k] + [(k, rng.choice([True, Num("1"), Num("0")]))]
    return "element-facet-name"


def m_elem_unknown_facet(rng, s):
    e = rng.choice(s["elements"])
    e["facets"] = e["facets"] + [(rng.choice(["required", "min", "frob"]), True)]
    return "facets-known"


def m_dup_attr_direct(rng, s):
    e = _pick(rng, (e for e in s["elements"] if any(m[0] == "attr" for m in e["members"])))
    if e is None:
        return None
    a = rng.choice([m[1] for m in e["members"] if m[0] == "attr"])
    b = dict(a, facets=list(a["facets"]))
    e["members"].insert(rng.randint(0, len(e["members"])), ("attr", b))
    return "expanded-attributes-unique"


def m_dup_attr_via_use(rng, s):
    e = _pick(rng, (e for e in s["elements"] if any(m[0] == "use" for m in e["members"])))
    if e is None:
        return None
    g = rng.choice([m[1] for m in e["members"] if m[0] == "use"])
    if rng.random() < 0.5:
        e["members"].insert(rng.randint(0, len(e["members"])), ("use", g))
    else:
        grp = [x for x in s["groups"] if x["name"] == g][0]
        a = [m[1] for m in grp["members"] if m[0] == "attr"][0]
        e["members"].insert(rng.randint(0, len(e["members"])),
                            ("attr", {"name": a["name"], "type": "int", "target": None, "arity": None, "default": None, "facets": []}))
    return "expanded-attributes-unique"


def m_set_in_group(rng, s):
    if not s["groups"]:
        return None
    rng.choice(s["groups"])["members"].append(rng.choice([("const", "type", "mjX"), ("child", s["elements"][0]["name"], "*")]))
    return "group-members"


def _mut_attr(f):
    def g(rng, s):
        ca = _pick(rng, _attrs_of(s))
        if ca is None:
            return None
        return f(rng, s, ca[0], ca[1])
    g.__name__ = f.__name__
    return g


@_mut_attr
def m_unknown_type(rng, s, c, a):
    a.update(type=rng.choice(["quux", "Double", "integer", "str", "variant"]), target=None)
    return "known-types"


@_mut_attr
def m_dangling_enum(rng, s, c, a):
    _clear(a)
    a.update(type=rng.choice(["enum", "flags"]), target="nosuchenum", arity=None, facets=[])
    return "enum-target-declared"


@_mut_attr
def m_dangling_ref(rng, s, c, a):
    _clear(a)
    a.update(type="ref", target="nosuchnamespace", arity=None, facets=[])
    return "ref-namespace-declared"


@_mut_attr
def m_arity_decreasing(rng, s, c, a):
    lo = rng.randint(0, 5)
    a.update(type="double", target=None, default=None, arity=("raw", "[%d..%d]" % (lo, rng.randint(0, lo))))
    return "arity-increasing"


@_mut_attr
def m_arity_negative(rng, s, c, a):
    a.update(type="double", target=None, default=None,
             arity=("raw", rng.choice(["[-1]", "[-2..3]", "[0..-1]", "[-%d]" % rng.randint(1, 99)])))
    return "arity-nonnegative"


@_mut_attr
def m_arity_nonint(rng, s, c, a):
    a.update(type="double", target=None, default=None,
             arity=("raw", rng.choice(["[1.5]", "[1.]", "[1e1]", "[2..3.0]", "[.5]", "[x]", "[1..]", "[..2]", "[1,2]", "[1..\"3\"]"])))
    return "arity-integer"


@_mut_attr
def m_file_bool_vector(rng, s, c, a):
    _clear(a)
    a.update(type=rng.choice(["file", "bool"]), target=None, facets=[],
             arity=rng.choice([("exact", 2), ("exact", 0), ("any",), ("range", 1, 2), ("sym", 1, "mjN")]))
    return "file-bool-scalar"


@_mut_attr
def m_chars_unbounded(rng, s, c, a):
    _clear(a)
    a.update(type="chars", target=None, facets=[], arity=rng.choice([("any",), ("sym", 1, "mjN")]))
    return "chars-bounded"


@_mut_attr
def m_pattern_numeric(rng, s, c, a):
    if a["type"] in ("string", "chars"):
        a.update(type="int", arity=None, default=None)
    a["facets"] = [f for f in a["facets"] if f[0] != "pattern"] + [("pattern", rng.choice(['"x"', True, Num("0")]))]
    return "pattern-on-text"


@_mut_attr
def m_minmax_nonnumeric(rng, s, c, a):
    k = rng.choice(["min", "max"])
    if a["type"] in NUMERIC and a.get("target") is None:
        v = rng.choice(['"1"', "one"])
    else:
        v = rng.choice([Num("1"), True, '"1"'])
    a["facets"] = [f for f in a["facets"] if f[0] != k] + [(k, v)]
    return "min-max-numeric"


def m_min_gt_max(rng, s):
    ca = _numeric_attr(rng, s)
    if ca is None:
        return None
    a = ca[1]
    lo, hi = rng.choice([("1", "0"), ("0.5", "0.25"), ("1e-5", "-0"), ("2", True), ("1e400", "1e308"),
                         ("1.0000000000000002", "1"), ("-1", "-1.5"), ("5e-324", "0")])
    a["facets"] = [f for f in a["facets"] if f[0] not in ("min", "max")] + [("min", Num(lo)), ("max", True if hi is True else Num(hi))]
    if rng.random() < 0.5:
        a["facets"].reverse()
    return "min-le-max"


@_mut_attr
def m_positive_nonnumeric(rng, s, c, a):
    if a["type"] in NUMERIC and a.get("target") is None:
        a.update(type="string", default=None, facets=[f for f in a["facets"] if f[0] not in ("min", "max")])
    a["facets"] = [f for f in a["facets"] if f[0] != "positive"] + [("positive", rng.choice([True, "x", Num("2")]))]
    return "positive-numeric"


def m_required_default(rng, s):
    ca = _pick(rng, (ca for ca in _attrs_of(s) if ca[1]["default"] is not None and not (ca[0] in s["groups"] and ca[0]["variant"])))
    if ca is None:
        return None
    a = ca[1]
    a["facets"] = [f for f in a["facets"] if f[0] != "required"] + [("required", rng.choice([True, True, "yes", Num("0.5")]))]
    return "required-no-default"


@_mut_attr
def m_unknown_facet(rng, s, c, a):
    a["facets"] = a["facets"] + [(rng.choice(["frobnicate", "xml", "alias", "Required", "minimum"]), rng.choice([True, Num("1")]))]
    return "facets-known"


@_mut_attr
def m_dup_facet(rng, s, c, a):
    k = rng.choice(["field", "nodefault", "reading", "writing"])
    a["facets"] = [f for f in a["facets"] if f[0] != k] + [(k, True)]
    a["facets"].insert(rng.randint(0, len(a["facets"])), (k, rng.choice([True, "v"])))
    return "facets-unique"


def m_enum_default_not_kw(rng, s):
    ca = _pick(rng, (ca for ca in _attrs_of(s) if ca[1]["type"] == "enum"))
    if ca is None:
        return None
    ca[1]["facets"] = [f for f in ca[1]["facets"] if f[0] != "required"]
    ca[1]["default"] = rng.choice([("s", "nosuchkeyword", False), ("s", "no such", True), ("f", Num("0")), ("v", [Num("1")])])
    return "enum-default-keyword"


@_mut_attr
def m_default_forbidden(rng, s, c, a):
    ty = rng.choice(["id", "ref", "chars"])
    if ty == "chars":
        a.update(type="chars", target=None, arity=("exact", 3), facets=[])
    else:
        ns = [x["target"] for _, x in _attrs_of(s) if x["type"] == "id" and x is not a]
        if ty == "ref" and not ns:
            ty = "id"
        a.update(type=ty, target=rng.choice(ns) if ty == "ref" else "nsx", arity=None, facets=[])
    a["default"] = rng.choice([("s", "x", True), ("s", "x", False), ("f", Num("1"))])
    return "no-default-for-id-ref-chars"


@_mut_attr
def m_bool_default(rng, s, c, a):
    a.update(type="bool", target=None, arity=None, facets=[],
             default=rng.choice([("s", "maybe", False), ("s", "True", False), ("s", "", True), ("f", Num("1")), ("v", [Num("1")]), ("s", "true ", True)]))
    return "bool-default"


@_mut_attr
def m_string_default(rng, s, c, a):
    a.update(type=rng.choice(["string", "file"]), target=None, arity=None, facets=[],
             default=rng.choice([("f", Num("1")), ("v", [Num("1"), Num("2")]), ("f", Num("-0.0"))]))
    return "string-default"


def m_numeric_default_string(rng, s):
    ca = _numeric_attr(rng, s)
    if ca is None:
        return None
    ca[1]["facets"] = [f for f in ca[1]["facets"] if f[0] != "required"]
    ca[1]["default"] = rng.choice([("s", "one", False), ("s", "1", True), ("s", "", True)])
    return "numeric-default"


@_mut_attr
def m_vector_for_scalar(rng, s, c, a):
    a.update(type=rng.choice(list(NUMERIC) + ["flags"] if s["enums"] else list(NUMERIC)), arity=rng.choice([None, ("exact", 1)]),
             facets=[], default=("v", [Num("1")] * rng.randint(1, 3)))
    a["target"] = s["enums"][0]["name"] if a["type"] == "flags" else None
    if a["type"] == "flags":
        a["arity"] = None
    return "vector-default-on-scalar"


@_mut_attr
def m_default_too_short(rng, s, c, a):
    lo = rng.randint(2, 5)
    n = rng.randint(1, lo - 1)
    a.update(type=rng.choice(NUMERIC), target=None, facets=[],
             arity=rng.choice([("exact", lo), ("range", lo, lo + 2), ("sym", lo, "mjN")]),
             default=("f", Num("1")) if n == 1 and rng.random() < 0.5 else ("v", [Num("1")] * n))
    return "default-length"


@_mut_attr
def m_default_too_long(rng, s, c, a):
    hi = rng.randint(0, 4)
    n = hi + rng.randint(1, 2)
    a.update(type=rng.choice(NUMERIC), target=None, facets=[],
             arity=rng.choice([("exact", hi), ("range", 0, hi)]) if hi > 0 else ("exact", 0),
             default=("f", Num("1")) if n == 1 and rng.random() < 0.5 else ("v", [Num("1")] * n))
    if a["arity"] == ("exact", 1):
        a["arity"] = ("range", 0, 1)
    return "default-length"


MUTATIONS = [m_dup_decl, m_empty_enum, m_dup_enum_key, m_empty_group, m_dangling_use, m_cycle, m_variant_use,
             m_variant_required, m_group_con_unknown, m_elem_con_unknown, m_requires_shape, m_con_one_bundle,
             m_dangling_child, m_dup_child, m_bad_card, m_alias_dangling, m_alias_not_name, m_elem_unknown_facet,
             m_dup_attr_direct, m_dup_attr_via_use, m_set_in_group, m_unknown_type, m_dangling_enum, m_dangling_ref,
             m_arity_decreasing, m_arity_negative, m_arity_nonint, m_file_bool_vector, m_chars_unbounded,
             m_pattern_numeric, m_minmax_nonnumeric, m_min_gt_max, m_positive_nonnumeric, m_required_default,
             m_unknown_facet, m_dup_facet, m_enum_default_not_kw, m_default_forbidden, m_bool_default,
             m_string_default, m_numeric_default_string, m_vector_for_scalar, m_default_too_short, m_default_too_long]


# ======================================================================================================
# token-level generators
# ======================================================================================================
SOUP = (["enum", "group", "element", "use", "set", "child", "variant", "exclusive", "together", "requires", "oneof",
         "double", "float", "int", "bool", "string", "file", "chars", "enum", "flags", "ref", "id", "R", "a", "b", "c",
         "g", "e1", "_x", "true", "false", "required", "min", "max", "positive", "pattern", "field", "xml", "alias",
         "mjNREF"] + list("{}()[]<>:=,?!*+") * 3 + ["{", "}", "{", "}", ":", ":", "=", "\n", "\n", "\n", "\n", " ", " ", "\t",
         "..", ".", "-", "0", "1", "2", "3", "10", "-1", "0.5", ".5", "1.", "1e3", "1e", "1e+", "0..3", "1...2", "1.5.2",
         "-.5", "--1", "1.e5", "1E-2", '"s"', '""', '"a b"', '"', "'", "# c", "#", "#x\n", "\r", ";", "@", "$", "\\",
         "\u00e9", "\u0663", "\u0663.\u0665", "\uff11", "\u00a0", "\u2028", "\x00", "\x7f", "\U0001d7d8", "\U0001f600", "/", "|", "~", "^", "&", "%"])


def gen_soup(rng):
    n = rng.choice([0, 1, 2, 3, 5, 8, 13, 30, 60])
    parts = []
    for _ in range(n):
        parts.append(rng.choice(SOUP))
        parts.append(rng.choice(["", " ", " ", " ", "\n", "  "]))
    return "".join(parts)


STRUCTURED = ["element e {\n", "group g {\n", "group g variant {\n", "enum k {\n", " a : int\n", " a : double[3] = {1, 2, 3}\n",
              " b : enum<k> = x\n", " x = 0\n", " y = mjY\n", " use g\n", " use h\n", " child e *\n", " set f = mjV\n",
              " exclusive a b\n", " requires a b\n", " n : id<ns>\n", " r : ref<ns>\n", "}\n", "}\n", "}\n",
              " c : string = \"s\" (pattern=\"p\")\n", " d : float (min=0, max=1)\n", " f : file (required)\n",
              " v : chars[3]\n", " w : bool = true\n", "element f (alias=e) {\n", "element h : mjsH (xml=e) {\n", "group h {\n"]


def gen_structured_soup(rng):
    """Line-level soup: mostly well-formed lines in random order (reaches the validator far more often)."""
    return "".join(rng.choice(STRUCTURED) for _ in range(rng.choice([1, 2, 3, 4, 6, 9, 14])))


def token_mutate(rng, text):
    """Delete / duplicate / replace / swap one lexical token of a text."""
    import re
    toks = re.findall(r'[ \t]+|#[^\n]*|\n|"[^"\n]*"|-?(?:\d+(?:\.(?!\.)\d*)?|\.\d+)(?:[eE][+-]?\d+)?|\.\.|[A-Za-z_][A-Za-z0-9_]*|.', text, re.S)
    if not toks:
        return rng.choice(SOUP)
    idx = [i for i, t in enumerate(toks) if not t.isspace()] or [0]
    i = rng.choice(idx)
    r = rng.random()
    if r < 0.3:
        del toks[i]
    elif r < 0.5:
        toks.insert(i, toks[i] if toks[i][0] in "{}()[]<>:=,?!*+" else " " + toks[i] + " ")
    elif r < 0.8:
        toks[i] = rng.choice(SOUP)
    elif r < 0.9:
        j = rng.choice(idx)
        toks[i], toks[j] = toks[j], toks[i]
    else:
        toks[i] = toks[i][: len(toks[i]) // 2]
    return "".join(toks)


def deep_chain(n, shape):
    if shape == "chain":     # g0 uses g1 uses ... gN ; an element uses g0
        return "".join("group g%d {\n use g%d\n}\n" % (i, i + 1) for i in range(n)) + \
            "group g%d {\n a : int\n}\nelement e {\n use g0\n}\n" % n
    if shape == "chain-rev":  # declared in reverse order
        return "group g%d {\n a : int\n}\n" % n + \
            "".join("group g%d {\n use g%d\n}\n" % (i, i + 1) for i in reversed(range(n))) + "element e {\n use g0\n}\n"
    if shape == "chain-cycle":  # the last group closes the cycle: SchemaError expected
        return "".join("group g%d {\n use g%d\n}\n" % (i, (i + 1) % n) for i in range(n))
    raise ValueError(shape)


# ======================================================================================================
# property oracle: reader of the canonical dump + independent rule checker
# ======================================================================================================
class DumpReader:
    def __init__(self, s):
        self.t = s.split(" ")
        self.i = 0

    def tok(self):
        t = self.t[self.i]
        self.i += 1
        return t

    def expect(self, w):
        t = self.tok()
        if t != w:
            raise ValueError("dump: expected %r got %r at %d" % (w, t, self.i))

    def num(self):
        return int(self.tok())

    def qstr(self, t=None):
        import re
        t = self.tok() if t is None else t
        if len(t) < 2 or t[0] != '"' or t[-1] != '"':
            raise ValueError("dump: bad string %r" % t)
        return re.sub(r"\\u\{([0-9a-f]+)\}", lambda m: chr(int(m.group(1), 16)), t[1:-1])

    def opt(self):
        t = self.tok()
        return None if t == "-" else self.qstr(t)

    def dbl(self, h):
        return struct.unpack(">d", bytes.fromhex(h))[0]

    def facets(self):
        out = []
        for _ in range(self.num()):
            k = self.qstr()
            v = self.tok()
            out.append((k, True if v == "T" else self.qstr(v[1:]) if v[0] == "s" else ("f", self.dbl(v[1:]))))
        return out

    def member(self):
        k = self.tok()
        if k == "attr":
            a = {"name": self.qstr(), "type": self.tok(), "target": self.opt(), "lo": self.num()}
            h = self.tok()
            a["hi"] = None if h == "-" else int(h[1:]) if h[0] == "n" else self.qstr(h[1:])
            d = self.tok()
            if d == "-":
                a["default"] = None
            elif d[0] == "f":
                a["default"] = ("f", self.dbl(d[1:]))
            elif d[0] == "s":
                a["default"] = ("s", self.qstr(d[1:]))
            else:
                a["default"] = ("v", [self.dbl(self.tok()) for _ in range(int(d[1:]))])
            a["facets"] = self.facets()
            a["doc"] = self.opt()
            a["line"] = self.num()
            return ("attr", a)
        if k == "use":
            return ("use", self.qstr(), self.num())
        if k == "child":
            return ("child", self.qstr(), self.tok(), self.opt(), self.num())
        if k == "const":
            return ("const", self.qstr(), self.qstr(), self.opt(), self.num())
        if k == "con":
            kind = self.tok()
            bundles = [[self.qstr() for _ in range(self.num())] for _ in range(self.num())]
            return ("con", kind, bundles, self.opt(), self.num())
        raise ValueError("dump: member kind %r" % k)

    def schema(self):
        self.expect("ok")
        s = {"enums": [], "groups": [], "elements": []}
        self.expect("enums")
        for _ in range(self.num()):
            self.expect("enum")
            e = {"name": self.qstr(), "ctype": self.opt(), "doc": self.opt(), "line": self.num()}
            e["items"] = [(self.qstr(), self.qstr()) for _ in range(self.num())]
            s["enums"].append(e)
        self.expect("groups")
        for _ in range(self.num()):
            self.expect("group")
            g = {"name": self.qstr(), "variant": self.tok() == "1", "doc": self.opt(), "line": self.num()}
            g["members"] = [self.member() for _ in range(self.num())]
            s["groups"].append(g)
        self.expect("elements")
        for _ in range(self.num()):
            self.expect("element")
            e = {"name": self.qstr(), "spec": self.opt(), "facets": self.facets(), "doc": self.opt(), "line": self.num()}
            e["members"] = [self.member() for _ in range(self.num())]
            s["elements"].append(e)
        if self.i != len(self.t):
            raise ValueError("dump: trailing tokens")
        return s


def _truthy(v):
    if v is True:
        return True
    if isinstance(v, tuple):
        return v[1] != 0
    return v != ""


def _numval(v):
    return 1.0 if v is True else v[1]


def rule_violations(s, nlines):
    """Independent statement of the documented rules over a dumped (accepted) schema. Iterative, no recursion."""
    bad = []
    for tab in ("enums", "groups", "elements"):
        names = [d["name"] for d in s[tab]]
        if len(set(names)) != len(names):
            bad.append("unique-declarations:" + tab)
    for e in s["enums"]:
        keys = [k for k, _ in e["items"]]
        if not keys:
            bad.append("enum-nonempty")
        if len(set(keys)) != len(keys):
            bad.append("enum-unique-keywords")
    groups = {g["name"]: g for g in s["groups"]}
    enums = {e["name"]: e for e in s["enums"]}
    elements = {e["name"] for e in s["elements"]}
    containers = s["groups"] + s["elements"]
    lines = [d["line"] for tab in ("enums", "groups", "elements") for d in s[tab]]
    for c in containers:
        for m in c["members"]:
            lines.append(m[1]["line"] if m[0] == "attr" else m[-1])
    if any(not (1 <= l <= nlines) for l in lines):
        bad.append("line-within-text")
    for g in s["groups"]:
        if not g["members"]:
            bad.append("group-nonempty")
        if any(m[0] in ("child", "const") for m in g["members"]):
            bad.append("group-members")
    # use graph: dangling, cycles (Kahn), expansion (memoised, in topological order)
    dangling = False
    for c in containers:
        for m in c["members"]:
            if m[0] == "use" and m[1] not in groups:
                dangling = True
    if dangling:
        bad.append("no-dangling-use")
    indeg = {n: 0 for n in groups}
    for g in s["groups"]:
        for m in g["members"]:
            if m[0] == "use" and m[1] in groups:
                indeg[m[1]] += 1
    order, todo = [], [n for n in groups if indeg[n] == 0]
    while todo:
        n = todo.pop()
        order.append(n)
        for m in groups[n]["members"]:
            if m[0] == "use" and m[1] in groups:
                indeg[m[1]] -= 1
                if indeg[m[1]] == 0:
                    todo.append(m[1])
    cyclic = len(order) != len(groups)
    if cyclic:
        bad.append("no-use-cycle")
    exp = {}
    if not cyclic and not dangling:
        for n in reversed(order):
            out = []
            for m in groups[n]["members"]:
                if m[0] == "attr":
                    out.append(m[1]["name"])
                elif m[0] == "use":
                    out += exp[m[1]]
            exp[n] = out
    for g in s["groups"]:
        direct = {m[1]["name"] for m in g["members"] if m[0] == "attr"}
        for m in g["members"]:
            if m[0] == "con":
                if len(m[2]) < 2 or any(len(b) == 0 for b in m[2]):
                    bad.append("constraint-two-bundles")
                if any(n not in direct for b in m[2] for n in b):
                    bad.append("constraint-references")
            if g["variant"] and m[0] == "use":
                bad.append("variant-no-use")
            if g["variant"] and m[0] == "attr" and _truthy(dict(m[1]["facets"]).get("required", "")):
                bad.append("variant-no-required")
    namespaces = {m[1]["target"] for c in containers for m in c["members"] if m[0] == "attr" and m[1]["type"] == "id"}
    for e in s["elements"]:
        fk = [k for k, _ in e["facets"]]
        if len(set(fk)) != len(fk):
            bad.append("facets-unique")
        if any(k not in ELEMENT_FACETS for k in fk):
            bad.append("facets-known")
        f = dict(e["facets"])
        for k in ("xml", "alias"):
            if k in f and not isinstance(f[k], str):
                bad.append("element-facet-name")
        if isinstance(f.get("alias"), str) and f["alias"] not in elements:
            bad.append("alias-resolved")
        ch = [m[1] for m in e["members"] if m[0] == "child"]
        if any(c not in elements for c in ch):
            bad.append("children-resolved")
        if len(set(ch)) != len(ch):
            bad.append("children-unique")
        if any(m[0] == "child" and m[2] not in CARDS for m in e["members"]):
            bad.append("cardinality")
        if not cyclic and not dangling:
            names = []
            for m in e["members"]:
                if m[0] == "attr":
                    names.append(m[1]["name"])
                elif m[0] == "use":
                    names += exp[m[1]]
            if len(set(names)) != len(names):
                bad.append("expanded-attributes-unique")
            for m in e["members"]:
                if m[0] == "con":
                    if len(m[2]) < 2 or any(len(b) == 0 for b in m[2]):
                        bad.append("constraint-two-bundles")
                    if any(n not in names for b in m[2] for n in b):
                        bad.append("constraint-references")
                    if m[1] == "requires" and (len(m[2]) != 2 or any(len(b) != 1 for b in m[2])):
                        bad.append("requires-two-attributes")
    for c in containers:
        for m in c["members"]:
            if m[0] != "attr":
                continue
            a = m[1]
            ty, lo, hi, d = a["type"], a["lo"], a["hi"], a["default"]
            f = dict(a["facets"])
            fk = [k for k, _ in a["facets"]]
            if len(set(fk)) != len(fk):
                bad.append("facets-unique")
            if any(k not in KNOWN_FACETS for k in fk):
                bad.append("facets-known")
            if ty not in SCALARS + ["enum", "flags", "ref", "id"]:
                bad.append("known-types")
            if lo < 0 or (isinstance(hi, int) and hi < lo):
                bad.append("arity-increasing")
            if ty in ("enum", "flags", "ref", "id"):
                if a["target"] is None or (lo, hi) != (1, 1):
                    bad.append("target-types")
            elif a["target"] is not None:
                bad.append("target-types")
            if ty in ("enum", "flags") and a["target"] not in enums:
                bad.append("enum-target-declared")
            if ty == "ref" and a["target"] not in namespaces:
                bad.append("ref-namespace-declared")
            scalar = (lo, hi) == (1, 1)
            if ty in ("file", "bool") and not scalar:
                bad.append("file-bool-scalar")
            if ty == "chars" and not isinstance(hi, int):
                bad.append("chars-bounded")
            if "pattern" in f and ty not in ("string", "chars"):
                bad.append("pattern-on-text")
            for k in ("min", "max"):
                if k in f and (ty not in NUMERIC or isinstance(f[k], str)):
                    bad.append("min-max-numeric")
            if "min" in f and "max" in f and not isinstance(f["min"], str) and not isinstance(f["max"], str) \
                    and _numval(f["min"]) > _numval(f["max"]):
                bad.append("min-le-max")
            if _truthy(f.get("positive", "")) and ty not in NUMERIC:
                bad.append("positive-numeric")
            if _truthy(f.get("required", "")) and d is not None:
                bad.append("required-no-default")
            if d is None:
                continue
            if ty == "enum":
                if d[0] != "s" or a["target"] not in enums or d[1] not in [k for k, _ in enums[a["target"]]["items"]]:
                    bad.append("enum-default-keyword")
            elif ty in ("ref", "id", "chars"):
                bad.append("no-default-for-id-ref-chars")
            elif ty == "bool":
                if d not in (("s", "true"), ("s", "false")):
                    bad.append("bool-default")
            elif ty in ("string", "file"):
                if d[0] != "s":
                    bad.append("string-default")
            else:
                if d[0] == "s":
                    bad.append("numeric-default")
                else:
                    n = len(d[1]) if d[0] == "v" else 1
                    if d[0] == "v" and scalar:
                        bad.append("vector-default-on-scalar")
                    if n < lo or (isinstance(hi, int) and n > hi):
                        bad.append("default-length")
    return sorted(set(bad))


def oracle(text, out, expect_reject=None):
    """Property oracle on the implementation's output alone.  Returns (key, what) or None."""
    nlines = text.count("\n") + 1
    if out.startswith("EXC"):
        ty = out.split()[-1]
        return ("c41:exception-" + ty, "parse_string raised %s (not SchemaError)" % ty)
    if out.startswith("error "):
        w = out.split(" ", 2)
        try:
            line = int(w[1])
        except ValueError:
            return ("c41:error-format", "unparsable error line: " + out[:80])
        if not (1 <= line <= nlines):
            return ("c41:line-out-of-range", "SchemaError line %d outside 1..%d" % (line, nlines))
        if w[2].startswith("UNKNOWN"):
            return None  # a new message template: a tie failure (reported by the correspondence), not a property breach
        return None
    if out.startswith("ok "):
        try:
            s = DumpReader(out).schema()
        except (ValueError, IndexError) as e:
            return ("c41:dump-format", "unreadable dump: %s" % e)
        bad = rule_violations(s, nlines)
        if bad:
            return ("c41:accepted-breach:" + bad[0], "accepted schema violates rule(s) " + ", ".join(bad))
        if expect_reject:
            return ("c41:mutant-accepted:" + expect_reject, "schema mutated to break rule %r was accepted" % expect_reject)
        return None
    if out == "bad-op":
        return ("c41:bad-op", "harness rejected a well-formed op")
    return ("c41:output-format", "unexpected output: " + out[:80])


# ======================================================================================================
# input streams
# ======================================================================================================
def gen_inputs(ctx, scale=1.0):
    """Returns list of (stream, text, expected_rule_or_None)."""
    rng = ctx.rng
    thorough = ctx.tier == "thorough"
    n_valid = int((60000 if thorough else 3000) * scale)
    n_mut = int((60000 if thorough else 3000) * scale)
    n_soup = int((60000 if thorough else 3000) * scale)
    n_real = int((3000 if thorough else 150) * scale)
    items = []
    valid_structs = []
    for i in range(n_valid):
        g = Gen(rng, size=rng.choice([1, 2, 3, 4, 6]))
        s = g.schema()
        text = Render(rng).schema(s)
        items.append(("valid", text, None))
    hist = {}
    import copy
    i = 0
    attempts = 0
    while i < n_mut and attempts < 20 * n_mut + 100:
        attempts += 1
        g = Gen(rng, size=rng.choice([1, 2, 3, 4]))
        s = g.schema()
        mut = MUTATIONS[(i + attempts) % len(MUTATIONS)] if rng.random() < 0.7 else rng.choice(MUTATIONS)
        s2 = copy.deepcopy(s)
        rule = mut(rng, s2)
        if rule is None:
            continue
        text = Render(rng, wild=False).schema(s2)
        items.append(("mutant", text, rule))
        hist[mut.__name__[2:]] = hist.get(mut.__name__[2:], 0) + 1
        i += 1
    ctx.extra["mutants_per_rule"] = hist
    for i in range(n_soup):
        r = rng.random()
        if r < 0.45:
            items.append(("soup", gen_soup(rng), None))
        elif r < 0.8:
            items.append(("soup", gen_structured_soup(rng), None))
        else:
            g = Gen(rng, size=rng.choice([1, 2, 3]))
            t = Render(rng).schema(g.schema())
            for _ in range(rng.randint(1, 3)):
                t = token_mutate(rng, t)
            items.append(("soup", t, None))
    # the real schema, the pinned tests' snippets, and token mutants of both
    real = open(os.path.join(common.REPO, "src", "xml", "mjcf.schema"), encoding="utf-8").read()
    items.append(("real", real, None))
    snippets = test_snippets()
    for t in snippets:
        items.append(("real", t, None))
    for i in range(n_real):
        items.append(("real", token_mutate(rng, real if i % 3 == 0 else rng.choice(snippets)), None))
    # directed lexical cases
    for t in DIRECTED:
        items.append(("directed", t, None))
    big = "9" * 4300
    for t in ["element e {\n a : double[%s]\n}" % ("0" * 4300), "element e {\n a : double[%s]\n}" % ("0" * 4301),
              "element e {\n a : double[0..%s]\n}" % big, "element e {\n a : double[0..%s9]\n}" % big,
              "element e {\n a : double[-%s]\n}" % ("0" * 4300), "element e {\n a : double[-%s]\n}" % ("0" * 4301),
              "element e {\n a : double = 1e%s\n b : double = 1e-%s\n c : double = 0.%s1\n}" % ("9" * 30, "9" * 30, "0" * 400),
              "element e {\n a : double = %s.5e-%d\n}" % ("1" * 400, 399)]:
        items.append(("directed", t, None))
    return items


DIRECTED = [
    "", "\n", " ", "#", "# only a comment", "\n\n\n", "enum", "enum e", "enum e {", "enum e {\n}", "enum e { a = }", "enum e { a = 0 }",
    "element e {}", "element e {} element e {}", "element e {\n a : double[0..3] = {0.5, .25, 1e-3}\n}",
    "element e { a : double[1..1] }", "element e { a : double[1 .. 2] }", "element e { a : double[1. .2] }",
    "element e { a : double[1...2] }", "element e { a : double[0..mjN] = 1 }", "element e { a : double[0] = 1 }",
    "element e { a : double[-0] }", "element e { a : int = -0 (min=-0, max=0) }", "element e { a : int (min, max=0.5) }",
    "element e { a : int (min=2, max) }", "element e { a : int (required=0) = 1 }", "element e { a : int = 1 (required=0) }",
    "element e { a : int = 1 (required=\"\") }", "element e { a : int = 1 (required=1e-999) }", "element e { a : int = 1 (required=no) }",
    "element e { a : string (positive=0) }", "element e { a : string (positive=\"\") }", "element e { a : string (positive) }",
    "element e { a : flags<k> = 1 }\nenum k { x = 0 }", "element e { a : flags<k> = x }\nenum k { x = 0 }",
    "element e { a : flags<k> = {1} }\nenum k { x = 0 }", "element e { a : enum<k> = \"x\" }\nenum k { \"x\" = 0 }",
    "element e { a : bool = \"true\" }", "element e { a : bool[1] = false }", "element e { a : file[1] }",
    "element e {\n exclusive : int\n requires\n : int }", "element e {\n a : int\n b : int\n exclusive a\n b\n}",
    "element e {\n a : int\n b : int\n exclusive a +\n b b\n}", "element e {\n a : int\n b : int\n exclusive a b c : int\n}",
    "element e {\n a : int\n b : int\n requires a b }", "element e {\n a : int\n b : int\n oneof a+b b+a+a a\n}",
    "element e {\n use : int\n}", "element e {\n set : int\n}", "element e {\n child : int\n}", "element e { child e R child e * }",
    "element e { child e \"R\" }", "element e { child e", "element e (xml) {}", "element e (xml=1) {}", "element e (alias=e) {}",
    "element e (field, xml=\"a b\") {}", "element e : {}", "element e : s (", "element e (xml=a,) {}", "element e (xml=a xml=b) {}",
    "group g {\n a : int\n use g\n}", "group g {\n use h\n}\ngroup h {\n use g\n}", "group g {\n use nosuch\n}",
    "group variant {\n a : int\n}", "group g variant variant {\n a : int\n}", "group g variant {\n a : int (required=0)\n}",
    "group a {\n x : int\n}\ngroup b {\n use a\n}\ngroup c {\n use a\n}\ngroup d {\n use b\n use c\n}",
    "group a {\n x : int\n}\ngroup b {\n use a\n}\ngroup c {\n use a\n}\ngroup d {\n use b\n use c\n}\nelement e {\n use d\n}",
    "group a {\n x : int\n}\nelement e {\n x : int\n use a\n}", "group a {\n x : int\n}\nelement e {\n use a\n x : int\n}",
    "group a {\n x : int\n}\nelement e { use a\n use a }", "element e { x : int x : int }", "element e {\n x : int\n\n x : int }",
    "enum e { a = 1 }\nenum e { b = 2 }", "enum e {\n \"a\" = 0\n a = 1\n}", "enum e { \"\" = 0 }", "enum e { a = \"x\" }",
    "enum e { 1 = a }", "enum e : { a = 0 }", "enum e : t : u { a = 0 }", "enum e { a = -1.5e3 b = .5 }",
    "-", "--", "-.", ".", "..", "...", "1..", "..1", "1.2.3", "1e", "1e+", "1e+5", "1.e", "1.e+", "-1e-1", "- 1", "\"", "\"abc", "\"a\nb\"",
    "\"a\"\"b\"", "a\"b\"c", "#\"", "\"#\"", "a#b\nc", "\r", "a\rb", "a\r\n", "\t\t", "\x0b", "\u00a0", "\u0663", "\u0663\u0664..\u0665",
    "element e { a : double[\u0663] = \u0663.\u0665e\u0661 }", "element e { a : double[\uff11..\uff13] }",
    "element e { a : int = \U0001d7d8\U0001d7d9 }", "\u00e9", "e\u00e9", "_", "_a1", "a-b", "a.b", "a..b", "a+b", "R", "?", "!*",
    "element e { # doc \u00a0\n a : int # \u2003x\u3000\n}", "element e {#\n}", "element e { a : int #\r\n}",
    "element e { a : int #  x  \t\n}", "enum e { a = 0 } # tail", "enum e { a = 0 }\n# tail\n",
    "element e { a : int = 5 (min=1, max=1.0000000000000000001) }", "element e { a : int (min=1.0000000000000002, max=1) }",
    "element e { a : int (min=1e400, max=1e401) }", "element e { a : int (min=-1e400, max=-1e401) }",
    "element e { a : int (min=5e-324, max=2e-324) }", "element e { a : int (min=3e-324, max=2.5e-324) }",
    "element e { a : double = {1,\n 2} b : double[2] = {1,\n 2} }", "element e { a : double[2] = {1 2} }", "element e { a : double[2] = {1,} }",
    "element e { a : double[2] = {} }", "element e { a : double[2] = {a} }", "element e { a : double = ( }", "element e { a : double = }",
    "element e { a : double ( }", "element e { a : double () }", "element e { a : double (min=) }", "element e { a : double (min==1) }",
    "element e { a : double (min={1}) }", "element e { a : enum }", "element e { a : enum< }", "element e { a : enum<k }",
    "element e { a : enum<k>[2] }", "element e { a : id<k> r : ref<k> = x }", "element e { a : chars }", "element e { a : chars[0] }",
    "element e { a : chars[1..mjN] }", "element e { a : chars = \"x\" }",
]


def test_snippets():
    """String literals of the pinned unit tests that look like schema text."""
    import ast
    p = os.path.join(common.REPO, "test", "doc", "mjcf_schema_test.py")
    out = set()
    try:
        tree = ast.parse(open(p, encoding="utf-8").read())
    except (OSError, SyntaxError):
        return ["element geom {\n  a : int\n}"]
    for node in ast.walk(tree):
        if isinstance(node, ast.Constant) and isinstance(node.value, str) and "{" in node.value:
            out.add(node.value)
    return sorted(out) or ["element geom {\n  a : int\n}"]


def keyf(line):
    return line if len(line) > 12 else None


def run_impl(ctx, lines):
    return ctx.run_lines([PY, IMPL, common.REPO], lines)


def run_oracle(ctx, items, outs, limit=5):
    n_fail, seen = 0, {}
    stats = {"accepted": 0, "rejected": 0, "exceptions": 0}
    per_stream = {}
    classes = {}
    for (stream, text, rule), out in zip(items, outs):
        kind = "accepted" if out.startswith("ok ") else "rejected" if out.startswith("error ") else "exceptions"
        stats[kind] += 1
        per_stream.setdefault(stream, {"accepted": 0, "rejected": 0, "exceptions": 0})[kind] += 1
        if kind == "rejected":
            c = out.split(" ", 2)[2]
            classes[c] = classes.get(c, 0) + 1
        r = oracle(text, out, expect_reject=rule)
        if r:
            n_fail += 1
            if seen.get(r[0], 0) < limit:
                seen[r[0]] = seen.get(r[0], 0) + 1
                ctx.oracle_failure(r[0], r[1], {"stream": stream, "text": text[:4000], "op": ("parse " + enc(text))[:8000],
                                                "impl_output": out[:500],
                                                "replay": "printf '%%s\\n' '<op>' | %s %s %s" % (PY, IMPL, common.REPO)})
    return n_fail, stats, per_stream, classes


def run(ctx):
    ctx.rule = ("op lines `parse <text>`: grammar-generated valid schemas with random layout/comments/number spellings, "
                "one-rule mutants of such schemas (44 mutation operators), token and line soups, the real mjcf.schema, the "
                "pinned tests' snippets and token mutants of both, ~200 directed lexical/semantic edge cases, deep use "
                "chains; a case is distinct by its full text; non-trivial = more than 6 characters of text")
    import time
    phase, t_last = {}, [time.time()]

    def mark(name):
        now = time.time()
        phase[name] = round(now - t_last[0], 1)
        t_last[0] = now
    ctx.extra["phase_seconds"] = phase
    ctx.lean_props(THEOREMS)
    mark("lean_props")
    drv = ctx.driver("drv_c41")
    mark("driver_build")
    if not os.path.exists(os.path.join(common.REPO, "doc", "generate", "mjcf_schema.py")):
        ctx.oblige("anchor doc/generate/mjcf_schema.py exists", "impl-build", False, "file missing in " + common.REPO)
        return
    items = gen_inputs(ctx)
    lines = ["parse " + enc(t) for _, t, _ in items]
    mark("generate")
    if drv:
        # ---- T: character-class tables of the model vs the running interpreter
        ctx.differential("Unicode \\d / int() digit values / str.isspace tables vs interpreter", [drv], [PY, IMPL, common.REPO],
                         ["classes", "frob 1", "parse \\u{d800}", "parse \\x"], keyf=lambda l: None)
        # ---- T: exact correspondence (schema dump or error line + class)
        mark("tables")
        # the implementation's outputs are captured from the differential run itself (one run of the real code)
        outs = []

        def cmp(a, b):
            outs.append(b)
            return a == b
        ctx.differential("mjcf_schema.parse_string vs Lean model", [drv], [PY, IMPL, common.REPO], lines, keyf=keyf, cmp=cmp)
        rc, err = 0, ""
        if len(outs) != len(lines):   # the harness stopped early: rerun it alone to see how far it gets
            rc, outs, err = run_impl(ctx, lines)
            rc = rc or 1
        mark("differential")
        # ---- S: oracle on the implementation's own output
        if rc == 0 and len(outs) == len(lines):
            n_fail, stats, per_stream, classes = run_oracle(ctx, items, outs)
            ctx.extra["oracle_checked"] = len(lines)
            ctx.extra["oracle_failures"] = n_fail
            ctx.extra["outcomes"] = stats
            ctx.extra["outcomes_per_stream"] = per_stream
            ctx.extra["error_classes_seen"] = dict(sorted(classes.items(), key=lambda kv: -kv[1]))
            ctx.extra["error_classes_distinct"] = len(classes)
            k = next((i for i, it in enumerate(items) if it[0] == "valid" and len(it[1]) > 200), 0)
            ctx.sample({"stream": items[k][0], "text": items[k][1][:600], "model_and_impl_output": outs[k][:400]})
            k = next((i for i, it in enumerate(items) if it[0] == "mutant"), 0)
            ctx.sample({"stream": "mutant", "rule": items[k][2], "text": items[k][1][:400], "model_and_impl_output": outs[k][:200]})
            k = next((i for i, it in enumerate(items) if it[0] == "soup"), 0)
            ctx.sample({"stream": "soup", "text": items[k][1][:200], "model_and_impl_output": outs[k][:200]})
        else:
            ctx.oracle_failure("c41:harness-crash", "python harness stopped (rc=%s) after %d of %d ops" % (rc, len(outs), len(lines)),
                               {"stderr": err[-800:]})
        mark("oracle")
        # ---- deep `use` chains: the model is total; Python recursion is bounded by the interpreter's limit
        # (both sides are cubic in the chain length just below the limit, so the model is only run on short chains;
        #  for the long ones the expected result is known in closed form)
        deep = []
        thorough = ctx.tier == "thorough"
        plan = {"chain": [50, 300, 1000], "chain-rev": [50, 300], "chain-cycle": [50, 300, 1000, 1100, 2000]}
        if thorough:
            plan = {"chain": [50, 300, 900, 990, 1000, 1100, 2000], "chain-rev": [50, 300, 990, 1000, 1100],
                    "chain-cycle": [50, 300, 990, 1000, 1100, 2000, 5000]}
        sizes = plan
        for shape, ns in plan.items():
            for n in ns:
                deep.append((n, shape))
        dlines = ["parse " + enc(deep_chain(n, sh)) for n, sh in deep]
        mlim = 1000 if thorough else 400
        midx = [i for i, (n, sh) in enumerate(deep) if n <= mlim or sh == "chain-cycle"]
        rc_m, om_, em = ctx.run_lines([drv], [dlines[i] for i in midx])
        if rc_m != 0 or len(om_) != len(midx):
            raise common.Infra("model driver failed on deep chains: rc=%d %s" % (rc_m, em[-300:]))
        om = ["ok enums 0 groups %d " % (n + 1) if sh != "chain-cycle" else "error %d cycle" % (3 * n - 1) for n, sh in deep]
        closed_form_ok = True
        for i, o in zip(midx, om_):
            closed_form_ok &= o.startswith(om[i])
            om[i] = o
        ctx.oblige("deep chains: model output has the closed form used for the long chains", "correspondence", closed_form_ok, "")
        rc_i, oi, ei = run_impl(ctx, dlines)
        dis, nrec = [], 0
        if rc_i != 0 or len(oi) != len(dlines):
            ctx.oracle_failure("c41:harness-crash", "python harness crashed on deep use chains (rc=%s)" % rc_i, {"stderr": ei[-800:]})
        else:
            first = None
            for (n, sh), a, b in zip(deep, om, oi):
                ctx.count(("deep", n, sh))
                if b.startswith("EXC"):
                    nrec += 1
                    r = oracle("", b)
                    if b == "EXC RecursionError" and n >= 900:
                        # the recorded finding: only chains about as deep as the interpreter's recursion limit
                        r = ("c41:recursionerror-deep-use-chain",
                             "parse_string raised RecursionError instead of SchemaError / returning a schema")
                    if first is None or r[0] != "c41:recursionerror-deep-use-chain":
                        first = first or (n, sh)
                        ctx.oracle_failure(r[0], r[1] + " (shape=%s, depth=%d; model: %s)" % (sh, n, a[:40]),
                                           {"generator": "checks.c41.deep_chain(%d, %r)" % (n, sh), "impl_output": b,
                                            "model_output": a[:200],
                                            "replay": "%s -c \"import sys; sys.path[:0]=['%s/doc/generate','/verif']; import mjcf_schema; "
                                                      "from checks.c41 import deep_chain; mjcf_schema.parse_string(deep_chain(%d, %r))\""
                                                      % (PY, common.REPO, n, sh)})
                elif not (a == b or (len(a) < 40 and b.startswith(a))):
                    dis.append({"line": "deep_chain(%d,%r)" % (n, sh), "model": a[:200], "impl": b[:200]})
            ctx.oblige("correspondence deep use chains (where no RecursionError escapes) (%d ops)" % len(dlines), "correspondence",
                       not dis, str(dis[:3]))
            ctx.extra["deep_chain_sizes"] = sizes
            ctx.extra["deep_chain_nonschema_exceptions"] = nrec
        mark("deep_chains")

    def directed(c):
        # a proof/tie obligation broke but the oracle found nothing: search harder with the oracle alone
        import random
        c.rng = random.Random(c.seed * 7919 + 41)
        tier, c.tier = c.tier, "quick"
        more = gen_inputs(c, scale=3.0)
        c.tier = tier
        rc2, outs2, _ = run_impl(c, ["parse " + enc(t) for _, t, _ in more])
        for (stream, text, rule), out in zip(more, outs2):
            r = oracle(text, out, expect_reject=rule)
            if r:
                return {"key": r[0], "what": r[1], "replay": {"stream": stream, "text": text[:4000], "impl_output": out[:500]}}
        return None
    ctx.directed_search = directed
    if ctx.tier == "thorough":
        ctx.leanchecker(["MjProof.Props.C41"])
