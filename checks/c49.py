"""C49  Python introspection metadata matches the C headers (DESIGN.md §5.C49)."""
import json
import os
import re
import subprocess
import sys

from . import common

META = {
    "technique": "Lean 4 proof over a character-level model of type_parsing.parse_type / ast_nodes decl() (round trip by "
                 "induction on the declarator frames) + translator-regenerated tables decided by kernel evaluation + exact "
                 "differential correspondence with the real parser/printer + compiler (_Static_assert) oracle on the shipped tables",
    "text": "Parser half: the model follows type_parsing.py function by function on lists of code points (strip, first '(' / "
            "last ')' peeling with the special string, leftmost array-suffix match, rfind('*') recursion, qualifier words, the "
            "ValueType name check, int() of extents) and ast_nodes.decl() including name_or_decl. Proved for every well-formed "
            "AST t (any depth, any qualifiers, any integer extents): parse_type(str(t)) = t; for every input string s whatsoever: "
            "if parse_type(s) = t then t is well formed (or the one special-cased function pointer type) and str(t) parses to t "
            "again. Table half: translate/c49_tables.py regenerates on every run (a) enum / struct / function tables from the "
            "headers as clang sees them (plus array syntax of parameters, '(n x m)' comment suffixes and 'Nullable:' lines from the "
            "header text) and (b) the same tables from the imported enums.py / structs.py / functions.py; Lean decides that they "
            "are equal (names, values, member order, type ASTs, extents, nullability, anonymous struct/union nesting), that every "
            "type spelling of the headers parses with the model parser to the AST used, and that every shipped AST is well formed "
            "(hence round-trips). Tie: the model is run against the unmodified parse_type/decl on every API type string plus "
            "generated declarators and malformed strings; the header-side extraction is cross-checked by a generated C file of "
            "_Static_asserts compiled by gcc. Oracle: _Static_asserts generated from the *shipped* tables (enumerator values, "
            "member types via __builtin_types_compatible_p, member order via offsetof, function pointer types) compiled against "
            "include/mujoco, and the round-trip law on the real parser's own outputs.",
    "note": "Documentation strings of the tables are not compared. ValueType.nullable / ArrayType.nullable (never printed, never "
            "set by the parser) are not modelled. int() is modelled for ASCII digits only and Python's recursion limit is not "
            "modelled (generated strings stay ASCII-digit and shallow). The exclusion list of the generator (_EXCLUDED in "
            "codegen/generate.py) is taken as policy. array_extent and nullable come from header comments (the compiler cannot "
            "see them); they are compared by the tables only. The compiler oracle sees parameter arrays only up to decay. "
            "Completeness of a struct (no unlisted member) is decided by the table equality; the compiler oracle only checks "
            "that consecutive plain members leave no room for another one.",
}

THEOREMS = [
    "MjProof.C49.parse_decl_roundtrip",
    "MjProof.C49.special_roundtrip",
    "MjProof.C49.parse_result_wf",
    "MjProof.C49.decl_parse_equiv",
    "MjProof.C49.decl_injective_on_wf",
    "MjProof.C49.decl_parse_decl",
]
# about the regenerated tables; separate module so that a disagreement shows up as exactly these obligations
THEOREMS_GEN = [
    "MjProof.C49.enum_tables_equal",
    "MjProof.C49.struct_tables_equal",
    "MjProof.C49.function_tables_equal",
    "MjProof.C49.header_type_strings_parse",
    "MjProof.C49.header_lookup_is_parse",
    "MjProof.C49.python_types_ok",
    "MjProof.C49.python_types_wf",
    "MjProof.C49.python_types_roundtrip",
]

GEN_DIR = os.path.join(common.LEAN, "MjProof", "Gen")
GEN_JSON = os.path.join(GEN_DIR, "IntrospectTables.json")
GEN_FILES = [os.path.join(GEN_DIR, n) for n in ("IntrospectHeaders.lean", "IntrospectPython.lean")]
WORK = os.path.join(common.CACHE, "c49")
PY = "/venv/bin/python"


# ------------------------------------------------------------------------------------------ AST helpers (check side)
def show(t):
    if t[0] == "V":
        return 'V%d%d"%s"' % (t[2], t[3], t[1])
    if t[0] == "P":
        return "P%d%d%d%d(%s)" % (t[2], t[3], t[4], t[5], show(t[1]))
    return "A[%s](%s)" % (",".join(str(e) for e in t[2]), show(t[1]))


def render(t, name=""):
    """C spelling of an AST (own renderer: used to build strings to parse and the compiler asserts)"""
    if t[0] == "V":
        q = ("const " if t[2] else "") + ("volatile " if t[3] else "")
        return q + t[1] + ((" " + name) if name else "")
    if t[0] == "P":
        q = "*" + (" const" if t[3] else "") + (" volatile" if t[4] else "") + (" restrict" if t[5] else "")
        inner = q + ((" " + name) if name else "")
        if t[1][0] == "A":
            inner = "(" + inner + ")"
        return render(t[1], inner)
    return render(t[1], name + "".join("[%d]" % e for e in t[2]))


def enc(s):
    return ".".join("%x" % ord(c) for c in s) if s else "-"


def dec(h):
    return "" if h == "-" else "".join(chr(int(p, 16)) for p in h.split("."))


NAMES_OK = ["int", "char", "void", "float", "double", "mjtNum", "mjModel", "mjData", "x", "_a1", "A9", "size_t", "uint64_t",
            "unsigned int", "unsigned", "unsigned char", "signed char", "short", "long", "long long", "unsigned long long",
            "long long int", "int unsigned long long", "long double", "struct foo", "struct mjuiItemSingle_", "struct struct",
            "long restrict", "nullable"]
# constructible through ValueType(...) but not what the parser returns
NAMES_ODD = ["unsigned  int", "long const", "volatile long", "long  long", "const long", "unsigned\tint"]
WS = [" ", " ", " ", "  ", "\t", "\n", " \t ", "\x0b", "\x0c", "\x1c", "\xa0", " ", "　", "\r"]


def gen_ast(rng, wf=True):
    """random AST; wf=True: inside the class the round-trip theorem covers"""
    name = rng.choice(NAMES_OK)
    t = ["V", name, int(rng.random() < 0.35), int(rng.random() < 0.15)]
    depth = rng.choice((0, 1, 1, 2, 2, 3, 4, 6))
    for _ in range(depth):
        if t[0] != "A" and rng.random() < 0.4:
            n = rng.choice((1, 1, 2, 3))
            ex = [rng.choice((1, 2, 3, 4, 7, 9, 16, 100, 1024, 0, -1, -12, 10 ** 9, 123456789012345678901234567890)) for _ in range(n)]
            t = ["A", t, ex]
        else:
            t = ["P", t, 0, int(rng.random() < 0.3), int(rng.random() < 0.15), int(rng.random() < 0.15)]
    if wf:
        return t
    # break exactly one of the well-formedness conditions somewhere
    kind = rng.choice(("nullable", "empty", "nested", "name"))
    if kind == "nullable":
        return ["P", t, 1, int(rng.random() < 0.5), 0, 0]
    if kind == "empty":
        return ["A", t if t[0] != "A" else ["P", t, 0, 0, 0, 0], []]
    if kind == "nested":
        inner = t if t[0] == "A" else ["A", t, [rng.choice((2, 3))]]
        return ["A", inner, [rng.choice((4, 5))]]
    u = t
    while u[0] != "V":
        u = u[1]
    u[1] = rng.choice(NAMES_ODD)
    return t


def spelling_variants(rng, s):
    """re-spellings of a declaration that must parse to the same AST or be rejected consistently"""
    out = []
    toks = re.findall(r"[A-Za-z_0-9]+|-?\d+|\S", s)
    # 1. whitespace noise between all tokens / removed where two tokens need no separator
    for _ in range(2):
        parts = []
        for i, tk in enumerate(toks):
            if i:
                a, b = toks[i - 1], tk
                need = a[-1].isalnum() or a[-1] == "_"
                need = need and (b[0].isalnum() or b[0] == "_")
                parts.append(rng.choice(WS) if (need or rng.random() < 0.5) else "")
            parts.append(tk)
        out.append(rng.choice(["", " ", "\t\n"]) + "".join(parts) + rng.choice(["", " ", "  \n"]))
    # 2. east const / shuffled qualifier words of the value type
    m = re.match(r"((?:const |volatile )*)([A-Za-z_][A-Za-z_0-9 ]*?)((?: [*(\[].*)?)$", s)
    if m and m.group(1):
        out.append(m.group(2) + " " + m.group(1).strip() + m.group(3))
        out.append(" ".join(reversed(m.group(1).split())) + " " + m.group(2) + m.group(3))
    # 3. duplicated / unknown qualifier, `nullable`
    out.append(s.replace("*", "* const const", 1))
    out.append(s.replace("*", "* nullable", 1))
    out.append("const " + s if s.startswith("const") else "const const " + s)
    # 4. damaged brackets / parentheses
    if "[" in s:
        out.append(s.replace("]", "", 1))
        out.append(s.replace("[", "[ +", 1))
        out.append(s.replace("[", "[1_", 1))
        out.append(s.replace("[", "[]["))
    out.append(s + ")")
    out.append("(" + s)
    out.append(s.replace("(", "((", 1).replace(")", "))", 1) if "(" in s else "(" + s + ")")
    return out


SOUP = ["int", "const", "volatile", "restrict", "struct", "unsigned", "long", "short", "char", "signed", "mjtNum", "x", "_a1",
        "*", "*", "(", ")", "[", "]", "[3]", "[12]", "3", "12", "-1", "+2", "1_0", " ", " ", "  ", "\t", "void *(*)(void *)",
        "nullable", "0", "][", "(*)", "auto", "double", "\n", "\x0b", "\x1c", "\xa0", "é", "A", "z9", "9z", "$", ",", ".",
        "[ 4 ]", "[ ]", "[]", "_", "__", "-", "+", "[-7]", "[+7]", "[0x10]", "[1__0]", "[_1]", "[1_]"]

FIXED = ["int", "const int * const [3]", "int unsigned volatile long const long(**const(*const restrict*[9])[7])[3][4]",
         "void *(*)(void *)", "int (void *(*)(void *))", "void *(*)(void *) *", "const void *(*)(void *)", "int(*)x", "int[-3]",
         "int[1_0]", "int[ 3 ][4] ", "a[[3]", "a[b[3]", "[][3]", "int[3][]", "", " ", "const", "const const int",
         "int * const const", "int * foo", "struct foo", "struct struct", "struct", "long restrict", "restrict",
         "unsigned  long\tlong", "int()", "a)b(c)d", "int (*)[3]", "int (*[2])[3]", "int ((*))", "mjtNum*", "void**",
         "long long long", "short long", "signed char", "unsigned char x", "int[+3]", "int[3 4]", "int [ 07 ]", "x y",
         "int *restrict volatile", "*", "(*)", "int (*)", "int *(", "int )(", "char\xa0*", "float[2] [3]", "int[ ]",
         "int [3] [4]", "int [3]x", "(int)", "int (", "int )", "_Atomic", "_Atomic int", "enum", "enum x", "unsigned signed",
         "short short", "long long", "char int", "long char", "short char", "int int", "mjtNum const *", "mjtNum * const *restrict",
         "mjtNum (* const x)[3]", "int (*(*)[2])[3]", "int (*(*))[3]", "int *(*)[3]", "int (* *)[3]", "int (*)[3][4]"]


def parser_lines(ctx, info):
    rng = ctx.rng
    thorough = ctx.tier == "thorough"
    lines, kinds = [], {}

    def add(kind, l):
        lines.append(l)
        kinds[kind] = kinds.get(kind, 0) + 1

    # every type of the API: header spellings, shipped ASTs (printed by the real decl()), function types
    api_asts = []
    if info:
        for s in info["headers"]["type_strings"]:
            add("api_header_spelling", "parse " + enc(s))
        seen = set()

        def use(t):
            k = json.dumps(t)
            if k not in seen:
                seen.add(k)
                api_asts.append(t)
        for st in info["python"]["structs"]:
            for it in st["items"]:
                if it[0] == "field":
                    use(it[2])
        for f in info["python"]["functions"]:
            use(f["ret"])
            for p in f["params"]:
                use(p[1])
        for t in api_asts:
            a = show_json(t)
            add("api_shipped_ast", "decl " + a)
            add("api_shipped_ast", "decl " + a + " @ " + enc("name"))
            add("api_shipped_ast", "wf " + a)
            add("api_shipped_ast", "parse " + enc(render_json(t)))
        for f in info["headers"]["functions"][:: (1 if thorough else 4)]:
            q = info["headers"]["type_strings"][f["ret"]] + " (" + ", ".join(info["headers"]["type_strings"][p[1]] for p in f["params"]) + ")"
            add("api_function_type", "ret " + enc(q))
    for s in FIXED:
        add("fixed", "parse " + enc(s))
        add("fixed", "ret " + enc(s))
    n_wf = 30000 if thorough else 700
    n_odd = 6000 if thorough else 250
    n_soup = 150000 if thorough else 2500
    wf_asts = []
    for _ in range(n_wf):
        t = gen_ast(rng, True)
        wf_asts.append(t)
        a = show(t)
        add("gen_wf_ast", "wf " + a)
        add("gen_wf_ast", "decl " + a + ((" @ " + enc(rng.choice(["x", "res", "name_1"]))) if rng.random() < 0.5 else ""))
        s = render(t)
        add("gen_wf_spelling", "parse " + enc(s))
        for v in spelling_variants(rng, s)[: (14 if thorough else 5)]:
            add("gen_respelled", "parse " + enc(v))
    for _ in range(n_odd):
        t = gen_ast(rng, False)
        a = show(t)
        add("gen_nonwf_ast", "wf " + a)
        add("gen_nonwf_ast", "decl " + a)
    for _ in range(n_soup):
        n = rng.randint(0, 9)
        if rng.random() < 0.3:
            s = " ".join(rng.choice(SOUP) for _ in range(n))
        else:
            s = "".join(rng.choice(SOUP) for _ in range(n))
        add("token_soup", "parse " + enc(s))
        if rng.random() < 0.1:
            add("token_soup", "ret " + enc(s))
    for l in ("frob 1 2", "parse", "parse zz", "parse 110000", "decl Q", "wf V00", "decl V02\"int\"", "ret 28 29"):
        add("malformed_op", l)
    return lines, kinds, wf_asts, api_asts


def show_json(t):
    """AST in the JSON form of the translator (booleans) -> prefix form"""
    return show(t)


def render_json(t, name=""):
    return render(t, name)


# ------------------------------------------------------------------------------------------ parser oracle
def parser_oracle(ctx, lines, outs, n_wf_expected):
    """Judges the real parser/printer by its own outputs: round trip and idempotence."""
    nfail, checked = 0, 0

    def fail(key, what, line, out):
        nonlocal nfail
        nfail += 1
        if nfail <= 6:
            w = line.split(" ", 1)
            arg = w[1] if len(w) > 1 else ""
            txt = dec(arg.split()[0]) if w[0] in ("parse", "ret") and arg else arg
            ctx.oracle_failure("c49:" + key, what, {
                "op": line[:600], "input_text": txt[:300], "impl_output": out[:600],
                "replay": "printf '%%s\\n' %r | %s harness/py/c49_introspect.py %s" % (line[:600], PY, common.REPO)})

    for l, o in zip(lines, outs):
        op = l.split(" ", 1)[0]
        if o.startswith("EXC "):
            fail("exception:" + o[4:], "parse_type raised %s instead of ValueError" % o[4:], l, o)
            continue
        if op in ("parse", "ret") and o.startswith("ok "):
            checked += 1
            parts = o[3:].split(" | ")
            if len(parts) != 3:
                fail("protocol", "unexpected output shape", l, o)
            elif parts[2] != parts[0]:
                fail("reparse_differs", "parse_type(str(parse_type(s))) = %s differs from parse_type(s) = %s" % (parts[2][:120], parts[0][:120]), l, o)
        elif op == "decl" and o.startswith("ok "):
            checked += 1
        elif op == "wf" and l in n_wf_expected:
            checked += 1
            if o != "wf 1":
                fail("roundtrip", "parse_type(str(t)) != t for a well-formed AST t", l, o)
    return checked, nfail


# ------------------------------------------------------------------------------------------ compiler asserts
def c_type(t, renderer):
    return renderer(t, "")


def assert_file(tables, types_of, variadic, what):
    """C text with one compile-time check per line, and the list describing each line.
    tables: {"enums","structs","functions"} with ASTs resolved by types_of(x)."""
    L = ["/* GENERATED by checks/c49.py from the %s tables; every _Static_assert is on one line. */" % what,
         "#include <stddef.h>", "#include <mujoco/mujoco.h>",
         "#define C49_SAME(A, B) __builtin_types_compatible_p(A, B)"]
    desc = [None] * len(L)

    def add(code, d):
        L.append(code)
        desc.append(d)

    for e in tables["enums"]:
        add("typedef %s c49_enum_exists_%s;" % (e["name"], e["name"]), {"kind": "enum", "item": e["name"], "claim": "typedef %s exists" % e["name"]})
        for n, v in e["values"]:
            add('_Static_assert(%s == %s, "x");' % (n, ("(%d)" % v)), {"kind": "enum_value", "item": "%s.%s" % (e["name"], n), "claim": "%s == %d" % (n, v)})
    for s in tables["structs"]:
        S = s["name"]
        add("typedef %s c49_struct_exists_%s;" % (S, S), {"kind": "struct", "item": S, "claim": "typedef %s exists" % S})
        # walk the flattened members keeping the access path and the kind of the enclosing record
        stack = [("struct", "", None)]   # (kind, path prefix, previous plain member path in this record)
        first_in_union = {}
        for it in s["items"]:
            kind, prefix, prev = stack[-1]
            if it[0] == "field":
                path = prefix + it[1]
                ty = c_type(types_of(it[2]), render)
                add('_Static_assert(C49_SAME(__typeof__(((%s*)0)->%s), %s), "x");' % (S, path, ty),
                    {"kind": "member_type", "item": "%s.%s" % (S, path), "claim": "type of %s.%s is %s" % (S, path, ty)})
                if kind == "union":
                    key = len(stack)
                    if key in first_in_union:
                        add('_Static_assert(offsetof(%s, %s) == offsetof(%s, %s), "x");' % (S, path, S, first_in_union[key]),
                            {"kind": "member_order", "item": "%s.%s" % (S, path), "claim": "union members share their offset"})
                    else:
                        first_in_union[key] = path
                elif prev is not None:
                    add('_Static_assert(offsetof(%s, %s) >= offsetof(%s, %s) + sizeof(((%s*)0)->%s), "x");' % (S, path, S, prev, S, prev),
                        {"kind": "member_order", "item": "%s.%s" % (S, path), "claim": "%s is declared after %s" % (path, prev)})
                    add('_Static_assert(offsetof(%s, %s) - (offsetof(%s, %s) + sizeof(((%s*)0)->%s)) < _Alignof(__typeof__(((%s*)0)->%s)), "x");'
                        % (S, path, S, prev, S, prev, S, path),
                        {"kind": "member_gap", "item": "%s.%s" % (S, path), "claim": "no room for an unlisted member between %s and %s" % (prev, path)})
                stack[-1] = (kind, prefix, path)
            elif it[0] in ("openStruct", "openUnion"):
                k = "struct" if it[0] == "openStruct" else "union"
                stack[-1] = (kind, prefix, None)   # no order claim across the nested record boundary
                stack.append((k, prefix + (it[1] + "." if it[1] else ""), None))
                first_in_union.pop(len(stack), None)
            else:
                first_in_union.pop(len(stack), None)
                stack.pop()
                if stack:
                    k0, p0, _ = stack[-1]
                    stack[-1] = (k0, p0, None)
    for f in tables["functions"]:
        ps = [c_type(types_of(p[1]), render) for p in f["params"]]
        if variadic.get(f["name"]):
            ps.append("...")
        sig = "%s (*)(%s)" % (c_type(types_of(f["ret"]), render), ", ".join(ps) if ps else "void")
        add('_Static_assert(C49_SAME(__typeof__(&%s), %s), "x");' % (f["name"], sig),
            {"kind": "function_type", "item": f["name"], "claim": "&%s has type %s" % (f["name"], sig)})
    return "\n".join(L) + "\n", desc


def compile_asserts(path, text):
    os.makedirs(os.path.dirname(path), exist_ok=True)
    with open(path, "w") as f:
        f.write(text)
    cmd = ["gcc", "-fsyntax-only", "-std=gnu11", "-fmax-errors=0", "-w", "-I" + os.path.join(common.REPO, "include"), path]
    r = common.sh(cmd, timeout=600)
    bad = {}
    for m in re.finditer(r"^%s:(\d+):\d+: (?:fatal )?error: (.*)$" % re.escape(path), r.stderr, re.M):
        bad.setdefault(int(m.group(1)), m.group(2))
    return r.returncode, bad, r.stderr, cmd


# ------------------------------------------------------------------------------------------ table diff (directed search)
def first_table_difference(info):
    h, p = info["headers"], info["python"]
    T = h["types"]

    def rit(items):
        return [["field", it[1], T[it[2]], it[3]] if it[0] == "field" else it for it in items]

    def cmp_lists(kind, hs, ps, keyf):
        hn, pn = [keyf(x) for x in hs], [keyf(x) for x in ps]
        if hn != pn:
            for i in range(max(len(hn), len(pn))):
                a = hn[i] if i < len(hn) else None
                b = pn[i] if i < len(pn) else None
                if a != b:
                    return {"kind": kind + "_list", "position": i, "headers": a, "shipped": b}
        return None
    d = cmp_lists("enum", h["enums"], p["enums"], lambda e: e["name"])
    if d:
        return d
    for a, b in zip(h["enums"], p["enums"]):
        if a["declname"] != b["declname"]:
            return {"kind": "enum_declname", "item": a["name"], "headers": a["declname"], "shipped": b["declname"]}
        if a["values"] != b["values"]:
            for i in range(max(len(a["values"]), len(b["values"]))):
                x = a["values"][i] if i < len(a["values"]) else None
                y = b["values"][i] if i < len(b["values"]) else None
                if x != y:
                    return {"kind": "enum_value", "item": a["name"], "position": i, "headers": x, "shipped": y}
    d = cmp_lists("struct", h["structs"], p["structs"], lambda e: e["name"])
    if d:
        return d
    for a, b in zip(h["structs"], p["structs"]):
        if a["declname"] != b["declname"]:
            return {"kind": "struct_declname", "item": a["name"], "headers": a["declname"], "shipped": b["declname"]}
        ia, ib = rit(a["items"]), b["items"]
        if ia != ib:
            for i in range(max(len(ia), len(ib))):
                x = ia[i] if i < len(ia) else None
                y = ib[i] if i < len(ib) else None
                if x != y:
                    return {"kind": "struct_member", "item": a["name"], "position": i, "headers": x, "shipped": y}
    d = cmp_lists("function", h["functions"], p["functions"], lambda e: e["name"])
    if d:
        return d
    for a, b in zip(h["functions"], p["functions"]):
        ra = T[a["ret"]]
        if ra != b["ret"]:
            return {"kind": "function_return", "item": a["name"], "headers": ra, "shipped": b["ret"]}
        pa = [[q[0], T[q[1]], q[2]] for q in a["params"]]
        if pa != b["params"]:
            for i in range(max(len(pa), len(b["params"]))):
                x = pa[i] if i < len(pa) else None
                y = b["params"][i] if i < len(b["params"]) else None
                if x != y:
                    return {"kind": "function_parameter", "item": a["name"], "position": i, "headers": x, "shipped": y}
    return None


# ------------------------------------------------------------------------------------------ run
def run_translator(ctx):
    r = subprocess.run([sys.executable, os.path.join(common.VERIF, "translate", "c49_tables.py")],
                       capture_output=True, text=True, env=dict(os.environ, VERIF_REPO=common.REPO))
    ok = r.returncode == 0
    ctx.oblige("translator c49_tables (clang AST of mujoco.h + header text; imported enums.py/structs.py/functions.py)",
               "translator", ok, (r.stdout + r.stderr)[-1500:])
    if not ok:
        # nothing may be proved about stale tables
        for p in GEN_FILES + [GEN_JSON]:
            if os.path.exists(p):
                os.remove(p)
        return None
    return json.load(open(GEN_JSON))


def run(ctx):
    ctx.rule = ("parser ops: every type spelling of the API headers, every distinct shipped AST (printed by the real decl(), with "
                "and without a declarator name), function types through parse_function_return_type, a fixed list of corner cases, "
                "seeded random well-formed ASTs (depth <= 6, all qualifier combinations, 1-3 extents incl. 0 / negative / 30-digit) "
                "with re-spellings (random Unicode whitespace, east const, damaged brackets/parentheses, duplicate qualifiers), "
                "ASTs violating exactly one well-formedness condition, token soup; a case is distinct by its op line; non-trivial = "
                "the implementation accepted the input or the op is decl/wf.  Tables: every enum constant, struct member and "
                "function of the API, once per run, by the Lean kernel and by gcc")
    os.makedirs(WORK, exist_ok=True)
    info = run_translator(ctx)
    ctx.checker_cmd = ("cd /verif && python3 translate/c49_tables.py && cd lean && lake build MjProof.Props.C49 "
                       "MjProof.Props.C49Gen && lake env lean Audit/C49.lean")
    # ---- P
    ctx.lean_props(THEOREMS)
    if info:
        ctx.lean_props(THEOREMS_GEN, module="MjProof.Props.C49Gen")
        # the generated files must still be the ones of this tree after the build (another check may have regenerated them)
        cur = json.load(open(GEN_JSON)) if os.path.exists(GEN_JSON) else {}
        ctx.oblige("generated tables unchanged during the build", "translator", cur.get("table_id") == info["table_id"],
                   "table id %s -> %s" % (info["table_id"], cur.get("table_id")))
    else:
        for t in THEOREMS_GEN:
            ctx.oblige("theorem " + t, "theorem", False, "no generated tables: the translator refused the source shape")
    with open(os.path.join(common.LEAN, "Audit", "C49.lean"), "w") as f:
        f.write("import MjProof.Props.C49\nimport MjProof.Props.C49Gen\n" + "".join("#print axioms %s\n" % t for t in THEOREMS + THEOREMS_GEN))

    # ---- T: parser / printer correspondence
    drv = ctx.driver("drv_c49")
    impl = [PY, os.path.join(common.VERIF, "harness", "py", "c49_introspect.py"), common.REPO]
    st = common.sh(impl + ["--selftest"])
    tree_ok = st.returncode == 0 and os.path.realpath(st.stdout.split("\n")[0]).startswith(os.path.realpath(common.REPO) + os.sep)
    ctx.oblige("type_parsing / ast_nodes are loaded from the tree", "impl-build", tree_ok, (st.stdout + st.stderr)[-600:])
    lines, kinds, wf_asts, api_asts = parser_lines(ctx, info)
    ctx.extra["parser_op_distribution"] = kinds
    wf_expected = {"wf " + show(t) for t in wf_asts} | {"wf " + show_json(t) for t in api_asts}
    if drv and tree_ok:
        rc, outs, err = ctx.run_lines(impl, lines)

        bad = ctx.differential("parse_type / parse_function_return_type / decl vs Lean model", [drv], impl, lines,
                               keyf=None)
        if rc == 0 and len(outs) == len(lines):
            acc = sum(1 for o in outs if o.startswith("ok ") or o.startswith("wf "))
            ctx.extra["implementation_accepted"] = acc
            ctx.extra["implementation_rejected"] = sum(1 for o in outs if o == "reject")
            checked, nfail = parser_oracle(ctx, lines, outs, wf_expected)
            ctx.extra["parser_oracle_checked"] = checked
            ctx.extra["parser_oracle_failures"] = nfail
            shown = 0
            for l, o in zip(lines, outs):
                if l.startswith("parse ") and o.startswith("ok ") and "(" in dec(l.split()[1]) and shown < 3:
                    shown += 1
                    ctx.sample({"op": "parse", "text": dec(l.split()[1])[:120], "model_and_impl_output": o[:200]})
        else:
            ctx.oracle_failure("c49:crash", "introspect harness crashed (rc=%s)" % rc, {"stderr": err[-800:]})
    elif not drv:
        ctx.oblige("correspondence parse_type vs Lean model", "correspondence", False, "driver did not build")

    # ---- T/S: the compiler
    if info:
        h, p = info["headers"], info["python"]
        variadic = {f["name"]: f.get("variadic", False) for f in h["functions"]}
        # header-side extraction, ASTs looked up in its type table (tie of the translator)
        text, desc = assert_file(h, lambda i: h["types"][i], variadic, "header-side")
        hp = os.path.join(WORK, "c49_header_side_asserts.c")
        rc, bad, err, cmd = compile_asserts(hp, text)
        ctx.oblige("header-side extraction confirmed by gcc (%d compile-time checks)" % sum(1 for d in desc if d), "translator",
                   rc == 0 and not bad, json.dumps([dict(desc[k - 1] or {}, line=k, error=v) for k, v in sorted(bad.items())[:5]]) + err[-400:])
        ctx.extra["header_side_asserts"] = sum(1 for d in desc if d)
        header_side_ok = rc == 0 and not bad
        # shipped tables: the oracle
        text, desc = assert_file(p, lambda t: t, variadic, "shipped enums.py / structs.py / functions.py")
        pp = os.path.join(WORK, "c49_shipped_tables_asserts.c")
        rc, bad, err, cmd = compile_asserts(pp, text)
        nass = sum(1 for d in desc if d)
        ctx.extra["shipped_table_asserts"] = nass
        bykind = {}
        for d in desc:
            if d:
                bykind[d["kind"]] = bykind.get(d["kind"], 0) + 1
        ctx.extra["shipped_table_asserts_by_kind"] = bykind
        ctx.evaluations += nass
        for d in desc:
            if d:
                ctx.nontrivial.add(common.hashlib.md5((d["kind"] + d["item"]).encode()).hexdigest()[:12])
        if rc != 0 and not bad:
            ctx.oracle_failure("c49:cc:compile", "the assert file generated from the shipped tables does not compile", {
                "file": pp, "stderr": err[-1500:], "replay": " ".join(cmd)})
        src_lines = text.split("\n")
        # most specific claims first; a gap claim about a member whose order claim already failed says nothing new
        prio = {"enum": 0, "struct": 0, "enum_value": 1, "member_type": 1, "function_type": 1, "member_order": 2, "member_gap": 3}
        order_failed = {(desc[k - 1] or {}).get("item") for k in bad if (desc[k - 1] or {}).get("kind") == "member_order"}
        ranked = sorted(bad.items(), key=lambda kv: (prio.get((desc[kv[0] - 1] or {}).get("kind"), 0), kv[0]))
        ranked = [kv for kv in ranked if not ((desc[kv[0] - 1] or {}).get("kind") == "member_gap" and
                                              (len(order_failed) > 0))] or ranked
        for k, msg in ranked[:8]:
            d = desc[k - 1] or {"kind": "prelude", "item": "line %d" % k, "claim": ""}
            ctx.oracle_failure("c49:cc:%s:%s" % (d["kind"], d["item"]),
                               "shipped metadata contradicts the compiler: %s (%s)" % (d["claim"], msg[:160]),
                               {"item": d["item"], "claim": d["claim"], "c_line": src_lines[k - 1][:600], "compiler": msg[:300],
                                "replay": "printf '#include <stddef.h>\\n#include <mujoco/mujoco.h>\\n#define C49_SAME(A, B) __builtin_types_compatible_p(A, B)\\n%%s\\n' %r | gcc -fsyntax-only -std=gnu11 -I%s/include -x c -"
                                          % (src_lines[k - 1][:600], common.REPO)})
        ctx.extra["shipped_table_assert_failures"] = len(bad)
        ctx.sample({"compiler_check": src_lines[len(src_lines) // 2][:200]})
        ctx.sample({"compiler_check": src_lines[-3][:300]})
    else:
        header_side_ok = False

    def directed(ctx2):
        # a proof / tie obligation is broken and neither oracle fired: compare the two tables item by item
        if not info:
            return None
        if not header_side_ok:
            return None   # the header-side extraction itself is not confirmed by the compiler: its diff proves nothing
        d = first_table_difference(info)
        if d is None:
            return None
        return {"key": "c49:table:%s:%s" % (d["kind"], d.get("item", d.get("position"))),
                "what": "shipped metadata differs from the headers as clang sees them: %s" % json.dumps(d)[:400],
                "replay": dict(d, how="python3 translate/c49_tables.py && compare headers.* with python.* in lean/MjProof/Gen/IntrospectTables.json")}
    ctx.directed_search = directed
    if ctx.tier == "thorough":
        ctx.leanchecker(["MjProof.Props.C49", "MjProof.Props.C49GenEnums"])
