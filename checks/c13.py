"""C13  Contacts report true geometry (DESIGN.md §5.C13).

P  Lean theorems over the reals about the *generated* kernels mju_makeFrame, mjraw_SphereSphere, mjraw_PlaneSphere,
   mjraw_SphereCapsule, mju_clampVec (n = 3), mju_clip (lean/MjProof/Gen/Kernels.lean, regenerated from the working
   tree by translate/c2lean.py on every run): lean/MjProof/Props/C13.lean, helper closed forms in Lemmas/Collide.lean.
T  translator regeneration + translation validation: generated Lean on Float vs the compiled C functions, bitwise.
S  property oracle on the real engine (harness/c/c13_contacts.c): two-geom models of every primitive pair built through
   the public mjs_* API, mj_collision, mj_geomDistance; judged in Python against closed-form geometry.
"""
import itertools
import json
import math
import os

from checks import common, kernelval
from gen import enums

META = {
    "technique": "c2lean translation of the raw colliders and mju_makeFrame to Lean (regenerated every run) + Lean 4 proofs over the reals about the generated definitions (closed forms by unfolding and case split over every branch; Gram-Schmidt / Lagrange identity; clamp = nearest point lemmas; sqrt monotonicity) + bitwise translation validation (Lean Float vs compiled C) + property oracle on the real engine (two-geom models of all 21 primitive pairs, mj_collision and mj_geomDistance judged against closed-form signed distances, surface membership of the contact's two witness points, frame orthonormality)",
    "text": "Proved over the reals for all inputs, about the kernels as translated from the working tree: mju_makeFrame raises its error iff |x| < 1/2, otherwise its first axis is x/|x|; for a unit normal x and a tangent hint that is undefined (|y|^2 < 1/4, e.g. the zero tangent every primitive collider writes) or has a Gram-Schmidt residual of length >= mjMINVAL the frame is orthonormal, right-handed (det 1, z = x cross y) and its first axis is x (both branches of the y-axis fallback and the mjMINVAL guards of both normalisations); the residual hypothesis is shown necessary by a concrete counterexample. mjraw_SphereSphere: returns 0 iff |c2-c1|^2 > (margin+r1+r2)^2 and then leaves the contact untouched; otherwise (for margin+r1+r2 >= 0) a contact is returned exactly when the true signed distance |c2-c1|-r1-r2 is <= margin, dist equals that signed distance, dist <= margin, the normal is a unit vector in every case (including the coincident-centre fallback: normalised cross product of the z axes, or (1,0,0)), equals (c2-c1)/|c2-c1| and satisfies n.(c2-c1) = |c2-c1| > 0 (points from geom 1 to geom 2) when the centres are >= mjMINVAL apart, the position is c1 + n(r1 + dist/2) = the midpoint of the two surface points c1 + n r1 and c2 - n r2, whose difference is n*dist. mjraw_PlaneSphere: returns 0 iff (c-p).n > margin + r, otherwise dist = (c-p).n - r <= margin, normal = plane normal, tangent 0, position = midpoint of the sphere's lowest point and its foot on the plane (for a unit normal), and (c-p).n is the true distance of c from the plane (no plane point is closer). mjraw_SphereCapsule = mjraw_SphereSphere against the clamped projection of the sphere centre on the capsule axis; for a unit axis that point minimises the distance over the whole segment, hence dist is the true sphere-capsule signed distance; margin, unit normal, direction and position rules are inherited. mju_clampVec (n=3, the first step of mjraw_SphereBox): for positive half sizes the result lies in the box and is its nearest point; non-positive limits disable the clamp.",
    "note": "Reals, not doubles: rounding is outside the proofs (translation validation is bitwise on Float; the oracle uses tolerance 1e-9 for the closed-form / natively computed pairs (observed <= 2e-11) and loose tolerances 6e-3 / 0.25 for distances / witness points of separated pairs that go through the iterative native CCD, whose accuracy belongs to C15; penetration depths of CCD pairs are not compared). NOT proved, covered by the engine oracle only: mjraw_CapsuleCapsule (c2lean refuses `con + n1` with a data-dependent offset), mjraw_SphereBox beyond its clamp step and mjraw_CapsuleBox (data-dependent indices), all mjc_* wrappers (mjModel*/mjData* access): plane-capsule, plane-box, plane-cylinder, sphere-cylinder, box-box, the GJK/EPA pairs with ellipsoids and cylinders (native CCD; libccd is stubbed in this build), mj_setContact, mj_geomDistance. Oracle scope: closed-form signed distance for plane-X (support function), sphere-{sphere,capsule,box,cylinder}, capsule-capsule, capsule-{box,cylinder} when separated (1-D convex minimisation of an exact SDF) and box-box when separated (vertex-face / edge-edge minimum, used for mj_geomDistance only); witness points pos -+ n dist/2 on the two surfaces for the closest contact (all contacts where every contact is a closest-point pair); plane contacts carry the plane normal; plane-capsule contacts are the two end-sphere contacts; plane-box contacts sit at corners; for the remaining convex pairs only unit normal / orthonormal right-handed frame / margin / direction (when separated) / mj_geomDistance symmetry are checked. Skipped as geometrically undetermined or ill-conditioned (stated, not hidden): witness/direction checks for coincident centres, a sphere centre on a capsule/cylinder axis, crossing capsule segments; closed-form comparisons when two axes make an angle 0 < sin < 1e-5 (the colliders normalise a vector of that length: accuracy eps/angle). `dist <= margin` is checked with the tree's semantics: colliders receive margin+gap, includemargin = margin, exclude = (dist >= includemargin). Margin test `>` vs `>=`: the theorems (sphereSphere_ret_one_iff, planeSphere_ret_zero_iff) fix the boundary as inside (contact iff true distance <= margin); the oracle contains exactly representable dist == margin configurations (Pythagorean centre offsets) that must produce a contact, so a rewrite to `>=` changes outputs and is reported (key c13:margin-boundary:*), while a rewrite that keeps every output keeps the oracle silent (it may still break the proof tie, which is then reported as no-failing-input-found). GENUINE DEFECTS of the tree, each reported by the oracle under ONE stable key (all reproduced on the real engine; everything the oracle finds inside the stated geometric zone of a defect is folded into its key): (1) c13:frame:plane-capsule-axis-parallel-to-normal -- mjc_PlaneCapsule passes the capsule axis as tangent hint; for a capsule standing along the normal of a plane whose normal is not orthogonal to (1,0,0) the Gram-Schmidt residual in mju_makeFrame vanishes, mju_normalize3 falls back to (1,0,0) and the contact frame is not orthonormal (model-side counterpart: theorem makeFrame_parallel_hint_not_orthonormal). (2) c13:capsule-capsule:parallel-early-return-not-closest -- the parallel-axes branch of mjraw_CapsuleCapsule returns as soon as both end points of the FIRST capsule yield contacts and never tests the end points of the second capsule: for a longer first capsule the reported distance is not the true signed distance (e.g. -0.25 instead of -0.5), depends on the geom order, and mj_geomDistance is not symmetric. (3) c13:plane-cylinder:flat-disk-threshold -- mjc_PlaneCylinder tests len_sqr >= mjMINVAL^2 on the vector axis*(axis.n) - n; for a cylinder whose axis IS the plane normal that vector is rounding noise of length ~2e-15 >= mjMINVAL, gets normalised and scaled by the radius, and the contact distance / position are off by a full radius (cylinder standing flat on a tilted plane). (4) c13:capsule-box:axis-through-box-reported-separated -- when the capsule's axis passes through the box (thin plate skewered by a capsule) mjraw_CapsuleBox reports no contact or a positive distance. (5) c13:box-box:contact-distance-not-geomdistance -- disjoint boxes within the margin: mjc_BoxBox reports the separation along its best SAT axis (matched to 1e-9 against an independent 15-axis SAT), smaller than the Euclidean distance returned by mj_geomDistance (verified against an exact polytope distance) when the closest features are edges/vertices (corner-to-corner it reports no contact at all). (5b) c13:box-box:contact-distance-above-true-distance -- disjoint boxes within the margin, face branch: the smallest contact distance is LARGER than the true distance / mj_geomDistance (the closest vertex is not among the clipped contact points); split off from (5) so that (5) only matches its SAT signature. (6) c13:geomdist:ccd-coincident-centres-asymmetric -- mj_geomDistance through the native CCD with coincident geom centres returns a penetration depth in one geom order and ~0 in the other (overlaps C15). Each fold requires the defect's numerical signature, not just its zone: (2) the value produced by the early return (end points of the first capsule vs the second segment), (3) closed form minus engine distance in (0.1,1] radius and only distance/witness/fromto consequences, (4) a non-negative reported distance, (5) the SAT value; any other failure of the same collider (unit normal, frame, margin, includemargin, geom order, a different wrong distance) keeps its own key. INFORMATION ONLY (ctx.extra observations, not a failure, because the property requires the first-to-second normal direction only for the analytically solvable pairs): native-CCD pairs that are separated but within the margin sometimes get (multi-)contacts from mjc_Convex whose normal points from the second geom to the first (mjc_fixNormal only runs on the libccd path); the direction is checked for native / closed-form pairs only. Observation, not asserted: a sphere-sphere pair 1e-7 inside margin+gap at a generic orientation produced no contact (the completeness check is therefore only claimed 1e-5 away from the boundary plus the exactly representable boundary scenes).",
}

P = "MjProof.C13."
THEOREMS = [P + t for t in (
    "makeFrame_err_iff", "makeFrame_first_axis", "makeFrame_orthonormal", "makeFrame_zero_tangent",
    "makeFrame_parallel_hint_not_orthonormal",
    "sphereSphere_ret_cases", "sphereSphere_ret_zero_iff", "sphereSphere_unchanged", "sphereSphere_dist",
    "sphereSphere_dist_le_margin", "sphereSphere_ret_one_iff", "sphereSphere_normal_unit", "sphereSphere_normal",
    "sphereSphere_normal_direction", "sphereSphere_normal_degenerate", "sphereSphere_pos", "sphereSphere_pos_midpoint",
    "planeSphere_ret_zero_iff", "planeSphere_normal", "planeSphere_contact", "planeSphere_pos_midpoint",
    "plane_distance_is_min",
    "sphereCapsule_eq_sphereSphere", "capsulePoint_on_segment", "capsulePoint_nearest", "sphereCapsule_dist",
    "sphereCapsule_contact", "sphereCapsule_normal",
    "clampVec3_nearest", "clampVec3_inactive",
)]

KERNELS = ["mju_makeFrame", "mju_normalize3", "mju_dot3", "mju_clip", "mjraw_SphereSphere", "mjraw_PlaneSphere",
           "mjraw_SphereCapsule", "mju_clampVec3"]
REFUSED_BY_DESIGN = {
    "mjraw_CapsuleCapsule": "parallel-axes branch indexes `con + n1` with a data-dependent offset; engine oracle (segment-segment distance)",
    "mjraw_SphereBox": "data-dependent index nearest[k/2]; its clamp step mju_clampVec is translated; engine oracle (point-box SDF)",
    "mjraw_CapsuleBox": "data-dependent indices; engine oracle",
    "mjc_* wrappers, mj_setContact, mj_geomDistance": "mjModel*/mjData* access; engine oracle",
}

MINVAL = 1e-15
TOL = 1e-9          # closed-form pairs (observed deviations are ~1e-15: see evidence oracle_max_deviation_over_allowed)
TOL_CCD = 6e-3      # mj_geomDistance of *separated* pairs that go through the iterative native CCD vs closed form / swapped call
                    # (observed <= 3e-4; penetration depths of those pairs (EPA) are not compared at all: C15)
TOL_CCD_CONTACT = 0.1   # contact distance of mjc_Convex / mjc_BoxBox vs mj_geomDistance, separated pairs (observed <= 9e-3 with
                        # margins: mjc_Convex inflates the geoms by the margin and runs EPA); gross errors only, accuracy is C15
TOL_UNIT = 1e-9     # |n| = 1, orthonormality
TOL_CCD_WITNESS = 1e-3   # witness points returned by mj_geomDistance for separated CCD pairs (pure GJK; observed <= 5e-6).
                         # The witness points of mjc_Convex *contacts* are not checked: with margins they are off by up to 0.3 (C15)
DEFECT_KEY = "c13:frame:plane-capsule-axis-parallel-to-normal"
DEFECT_KEY_CAPS = "c13:capsule-capsule:parallel-early-return-not-closest"
DEFECT_KEY_BOX = "c13:box-box:contact-distance-not-geomdistance"
DEFECT_KEY_CCD = "c13:geomdist:ccd-coincident-centres-asymmetric"
DEFECT_KEY_CYL = "c13:plane-cylinder:flat-disk-threshold"
DEFECT_KEY_CAPBOX = "c13:capsule-box:axis-through-box-reported-separated"
DEFECT_KEY_BOXFACE = "c13:box-box:contact-distance-above-true-distance"
DEFECT_KEYS = (DEFECT_KEY, DEFECT_KEY_CAPS, DEFECT_KEY_BOX, DEFECT_KEY_CCD, DEFECT_KEY_CYL, DEFECT_KEY_CAPBOX, DEFECT_KEY_BOXFACE)
# information only (the property does not require a normal direction for native-CCD pairs): recorded in ctx.extra["observations"]
OBS_CCD_FLIP = "ccd-normal-points-second-to-first-within-margin"

PLANE, SPHERE, CAPSULE, ELLIPSOID, CYLINDER, BOX = (enums.E("mjGEOM_" + n) for n in
                                                    ("PLANE", "SPHERE", "CAPSULE", "ELLIPSOID", "CYLINDER", "BOX"))
TYPES = [PLANE, SPHERE, CAPSULE, ELLIPSOID, CYLINDER, BOX]
TNAME = {PLANE: "plane", SPHERE: "sphere", CAPSULE: "capsule", ELLIPSOID: "ellipsoid", CYLINDER: "cylinder", BOX: "box"}


# ------------------------------------------------------------------------------------------ small vector math
def dot(a, b):
    return a[0] * b[0] + a[1] * b[1] + a[2] * b[2]


def sub(a, b):
    return [a[0] - b[0], a[1] - b[1], a[2] - b[2]]


def add(a, b):
    return [a[0] + b[0], a[1] + b[1], a[2] + b[2]]


def scl(a, s):
    return [a[0] * s, a[1] * s, a[2] * s]


def norm(a):
    return math.sqrt(dot(a, a))


def cross(a, b):
    return [a[1] * b[2] - a[2] * b[1], a[2] * b[0] - a[0] * b[2], a[0] * b[1] - a[1] * b[0]]


def unit_vec(rng):
    while True:
        v = [rng.gauss(0, 1) for _ in range(3)]
        n = norm(v)
        if n > 1e-3:
            return [x / n for x in v]


def qmat(q):
    q0, q1, q2, q3 = q
    return [q0 * q0 + q1 * q1 - q2 * q2 - q3 * q3, 2 * (q1 * q2 - q0 * q3), 2 * (q1 * q3 + q0 * q2),
            2 * (q1 * q2 + q0 * q3), q0 * q0 - q1 * q1 + q2 * q2 - q3 * q3, 2 * (q2 * q3 - q0 * q1),
            2 * (q1 * q3 - q0 * q2), 2 * (q2 * q3 + q0 * q1), q0 * q0 - q1 * q1 - q2 * q2 + q3 * q3]


def qmul(a, b):
    return [a[0] * b[0] - a[1] * b[1] - a[2] * b[2] - a[3] * b[3],
            a[0] * b[1] + a[1] * b[0] + a[2] * b[3] - a[3] * b[2],
            a[0] * b[2] - a[1] * b[3] + a[2] * b[0] + a[3] * b[1],
            a[0] * b[3] + a[1] * b[2] - a[2] * b[1] + a[3] * b[0]]


def aa_quat(u, t):
    s = math.sin(t / 2)
    return [math.cos(t / 2), u[0] * s, u[1] * s, u[2] * s]


def quat_z_to(n):
    """unit quaternion rotating the z axis onto the unit vector n"""
    ax = [-n[1], n[0], 0.0]
    s = math.hypot(ax[0], ax[1])
    if s < 1e-300:
        return [1.0, 0.0, 0.0, 0.0] if n[2] > 0 else [0.0, 1.0, 0.0, 0.0]
    return aa_quat([ax[0] / s, ax[1] / s, 0.0], math.atan2(s, n[2]))


def rand_quat(rng):
    r = rng.random()
    if r < 0.15:
        return [1.0, 0.0, 0.0, 0.0]
    if r < 0.3:
        u = [0.0, 0.0, 0.0]
        u[rng.randint(0, 2)] = 1.0
        return aa_quat(u, rng.choice((math.pi / 2, -math.pi / 2, math.pi, math.pi / 4)))
    if r < 0.4:
        return aa_quat(unit_vec(rng), rng.choice((1e-9, 1e-7, 1e-5, 1e-3)))
    q = [rng.gauss(0, 1) for _ in range(4)]
    n = math.sqrt(sum(x * x for x in q))
    if n < 1e-3:
        return [1.0, 0.0, 0.0, 0.0]
    return [x / n for x in q]


def col(mat, j):
    return [mat[j], mat[3 + j], mat[6 + j]]


def to_local(g, x):
    d = sub(x, g["pos"])
    return [dot(col(g["mat"], j), d) for j in range(3)]


# ------------------------------------------------------------------------------------------ spec-side geometry
def support(g, d):
    """support function h(d) = max over the geom of d.(x - centre), d a unit vector (world frame)"""
    t, s = g["type"], g["size"]
    loc = [dot(col(g["mat"], j), d) for j in range(3)]
    if t == SPHERE:
        return s[0]
    if t == CAPSULE:
        return s[0] + s[1] * abs(loc[2])
    if t == ELLIPSOID:
        return math.sqrt(sum((s[i] * loc[i]) ** 2 for i in range(3)))
    if t == CYLINDER:
        return s[1] * abs(loc[2]) + s[0] * math.sqrt(max(0.0, loc[0] ** 2 + loc[1] ** 2))
    if t == BOX:
        return sum(s[i] * abs(loc[i]) for i in range(3))
    raise ValueError(t)


def sdf(g, x):
    """exact signed distance of the point x from the geom's surface (None for ellipsoids)"""
    t, s = g["type"], g["size"]
    if t == PLANE:
        return dot(sub(x, g["pos"]), col(g["mat"], 2))
    p = to_local(g, x)
    if t == SPHERE:
        return norm(p) - s[0]
    if t == CAPSULE:
        z = min(max(p[2], -s[1]), s[1])
        return math.sqrt(p[0] ** 2 + p[1] ** 2 + (p[2] - z) ** 2) - s[0]
    if t == BOX:
        q = [abs(p[i]) - s[i] for i in range(3)]
        out = math.sqrt(sum(max(c, 0.0) ** 2 for c in q))
        return out + min(max(q), 0.0)
    if t == CYLINDER:
        dr = math.hypot(p[0], p[1]) - s[0]
        dz = abs(p[2]) - s[1]
        return math.hypot(max(dr, 0.0), max(dz, 0.0)) + min(max(dr, dz), 0.0)
    return None


def on_surface(g, x):
    """residual (length scale) that vanishes iff x is on the geom's surface"""
    if g["type"] == ELLIPSOID:
        p = to_local(g, x)
        s = g["size"]
        return (math.sqrt(sum((p[i] / s[i]) ** 2 for i in range(3))) - 1.0) * min(s)
    return sdf(g, x)


def seg_seg(p1, d1, p2, d2):
    """distance between segments p1 + s d1, p2 + t d2, s, t in [-1, 1] (exact clamped closed form)"""
    # reparametrise to [0,1]
    a0, u = sub(p1, d1), scl(d1, 2.0)
    b0, v = sub(p2, d2), scl(d2, 2.0)
    r = sub(a0, b0)
    a, e, f = dot(u, u), dot(v, v), dot(v, r)
    best = None
    cands = []
    if a > 0 and e > 0:
        b, c = dot(u, v), dot(u, r)
        den = a * e - b * b
        if den > 1e-14 * a * e:
            s = min(max((b * f - c * e) / den, 0.0), 1.0)
            cands.append(s)
    cands += [0.0, 1.0]
    # for each candidate s the optimal t is a clamp; also the symmetric candidates (t fixed, s clamped)
    for s in cands:
        pa = add(a0, scl(u, s))
        t = min(max(dot(v, sub(pa, b0)) / e, 0.0), 1.0) if e > 0 else 0.0
        pb = add(b0, scl(v, t))
        s2 = min(max(dot(u, sub(pb, a0)) / a, 0.0), 1.0) if a > 0 else 0.0
        for ss in (s, s2):
            pa = add(a0, scl(u, ss))
            t = min(max(dot(v, sub(pa, b0)) / e, 0.0), 1.0) if e > 0 else 0.0
            d = norm(sub(pa, add(b0, scl(v, t))))
            best = d if best is None or d < best else best
    for t in (0.0, 1.0):
        pb = add(b0, scl(v, t))
        s = min(max(dot(u, sub(pb, a0)) / a, 0.0), 1.0) if a > 0 else 0.0
        d = norm(sub(add(a0, scl(u, s)), pb))
        best = d if d < best else best
    return best


def seg_sdf_min(g, c, a, ln):
    """min over t in [-ln, ln] of sdf(g, c + a t): sdf of a convex set is convex -> golden section + end points"""
    f = lambda t: sdf(g, add(c, scl(a, t)))
    lo, hi = -ln, ln
    gr = (math.sqrt(5) - 1) / 2
    x1, x2 = hi - gr * (hi - lo), lo + gr * (hi - lo)
    f1, f2 = f(x1), f(x2)
    for _ in range(90):
        if f1 < f2:
            hi, x2, f2 = x2, x1, f1
            x1 = hi - gr * (hi - lo)
            f1 = f(x1)
        else:
            lo, x1, f1 = x1, x2, f2
            x2 = lo + gr * (hi - lo)
            f2 = f(x2)
    return min(f1, f2, f(-ln), f(ln), f((lo + hi) / 2))


def pair_distance(g1, g2):
    """closed-form signed distance of the pair (type1 <= type2) or None; returns (dist, valid_when_penetrating, tol)"""
    t1, t2 = g1["type"], g2["type"]
    if t1 == PLANE:
        n = col(g1["mat"], 2)
        return dot(sub(g2["pos"], g1["pos"]), n) - support(g2, scl(n, -1.0)), True, TOL
    if t1 == SPHERE and t2 in (SPHERE, CAPSULE, CYLINDER, BOX):
        return sdf(g2, g1["pos"]) - g1["size"][0], True, TOL
    if t1 == CAPSULE and t2 == CAPSULE:
        d = seg_seg(g1["pos"], scl(col(g1["mat"], 2), g1["size"][1]), g2["pos"], scl(col(g2["mat"], 2), g2["size"][1]))
        return d - g1["size"][0] - g2["size"][0], d > 1e-6, TOL
    if t1 == CAPSULE and t2 == BOX:
        return seg_sdf_min(g2, g1["pos"], col(g1["mat"], 2), g1["size"][1]) - g1["size"][0], False, 1e-7
    if t1 == CAPSULE and t2 == CYLINDER:
        return seg_sdf_min(g2, g1["pos"], col(g1["mat"], 2), g1["size"][1]) - g1["size"][0], False, TOL_CCD
    return None


NATIVE = {(PLANE, SPHERE), (PLANE, CAPSULE), (PLANE, CYLINDER), (PLANE, BOX), (SPHERE, SPHERE), (SPHERE, CAPSULE),
          (SPHERE, CYLINDER), (SPHERE, BOX), (CAPSULE, CAPSULE), (CAPSULE, BOX)}


# ------------------------------------------------------------------------------------------ scene generator
def rand_size(rng, t):
    r = lambda: rng.choice((0.05, 0.1, 0.25, 0.5, 1.0, rng.uniform(0.05, 1.0)))
    if t == PLANE:
        return [1.0, 1.0, 0.1]
    if t == SPHERE:
        return [r(), 0.0, 0.0]
    if t in (CAPSULE, CYLINDER):
        return [r(), r(), 0.0]
    return [r(), r(), r()]


def mk_geom(t, size, pos, quat):
    return {"type": t, "size": size, "pos": pos, "quat": quat, "mat": qmat(quat)}


GAP_CLASSES = ("deep", "shallow", "touch", "inmargin", "justin", "justout", "far", "coincident")


def gen_scene(rng, pair=None, cls=None):
    """returns (line, meta): a two-geom scene around the contact threshold"""
    ta, tb = pair if pair else (rng.choice(TYPES), rng.choice(TYPES[1:]))
    if ta == PLANE and tb == PLANE:
        tb = SPHERE
    cls = cls or rng.choice(GAP_CLASSES)
    margin = [rng.choice((0.0, 0.0, 0.01, 0.1, rng.uniform(0, 0.2))) for _ in range(2)]
    gap = [rng.choice((0.0, 0.0, 0.0, 0.02, rng.uniform(0, 0.05))) for _ in range(2)]
    mg = margin[0] + margin[1] + gap[0] + gap[1]
    sa, sb = rand_size(rng, ta), rand_size(rng, tb)
    qa, qb = rand_quat(rng), rand_quat(rng)
    special = None
    r = rng.random()
    if r < 0.12:                       # parallel / shared orientation (capsule-capsule parallel branch, aligned boxes)
        qb, special = list(qa), "same-orientation"
    elif r < 0.2:                      # nearly parallel axes
        qb, special = qmul(qa, aa_quat(unit_vec(rng), rng.choice((1e-9, 1e-7, 1e-5, 1e-4, 1e-3, 1e-2)))), "nearly-parallel"
    elif r < 0.26 and ta == PLANE:     # plane normal nearly (not exactly) along a coordinate axis
        ax = [0.0, 0.0, 0.0]
        ax[rng.randint(0, 2)] = rng.choice((1.0, -1.0))
        qa = qmul(quat_z_to(ax), aa_quat(unit_vec(rng), rng.choice((1e-8, 1e-7, 1e-6, 1e-4))))
        special = "near-axis-normal"
    pa = [rng.uniform(-1, 1) for _ in range(3)] if rng.random() < 0.7 else [0.0, 0.0, 0.0]
    ga = mk_geom(ta, sa, pa, qa)
    gb = mk_geom(tb, sb, [0.0, 0.0, 0.0], qb)
    small = min([x for x in (sa + sb) if x > 0] + [1.0])
    target = {"deep": -rng.uniform(0.2, 1.5) * small, "shallow": -rng.choice((1e-6, 1e-4, 1e-3, 1e-2)),
              "touch": 0.0, "inmargin": rng.uniform(0, 1) * mg, "justin": mg - rng.choice((1e-7, 1e-5)),
              "justout": mg + rng.choice((1e-7, 1e-5)), "far": mg + rng.uniform(0.01, 1.0), "coincident": 0.0}[cls]
    if ta == PLANE:
        n = col(ga["mat"], 2)
        tang = cross(n, unit_vec(rng))
        h = support(gb, scl(n, -1.0))
        off = target if cls != "coincident" else -h
        gb["pos"] = add(add(pa, scl(tang, rng.uniform(-2, 2))), scl(n, h + off))
    elif cls == "coincident":
        gb["pos"] = list(pa) if rng.random() < 0.6 else add(pa, scl(unit_vec(rng), rng.choice((1e-17, 1e-16, 1e-14, 1e-12))))
    else:
        d = unit_vec(rng)
        if rng.random() < 0.25:        # along a principal axis of geom a: face / end-cap contacts
            d = scl(col(ga["mat"], rng.randint(0, 2)), rng.choice((1.0, -1.0)))
        s = support(ga, d) + support(gb, scl(d, -1.0)) + target
        gb["pos"] = add(pa, scl(d, s))
        if rng.random() < 0.3 and special in ("same-orientation", "nearly-parallel"):
            # slide along the common axis: exercises the clamped / end-point branches
            gb["pos"] = add(gb["pos"], scl(col(ga["mat"], 2), rng.uniform(-1.5, 1.5)))
    distmax = rng.choice((mg, mg, 10.0, 0.5, mg + 0.3))
    swap = ta != PLANE and rng.random() < 0.5
    first, second, mi = (gb, ga, (1, 0)) if swap else (ga, gb, (0, 1))
    return scene_line(first, margin[mi[0]], gap[mi[0]], second, margin[mi[1]], gap[mi[1]], distmax), \
        {"pair": (min(ta, tb), max(ta, tb)), "cls": cls, "special": special}


def scene_line(g1, m1, gp1, g2, m2, gp2, distmax):
    vals = []
    for g, m, gp in ((g1, m1, gp1), (g2, m2, gp2)):
        vals += [g["type"]] + list(g["size"]) + list(g["pos"]) + list(g["quat"]) + [m, gp]
    vals.append(distmax)
    return "S " + " ".join(repr(float(v)) if not isinstance(v, int) else str(v) for v in vals)


def boundary_scenes(rng):
    """exactly representable configurations at dist == margin (the `>` of the margin tests), touching and coincident"""
    out = []
    I = [1.0, 0.0, 0.0, 0.0]
    for k in (1.0, 0.5, 2.0, 0.25):
        # sphere-sphere: centre difference (3,4,0)k, margin + r1 + r2 = 5k exactly, so cdist_sqr == min_dist^2
        g1 = mk_geom(SPHERE, [2 * k, 0, 0], [0.0, 0.0, 0.0], I)
        g2 = mk_geom(SPHERE, [2 * k, 0, 0], [3 * k, 4 * k, 0.0], I)
        out.append((scene_line(g1, k, 0.0, g2, 0.0, 0.0, 10.0), {"pair": (SPHERE, SPHERE), "cls": "exact-margin", "special": None,
                                                               "must_contact": True}))
        out.append((scene_line(g1, 0.5 * k, 0.0, g2, 0.25 * k, 0.25 * k, 10.0),
                    {"pair": (SPHERE, SPHERE), "cls": "exact-margin", "special": None, "must_contact": True}))
        # plane-sphere: height = margin + r exactly
        pl = mk_geom(PLANE, [1, 1, 0.1], [0.0, 0.0, 0.0], I)
        sp = mk_geom(SPHERE, [k, 0, 0], [0.5, -0.25, 1.5 * k], I)
        out.append((scene_line(pl, 0.5 * k, 0.0, sp, 0.0, 0.0, 10.0), {"pair": (PLANE, SPHERE), "cls": "exact-margin", "special": None,
                                                                       "must_contact": True}))
        # sphere-capsule: sphere above the capsule's cylinder part at distance margin + r1 + r2 exactly
        cp = mk_geom(CAPSULE, [k, 2 * k, 0], [0.0, 0.0, 0.0], I)
        s2 = mk_geom(SPHERE, [k, 0, 0], [2.5 * k, 0.0, k], I)
        out.append((scene_line(s2, 0.25 * k, 0.0, cp, 0.25 * k, 0.0, 10.0), {"pair": (SPHERE, CAPSULE), "cls": "exact-margin",
                                                                            "special": None, "must_contact": True}))
    return out


def defect_scenes(rng, n):
    """plane-capsule with the capsule axis (nearly) along the normal of a tilted plane"""
    out = []
    for i in range(n):
        nrm = unit_vec(rng) if i else [0.6, 0.0, 0.8]
        q = quat_z_to(nrm)
        ang = rng.choice((0.0, 0.0, 1e-12, 1e-9, 1e-8))
        qc = qmul(q, aa_quat(unit_vec(rng), ang)) if ang else list(q)
        if rng.random() < 0.3:
            qc = qmul(qc, [0.0, 1.0, 0.0, 0.0])          # flipped capsule: axis = -normal
        pl = mk_geom(PLANE, [1, 1, 0.1], [0.0, 0.0, 0.0], q)
        r, ln = 0.1, 0.3
        cp = mk_geom(CAPSULE, [r, ln, 0], scl(col(pl["mat"], 2), ln + r - 0.05), qc)
        out.append((scene_line(pl, 0.0, 0.0, cp, 0.0, 0.0, 1.0), {"pair": (PLANE, CAPSULE), "cls": "axis-parallel-normal", "special": None}))
    return out


def gen_frame_line(rng):
    x = unit_vec(rng)
    r = rng.random()
    if r < 0.25:
        ax = [0.0, 0.0, 0.0]
        ax[rng.randint(0, 2)] = rng.choice((1.0, -1.0))
        t = rng.choice((0.0, 1e-9, 1e-7, 1e-5, 1e-3))
        u = unit_vec(rng)
        x = [ax[i] + t * u[i] for i in range(3)]
        nx = norm(x)
        x = [c / nx for c in x]
    elif r < 0.35:
        x = [rng.uniform(-1, 1), rng.choice((0.5, -0.5, 0.4999999999, 0.5000000001)), 0.0]
        x[2] = math.sqrt(max(0.0, 1 - x[1] ** 2)) * rng.choice((1, -1))
        x[0] = 0.0
    k = rng.random()
    if k < 0.5:
        y = [0.0, 0.0, 0.0]
    elif k < 0.7:
        y = scl(unit_vec(rng), rng.uniform(0, 0.49))
    else:
        y = scl(unit_vec(rng), rng.uniform(0.51, 2.0))
    if rng.random() < 0.1:
        x = scl(x, rng.choice((0.3, 0.49, 0.51, 0.75, 2.0, 10.0)))      # non-unit: error iff |x| < 0.5 (never at the rounding edge)
    return "F " + " ".join(repr(float(v)) for v in x + y)


# ------------------------------------------------------------------------------------------ judgement
class Dev:
    """running maxima of observed deviation / allowed tolerance per check (reported in the evidence)"""

    def __init__(self):
        self.m = {}
        self.worst = {}
        self.cur = None
        self.info = {}      # observations that are NOT failures: key -> [count, first op line, text]

    def note(self, key, text):
        e = self.info.setdefault(key, [0, self.cur, text])
        e[0] += 1

    def see(self, key, dev, allowed):
        r = dev / allowed if allowed > 0 else (0.0 if dev == 0 else float("inf"))
        if not (r <= self.m.get(key, 0.0)):
            self.m[key] = r
            self.worst[key] = self.cur
        return dev <= allowed


def frame_checks(F, chk, tag):
    rows = [F[0:3], F[3:6], F[6:9]]
    e = 0.0
    for i in range(3):
        for j in range(3):
            e = max(e, abs(dot(rows[i], rows[j]) - (1.0 if i == j else 0.0)))
    chk("frame", e, TOL_UNIT, "contact frame is not orthonormal (max |F F^T - I| entry)")
    det = dot(rows[0], cross(rows[1], rows[2]))
    chk("righthanded", abs(det - 1.0), TOL_UNIT, "contact frame is not right-handed (det != 1)")


def parse_scene_out(out):
    w = out.split()
    ncon = int(w[1])
    assert w[2] == "X"
    i = 3
    geoms = []
    for k in range(2):
        t = None
        geoms.append({"pos": [float(x) for x in w[i:i + 3]], "mat": [float(x) for x in w[i + 3:i + 12]]})
        i += 12
    cons = []
    for k in range(ncon):
        assert w[i] == "C"
        c = {"geom": (int(w[i + 1]), int(w[i + 2])), "dist": float(w[i + 3]), "includemargin": float(w[i + 4]),
             "exclude": int(w[i + 5]), "dim": int(w[i + 6]), "pos": [float(x) for x in w[i + 7:i + 10]],
             "frame": [float(x) for x in w[i + 10:i + 19]]}
        cons.append(c)
        i += 19
    assert w[i] == "G"
    gd = {"d01": float(w[i + 1]), "ft01": [float(x) for x in w[i + 2:i + 8]], "d10": float(w[i + 8]),
          "ft10": [float(x) for x in w[i + 9:i + 15]]}
    return geoms, cons, gd


def box_vertices(g):
    s = g["size"]
    return [add(g["pos"], [sum(g["mat"][3 * r + j] * sg[j] * s[j] for j in range(3)) for r in range(3)])
            for sg in itertools.product((-1, 1), repeat=3)]


def box_box_distance(g1, g2):
    """exact distance of two *separated* boxes: min over vertex-box SDFs and the 12 x 12 edge pairs"""
    v1, v2 = box_vertices(g1), box_vertices(g2)
    best = min(min(sdf(g2, v) for v in v1), min(sdf(g1, v) for v in v2))
    idx = list(itertools.product((-1, 1), repeat=3))
    edges = [(i, j) for i in range(8) for j in range(i + 1, 8) if sum(1 for k in range(3) if idx[i][k] != idx[j][k]) == 1]
    for (a, b) in edges:
        m1, h1 = scl(add(v1[a], v1[b]), 0.5), scl(sub(v1[b], v1[a]), 0.5)
        for (c, d) in edges:
            best = min(best, seg_seg(m1, h1, scl(add(v2[c], v2[d]), 0.5), scl(sub(v2[d], v2[c]), 0.5)))
    return best


def boxes_separated(g1, g2):
    """separating-axis test (15 axes) with a safety margin: True only if the boxes are disjoint"""
    A = [col(g1["mat"], j) for j in range(3)]
    B = [col(g2["mat"], j) for j in range(3)]
    t = sub(g2["pos"], g1["pos"])
    axes = A + B + [cross(a, b) for a in A for b in B]
    for ax in axes:
        n = norm(ax)
        if n < 1e-9:
            continue
        ra = sum(g1["size"][j] * abs(dot(A[j], ax)) for j in range(3))
        rb = sum(g2["size"][j] * abs(dot(B[j], ax)) for j in range(3))
        if abs(dot(t, ax)) - ra - rb > 1e-6 * n:
            return True
    return False


def sat_separation(g1, g2):
    """largest separation of two boxes along the 15 SAT axes (what a SAT collider reports for disjoint boxes)"""
    A = [col(g1["mat"], j) for j in range(3)]
    B = [col(g2["mat"], j) for j in range(3)]
    t = sub(g2["pos"], g1["pos"])
    best = None
    for ax in A + B + [cross(a, b) for a in A for b in B]:
        n = norm(ax)
        if n < 1e-9:
            continue
        ra = sum(g1["size"][j] * abs(dot(A[j], ax)) for j in range(3))
        rb = sum(g2["size"][j] * abs(dot(B[j], ax)) for j in range(3))
        sp = (abs(dot(t, ax)) - ra - rb) / n
        best = sp if best is None or sp > best else best
    return best


def capsule_early_value(first, second):
    """what the parallel branch of mjraw_CapsuleCapsule reports when it returns after the two end points of `first`"""
    a1, a2 = col(first["mat"], 2), col(second["mat"], 2)
    r = first["size"][0] + second["size"][0]
    return min(point_seg(add(first["pos"], scl(a1, sg * first["size"][1])), second["pos"], a2, second["size"][1]) - r
               for sg in (1.0, -1.0))


def point_seg(x, c, a, ln):
    t = min(max(dot(sub(x, c), a), -ln), ln)
    return norm(sub(x, add(c, scl(a, t))))


def capsule_early_return(first, second, mg):
    """mjraw_CapsuleCapsule, parallel branch: both end points of the FIRST capsule are within the margin of the second"""
    a1, a2 = col(first["mat"], 2), col(second["mat"], 2)
    r = first["size"][0] + second["size"][0]
    return all(point_seg(add(first["pos"], scl(a1, sg * first["size"][1])), second["pos"], a2, second["size"][1]) - r <= mg + 1e-9
               for sg in (1.0, -1.0))


def degenerate(g1, g2):
    """configurations in which the contact normal is not determined by the geometry (coincident centres, a sphere centre
    on the axis of a capsule / cylinder, crossing capsule segments): only unit normal / frame / margin / distance are claimed"""
    t1, t2 = g1["type"], g2["type"]
    if t1 == PLANE:
        return False
    if norm(sub(g1["pos"], g2["pos"])) < 1e-6:
        return True
    if t1 == SPHERE and t2 == CAPSULE:
        return point_seg(g1["pos"], g2["pos"], col(g2["mat"], 2), g2["size"][1]) < 1e-6
    if t1 == SPHERE and t2 == CYLINDER:
        p = to_local(g2, g1["pos"])
        return math.hypot(p[0], p[1]) < 1e-6 or abs(abs(p[2]) - g2["size"][1]) < 1e-9 and False
    if t1 == CAPSULE and t2 == CAPSULE:
        return seg_seg(g1["pos"], scl(col(g1["mat"], 2), g1["size"][1]), g2["pos"], scl(col(g2["mat"], 2), g2["size"][1])) < 1e-6
    return False


def ill_conditioned(g1, g2):
    """axes at a tiny but non-zero angle: the colliders normalise a vector of that length, so their accuracy is eps/angle;
    closed-form comparisons are skipped for 0 < sin(angle) < 1e-5 (exactly parallel axes take the dedicated branches)"""
    pair = (g1["type"], g2["type"])
    if pair in ((PLANE, CYLINDER), (CAPSULE, CAPSULE), (PLANE, CAPSULE), (CAPSULE, CYLINDER), (CAPSULE, BOX)):
        a1, a2 = col(g1["mat"], 2), col(g2["mat"], 2)
        if pair == (CAPSULE, BOX):
            return any(0 < norm(cross(a1, col(g2["mat"], j))) < 1e-5 for j in range(3))
        sn = norm(cross(a1, a2))
        return 0 < sn < 1e-5
    return False


def judge_scene(line, out, dev):
    v = [float(x) for x in line.split()[1:]]
    fails = []
    if not out.startswith("ok "):
        if out == "bad-op":
            return [("c13:bad-op", "well-formed scene rejected")]
        return [("c13:engine-error", "the engine raised an error on a valid two-geom scene: " + out[:200])]
    eng, cons, gd = parse_scene_out(out)
    # geoms in id order: planes live in the world body and therefore come first
    specs = []
    for k in range(2):
        a = v[13 * k:13 * k + 13]
        specs.append({"type": int(a[0]), "size": a[1:4], "pos": a[4:7], "quat": a[7:11], "mat": qmat(a[7:11]),
                      "margin": a[11], "gap": a[12]})
    if specs[1]["type"] == PLANE and specs[0]["type"] != PLANE:
        specs.reverse()
    distmax = v[26]
    G = []
    for k in range(2):
        g = dict(specs[k])
        # engine kinematics must reproduce the requested pose; the engine's own values are used below
        # (1e-6: the compiler snaps a geom frame that is within ~1e-7 of its body frame onto it -- geom_sameframe)
        if max(abs(x - y) for x, y in zip(eng[k]["pos"] + eng[k]["mat"], g["pos"] + g["mat"])) > 1e-6:
            fails.append(("c13:harness:pose", "geom pose computed by mj_kinematics differs from the requested pose"))
        g["pos"], g["mat"] = eng[k]["pos"], eng[k]["mat"]
        G.append(g)
    lo, hi = (0, 1) if G[0]["type"] <= G[1]["type"] else (1, 0)
    g1, g2 = G[lo], G[hi]
    pair = (g1["type"], g2["type"])
    pname = TNAME[pair[0]] + "-" + TNAME[pair[1]]
    margin = G[0]["margin"] + G[1]["margin"]
    mg = margin + G[0]["gap"] + G[1]["gap"]
    native = pair in NATIVE
    planeconvex = pair[0] == PLANE and not native
    exact = native or planeconvex
    tol = TOL if exact else TOL_CCD_WITNESS
    degen = degenerate(g1, g2)
    illc = ill_conditioned(g1, g2)

    def chk(key, d, allowed, what, fkey=None):
        if not dev.see(pname + ":" + key, d, allowed):
            fails.append((fkey or "c13:%s:%s" % (key, pname), "%s: %s (deviation %.3g > allowed %.3g)" % (pname, what, d, allowed)))

    # ---- zones of the three genuine defects (each reported under one stable key)
    frame_zone = False
    if pair == (PLANE, CAPSULE):
        n, a = col(g1["mat"], 2), col(g2["mat"], 2)
        frame_zone = norm(sub(a, scl(n, dot(n, a)))) < 1e-6
    par_caps = False
    if pair == (CAPSULE, CAPSULE):
        # the collider's own branch condition |det| < mjMINVAL, computed as mjraw_CapsuleCapsule computes it
        ax1, ax2 = scl(col(g1["mat"], 2), g1["size"][1]), scl(col(g2["mat"], 2), g2["size"][1])
        ma, mb, mc = dot(ax1, ax1), -dot(ax1, ax2), dot(ax2, ax2)
        par_caps = abs(ma * mc - mb * mb) < MINVAL
    CAPKEY, BOXKEY = DEFECT_KEY_CAPS, DEFECT_KEY_BOX
    dmin = min((c["dist"] for c in cons), default=None)
    # defect (2): the fold requires the collider's branch condition, the early-return condition AND the exact value that the
    # early return produces (end points of the first capsule vs the second segment); anything else keeps its own key
    cap_zone_contact = (par_caps and capsule_early_return(g1, g2, mg) and dmin is not None
                        and abs(dmin - capsule_early_value(g1, g2)) <= TOL)
    cap_zone_gd = False
    if par_caps:
        true_d = pair_distance(g1, g2)[0]
        exp = []
        for first, second in ((G[0], G[1]), (G[1], G[0])):
            e = capsule_early_value(first, second) if capsule_early_return(first, second, distmax) else true_d
            exp.append(min(e, distmax))
        cap_zone_gd = ((capsule_early_return(G[0], G[1], distmax) or capsule_early_return(G[1], G[0], distmax))
                       and abs(gd["d01"] - exp[0]) <= TOL and abs(gd["d10"] - exp[1]) <= TOL)
    cyl_zone = pair == (PLANE, CYLINDER) and norm(cross(col(g1["mat"], 2), col(g2["mat"], 2))) < 1e-7
    cyl_mark = len(fails)
    thru = None
    if pair in ((CAPSULE, BOX), (CAPSULE, CYLINDER)):
        thru = seg_sdf_min(g2, g1["pos"], col(g1["mat"], 2), g1["size"][1])    # < 0: the capsule axis enters the other geom
    capbox_zone = pair == (CAPSULE, BOX) and thru < -1e-6

    an = None if illc else pair_distance(g1, g2)
    if pair == (BOX, BOX):
        an = (box_box_distance(g1, g2), False, TOL) if boxes_separated(g1, g2) else None
    imin = min(range(len(cons)), key=lambda k: cons[k]["dist"]) if cons else None
    for ci, c in enumerate(cons):
        n = c["frame"][0:3]
        if c["geom"] != (lo, hi):
            fails.append(("c13:geomorder:" + pname, "contact geoms %s are not ordered by geom type (expected %s)" % (c["geom"], (lo, hi))))
            continue
        chk("unit", abs(norm(n) - 1.0), TOL_UNIT, "contact normal is not a unit vector")
        before = len(fails)
        frame_checks(c["frame"], chk, pname)
        if frame_zone and len(fails) > before:
            del fails[before:]
            fails.append((DEFECT_KEY, "plane-capsule contact with the capsule axis along the plane normal: contact frame is not "
                          "orthonormal: frame = %s" % (c["frame"],)))
        chk("margin", max(0.0, c["dist"] - mg), 1e-12 * (1 + abs(mg)), "contact distance exceeds margin + gap")
        if c["includemargin"] != margin:
            fails.append(("c13:includemargin:" + pname, "includemargin %r != margin %r" % (c["includemargin"], margin)))
        if c["exclude"] != (1 if c["dist"] >= c["includemargin"] else 0):
            fails.append(("c13:exclude:" + pname, "exclude flag %d inconsistent with dist %r, includemargin %r" % (c["exclude"], c["dist"], c["includemargin"])))
        # the two witness points pos -+ n dist/2 lie on the two surfaces (position between the surfaces,
        # normal from geom 1 to geom 2, dist = their signed separation)
        witness = not degen and not illc and pair != (BOX, BOX)
        if pair == (CAPSULE, BOX):
            witness = witness and ci == imin and c["dist"] > 1e-6     # further contacts are heuristic second points
        if pair == (PLANE, CAPSULE):
            # mjc_PlaneCapsule = plane-sphere on the two end spheres: every contact must be one of those two; the lowest
            # point of the *upper* end sphere is inside the capsule, so only the closest contact is a true witness pair
            pn, ax = col(g1["mat"], 2), col(g2["mat"], 2)
            best = None
            for sg in (1.0, -1.0):
                e = add(g2["pos"], scl(ax, sg * g2["size"][1]))
                de = dot(sub(e, g1["pos"]), pn) - g2["size"][0]
                pe = sub(e, scl(pn, g2["size"][0] + de / 2))
                dv = max(abs(c["dist"] - de), norm(sub(c["pos"], pe)))
                best = dv if best is None or dv < best else best
            chk("endsphere", best, TOL, "plane-capsule contact is not the plane-sphere contact of one of the two end spheres")
            witness = witness and ci == imin
        if not exact:
            witness = False                                           # mjc_Convex witnesses (margin inflation + EPA): C15
        if pair == (CAPSULE, CAPSULE):
            witness = witness and ci == imin      # the second contact of the parallel branch is an end point vs a clamped point
        if witness:
            w1 = sub(c["pos"], scl(n, c["dist"] / 2))
            w2 = add(c["pos"], scl(n, c["dist"] / 2))
            before = len(fails)
            chk("witness1", abs(on_surface(g1, w1)), tol, "pos - n*dist/2 is not on the surface of the first geom")
            chk("witness2", abs(on_surface(g2, w2)), tol, "pos + n*dist/2 is not on the surface of the second geom")
            if cap_zone_contact and len(fails) > before:
                del fails[before:]
        if pair[0] == PLANE:
            pn = col(g1["mat"], 2)
            chk("planenormal", max(abs(n[i] - pn[i]) for i in range(3)), 1e-12, "normal of a plane contact is not the plane normal")
        elif not degen and (ci == imin or not exact) and not capbox_zone:
            cd = sub(g2["pos"], g1["pos"])
            if c["dist"] > 1e-6 or pair == (SPHERE, SPHERE):
                if not dot(n, cd) > 0 and not exact:
                    # NOT a failure: the property asks for the first-to-second direction only for the analytically solvable
                    # pairs.  Observation: mjc_Convex (native CCD, no mjc_fixNormal) returns some (multi-)contacts of a
                    # separated pair within the margin with an inverted normal.
                    dev.note(OBS_CCD_FLIP, "%s: separated pair within the margin (dist %.17g, margin+gap %.17g): contact %d of %d has "
                             "its normal pointing from the second geom to the first (n.(c2-c1) = %.3g)"
                             % (pname, c["dist"], mg, ci, len(cons), dot(n, cd)))
                elif not dot(n, cd) > 0:
                    fails.append(("c13:direction:" + pname, "normal does not point from the first geom to the second (n.(c2-c1) = %.3g)" % dot(n, cd)))
        if pair == (PLANE, BOX):
            w2 = add(c["pos"], scl(n, c["dist"] / 2))
            chk("corner", min(norm(sub(w2, x)) for x in box_vertices(g2)), TOL, "plane-box contact is not at a box corner")
    if len(cons) > {(PLANE, CAPSULE): 2, (PLANE, BOX): 4, (PLANE, CYLINDER): 4, (CAPSULE, CAPSULE): 2, (SPHERE, SPHERE): 1,
                    (PLANE, SPHERE): 1, (SPHERE, CAPSULE): 1, (SPHERE, CYLINDER): 1, (SPHERE, BOX): 1}.get(pair, 8):
        fails.append(("c13:count:" + pname, "too many contacts: %d" % len(cons)))
    # ---- closed-form signed distance of the pair
    if an is not None:
        ad, pen_ok, atol = an
        usable = pen_ok or ad > 1e-6
        if usable and pair != (BOX, BOX):
            before = len(fails)
            if dmin is not None:
                chk("distance", abs(dmin - ad), atol, "smallest contact distance differs from the closed-form signed distance "
                    "(engine %.17g, closed form %.17g)" % (dmin, ad))
            # completeness of the margin test
            # (claimed only 1e-5 away from the boundary: within ~1e-7 of it a pair can be dropped before the narrow phase;
            #  the exactly representable boundary scenes cover dist == margin)
            if ad < mg - 1e-5 and dmin is None:
                fails.append(("c13:missing:" + pname, "closed-form distance %.17g <= margin+gap %.17g but no contact was reported" % (ad, mg)))
            if ad > mg + 1e-5 and dmin is not None:
                fails.append(("c13:spurious:" + pname, "closed-form distance %.17g > margin+gap %.17g but a contact with dist %.17g was reported" % (ad, mg, dmin)))
            if cap_zone_contact and len(fails) > before:
                del fails[before:]
                fails.append((CAPKEY, "parallel capsules: mjraw_CapsuleCapsule returns after the two end points of the first capsule and "
                              "misses the closest pair: smallest contact distance %.17g, true signed distance %.17g" % (dmin, ad)))
    # ---- mj_geomDistance: symmetric, valid witness segment, equal to the contact distance and to the closed form
    gtol = 1e-12 if exact else TOL_CCD
    before = len(fails)
    ccd_pen = not exact and (gd["d01"] < 1e-6 or gd["d10"] < 1e-6 or (dmin is not None and dmin < 1e-6))
    if ccd_pen and norm(sub(g1["pos"], g2["pos"])) < 1e-6 and abs(gd["d01"] - gd["d10"]) > TOL_CCD_CONTACT:
        fails.append((DEFECT_KEY_CCD, "%s with coincident centres: mj_geomDistance depends on the geom order (%.17g vs %.17g)"
                      % (pname, gd["d01"], gd["d10"])))
    if not ccd_pen:
        # (nearly parallel axes: the two call orders take differently conditioned paths, e.g. the parallel branch of
        #  mjraw_CapsuleCapsule treats axes within ~1e-7 rad as parallel: 1e-6 instead of exact equality)
        chk("geomdist-sym", abs(gd["d01"] - gd["d10"]), max(gtol, 1e-6) if illc else gtol, "mj_geomDistance(g1,g2) != mj_geomDistance(g2,g1) (%.17g vs %.17g)" % (gd["d01"], gd["d10"]))
    if an is not None and (an[1] or an[0] > 1e-6):
        for nm, dd in (("d01", gd["d01"]), ("d10", gd["d10"])):
            chk("geomdist-closedform", abs(dd - min(an[0], distmax)), an[2] if exact else TOL_CCD,
                "mj_geomDistance differs from the closed-form signed distance (geomDistance %.17g, closed form %.17g, distmax %.17g)"
                % (dd, an[0], distmax))
    if cap_zone_gd and len(fails) > before:
        del fails[before:]
        fails.append((CAPKEY, "parallel capsules: mj_geomDistance depends on the geom order / is not the true distance: "
                      "(g1,g2) %.17g, (g2,g1) %.17g, closed form %s" % (gd["d01"], gd["d10"], an[0] if an else None)))
    if not degen and not illc and not cap_zone_gd:
        for nm, dd, ft, ga, gb in (("01", gd["d01"], gd["ft01"], G[0], G[1]), ("10", gd["d10"], gd["ft10"], G[1], G[0])):
            if dd < distmax and ((exact and pair != (CAPSULE, BOX)) or dd > 1e-6) and pair != (BOX, BOX):
                chk("geomdist-from", abs(on_surface(ga, ft[:3])), tol, "fromto[0:3] is not on the surface of the first geom of the call")
                chk("geomdist-to", abs(on_surface(gb, ft[3:])), tol, "fromto[3:6] is not on the surface of the second geom of the call")
                chk("geomdist-len", abs(norm(sub(ft[3:], ft[:3])) - abs(dd)), tol, "|fromto| differs from |distance|")
        if exact and pair[0] != pair[1] and gd["d01"] < distmax:
            # same collider call, only the sign convention differs: exactly the reversed segment
            chk("geomdist-fromto", max(abs(x - y) for x, y in zip(gd["ft01"], gd["ft10"][3:] + gd["ft10"][:3])), 1e-12,
                "fromto of the swapped call is not the reversed segment")
    if dmin is not None and distmax >= mg and not ccd_pen:
        before = len(fails)
        chk("geomdist-contact", abs(gd["d01"] - min(dmin, distmax)), gtol if exact else (TOL_CCD if pair == (BOX, BOX) else TOL_CCD_CONTACT),
            "mj_geomDistance differs from the smallest contact distance (geomDistance %.17g, contact %.17g)" % (gd["d01"], dmin))
        if len(fails) > before and (cap_zone_gd or cap_zone_contact):
            del fails[before:]
            fails.append((CAPKEY, "parallel capsules: mj_geomDistance %.17g differs from the smallest contact distance %.17g" % (gd["d01"], dmin)))
        elif len(fails) > before and pair == (BOX, BOX):
            # only for disjoint boxes whose mj_geomDistance equals the exact polytope distance; the fold needs the signature
            gd_ok = an is not None and abs(gd["d01"] - min(an[0], distmax)) <= 1e-5
            if an is None:
                del fails[before:]      # penetrating box-box: SAT depth vs EPA depth of the native CCD belongs to C15
            elif gd_ok and dmin > 0 and dmin < gd["d01"] and abs(dmin - sat_separation(g1, g2)) <= TOL:
                del fails[before:]
                fails.append((BOXKEY, "disjoint boxes within the margin: mjc_BoxBox reports the separation along its best SAT axis "
                              "(%.17g) instead of the distance (mj_geomDistance %.17g, exact polytope distance %.17g)"
                              % (dmin, gd["d01"], an[0])))
            elif gd_ok and dmin > gd["d01"]:
                del fails[before:]
                fails.append((DEFECT_KEY_BOXFACE, "disjoint boxes within the margin: the smallest contact distance of mjc_BoxBox (%.17g, "
                              "%d contacts) is LARGER than the distance (mj_geomDistance %.17g, exact polytope distance %.17g; largest "
                              "SAT separation %.17g)" % (dmin, len(cons), gd["d01"], an[0], sat_separation(g1, g2))))
            # anything else keeps the generic key c13:geomdist-contact:box-box
    # (the normalised noise vector is parallel to the normal only up to its own rounding: the shift is (0.1 .. 1] * radius)
    cyl_eng = dmin if dmin is not None else gd["d01"]      # (the broad phase may drop the pair: then only mj_geomDistance shows it)
    cyl_sig = (cyl_zone and an is not None and 0.1 * g2["size"][0] <= an[0] - cyl_eng <= g2["size"][0] + TOL)
    if cyl_sig and len(fails) > cyl_mark:
        # cylinder axis along the plane normal: mjc_PlaneCylinder's test len_sqr >= mjMINVAL^2 lets rounding noise of length
        # ~1e-15 through, normalises it and shifts the contact by (almost) a full radius.  Signature: closed form - smallest
        # contact distance in (0.1, 1] * radius; only the distance / witness / fromto consequences are folded, everything else keeps its key
        folded = (":distance:", ":witness", ":geomdist-closedform:", ":geomdist-from:", ":geomdist-to:", ":geomdist-len:", ":spurious:")
        keep = [f for f in fails[cyl_mark:] if not any(t in f[0] for t in folded)]
        del fails[cyl_mark:]
        fails.extend(keep)
        fails.append((DEFECT_KEY_CYL, "plane-cylinder with the cylinder axis along the plane normal: contact distance %s, closed form %s "
                      "(shifted by up to the cylinder radius %.17g)" % (cyl_eng, an[0] if an else None, g2["size"][0])))
    # a capsule whose axis passes through the box / cylinder certainly penetrates it
    # (capsule-cylinder goes through the native CCD, which returns nothing for coincident centres: degenerate start, C15)
    if capbox_zone and (dmin is None or dmin > 1e-9):
        # the collider's answer is not about the real configuration: witness / direction findings are part of the same defect
        fails[:] = [f for f in fails if not any(t in f[0] for t in (":witness", ":geomdist-from", ":geomdist-to", ":geomdist-len", ":direction"))]
    if thru is not None and not (pair == (CAPSULE, CYLINDER) and (degen or illc)):
        if thru < -1e-6 and (dmin is None or dmin > 1e-9):
            fails.append((DEFECT_KEY_CAPBOX if pair == (CAPSULE, BOX) else "c13:sign:" + pname,
                          "%s: the capsule axis passes through the other geom (min SDF along the axis %.17g) but the smallest "
                          "contact distance is %s (not negative)" % (pname, thru, dmin)))
    return fails


def judge_frame(line, out, dev):
    v = [float(x) for x in line.split()[1:]]
    x, y = v[0:3], v[3:6]
    nx = norm(x)
    if out.startswith("error"):
        return [] if nx < 0.5 else [("c13:makeframe:error", "mju_makeFrame raised an error for |x| = %.3g >= 0.5" % nx)]
    if not out.startswith("ok "):
        return [("c13:bad-op", "well-formed F op rejected")]
    F = [float(t) for t in out.split()[1:]]
    fails = []
    if nx < 0.5:
        return [("c13:makeframe:noerror", "mju_makeFrame raised no error for |x| = %.3g < 0.5" % nx)]
    xn = [c / nx for c in x]
    yy = y if dot(y, y) >= 0.25 else ([0.0, 1.0, 0.0] if -0.5 < xn[1] < 0.5 else [0.0, 0.0, 1.0])
    res = norm(sub(yy, scl(xn, dot(xn, yy))))
    if abs(abs(xn[1]) - 0.5) < 1e-9 and dot(y, y) < 0.25:
        res = 0.5            # either fallback axis is fine at the switch point
    if res < 1e-6:
        return []            # precondition of makeFrame_orthonormal violated by the caller: nothing is claimed

    def chk(key, d, allowed, what):
        if not dev.see("makeFrame:" + key, d, allowed):
            fails.append(("c13:makeframe:" + key, "mju_makeFrame: %s (deviation %.3g > allowed %.3g)" % (what, d, allowed)))
    chk("firstaxis", max(abs(F[i] - xn[i]) for i in range(3)), 1e-12, "first axis is not x/|x|")
    frame_checks(F, chk, "makeFrame")
    return fails


def judge(line, out, dev):
    ntok = len(line.split())
    if line.startswith("S ") and ntok == 28:
        return judge_scene(line, out, dev)
    if line.startswith("F ") and ntok == 7:
        return judge_frame(line, out, dev)
    return [] if out == "bad-op" else [("c13:bad-op", "malformed op accepted")]


def run_oracle(ctx, impl, items, dev, max_report=12):
    lines = [l for l, _ in items]
    rc, outs, err = ctx.run_lines([impl], lines)
    if rc != 0 or len(outs) != len(lines):
        idx = min(len(outs), len(lines) - 1)
        return [{"key": "c13:crash", "what": "oracle harness crashed (rc=%s) at op %d" % (rc, idx),
                 "replay": {"line": lines[idx], "stderr": err[-300:]}}], 1, {}
    found, nfail, bykey = [], 0, {}
    for (l, meta), o in zip(items, outs):
        dev.cur = l
        try:
            fs = judge(l, o, dev)
        except Exception as e:   # a malformed output line is an implementation-side failure, not an infra error
            fs = [("c13:harness:output", "unparsable harness output (%s): %s" % (e, o[:200]))]
        must = meta.get("must_contact")
        if must and o.startswith("ok 0 "):
            fs.append(("c13:margin-boundary:%s-%s" % (TNAME[meta["pair"][0]], TNAME[meta["pair"][1]]),
                       "exactly representable configuration with true distance == margin + gap: no contact reported "
                       "(the margin tests are `>`: equality is inside the margin)"))
        ctx.count(l)
        if fs:
            nfail += 1
            for key, what in fs[:4]:
                bykey[key] = bykey.get(key, 0) + 1
                if bykey[key] <= (1 if key in DEFECT_KEYS else 2) and len(found) < max_report + 3:
                    found.append({"key": key, "what": what,
                                  "replay": {"line": l, "impl_output": o[:1500], "class": meta,
                                             "how": "echo '<line>' | <c13_contacts built from harness/c/c13_contacts.c by checks/c13.py>; "
                                                    "S t1 size1[3] pos1[3] quat1[4] margin1 gap1 t2 ... distmax (geom types: mjtGeom values)"}})
    # failures outside the three recorded defect classes first
    found.sort(key=lambda f: f["key"] in DEFECT_KEYS)
    return found[:max_report], nfail, bykey


def gen_items(ctx, nscene, nframe, hist):
    rng = ctx.rng
    items = []
    pairs = [(a, b) for i, a in enumerate(TYPES) for b in TYPES[i:] if not (a == PLANE and b == PLANE)]
    # every pair x every gap class at least once, then random
    for p in pairs:
        for cls in GAP_CLASSES:
            items.append(gen_scene(rng, p, cls))
    while len(items) < nscene:
        items.append(gen_scene(rng, rng.choice(pairs)))
    items += boundary_scenes(rng)
    items += defect_scenes(rng, 6)
    for l, m in items:
        k = "%s-%s:%s" % (TNAME[m["pair"][0]], TNAME[m["pair"][1]], m["cls"])
        hist[k] = hist.get(k, 0) + 1
        if m.get("special"):
            hist["special:" + m["special"]] = hist.get("special:" + m["special"], 0) + 1
    for _ in range(nframe):
        items.append((gen_frame_line(rng), {"pair": None, "cls": "makeFrame"}))
    items.append(("frob 1 2 3", {"cls": "malformed"}))
    items.append(("S 2 1 0 0", {"cls": "malformed"}))
    return items


# ------------------------------------------------------------------------------------------ translation-validation generators
def kv_collider(kind):
    def g(rng, inputs):
        names = [nm for nm, _ in inputs]
        cls = rng.choice(("pen", "touch", "sep", "coincident", "justin", "justout", "exact", "wild"))
        if cls == "wild":
            return kernelval.default_gen(rng, inputs)
        r1, r2 = rng.choice((0.1, 0.5, 1.0, 2.0, rng.uniform(0.01, 2))), rng.choice((0.1, 0.5, 1.0, 2.0, rng.uniform(0.01, 2)))
        margin = rng.choice((0.0, 0.0, 0.01, 0.1, 1.0, rng.uniform(0, 0.5)))
        m1, m2 = qmat(rand_quat(rng)), qmat(rand_quat(rng))
        p1 = [rng.uniform(-2, 2) for _ in range(3)]
        d = unit_vec(rng)
        ln = rng.choice((0.1, 0.5, 1.0, rng.uniform(0.01, 2)))
        gapv = {"pen": -rng.uniform(0, 1) * min(r1, r2), "touch": 0.0, "sep": margin + rng.uniform(0.001, 1), "coincident": 0.0,
                "justin": margin - 1e-9, "justout": margin + 1e-9, "exact": margin}[cls]
        if kind == "ss":
            s = r1 + r2 + gapv
            p2 = add(p1, scl(d, s))
            if cls == "coincident":
                p2 = list(p1) if rng.random() < 0.5 else add(p1, scl(d, rng.choice((1e-16, 1e-15, 2e-15, 1e-14))))
                if rng.random() < 0.3:
                    m2 = list(m1)          # parallel z axes: cross product vanishes -> (1,0,0)
            if cls == "exact":
                k = rng.choice((1.0, 0.5, 2.0))
                p1, p2, r1, r2, margin = [0.0, 0.0, 0.0], [3 * k, 4 * k, 0.0], 2 * k, 2 * k, k
        elif kind == "ps":
            n = col(m1, 2)
            p2 = add(add(p1, scl(cross(n, unit_vec(rng)), rng.uniform(-2, 2))), scl(n, r2 + gapv))
            if cls == "exact":
                m1 = qmat([1.0, 0.0, 0.0, 0.0])
                p1, p2, r2, margin = [0.0, 0.0, 0.0], [0.5, -0.25, 1.5], 1.0, 0.5
        else:  # sphere-capsule: place the sphere relative to a point of the (extended) axis
            a = col(m2, 2)
            t = rng.choice((0.0, ln, -ln, rng.uniform(-2 * ln, 2 * ln)))
            perp = cross(a, unit_vec(rng))
            pn = norm(perp)
            perp = [x / pn for x in perp] if pn > 1e-6 else cross(a, [1.0, 0.0, 0.0])
            p2 = [rng.uniform(-2, 2) for _ in range(3)]
            off = 0.0 if cls == "coincident" else r1 + r2 + gapv
            p1 = add(add(p2, scl(a, t)), scl(perp, off))
        vals = {"margin": margin, "size1_0": r1, "size2_0": r2, "size2_1": ln,
                "con0_dist": rng.uniform(-1, 1)}
        for i in range(3):
            vals["pos1_%d" % i], vals["pos2_%d" % i] = p1[i], p2[i]
            vals["con0_normal_%d" % i], vals["con0_pos_%d" % i], vals["con0_tangent_%d" % i] = rng.uniform(-1, 1), rng.uniform(-1, 1), rng.uniform(-1, 1)
        for i in range(9):
            vals["mat1_%d" % i], vals["mat2_%d" % i] = m1[i], m2[i]
        return [vals[nm] for nm in names]
    return g


def kv_makeframe(rng, inputs):
    w = gen_frame_line(rng).split()[1:]
    return [float(t) for t in w]


def kv_clamp(rng, inputs):
    lim = [rng.choice((0.0, -1.0, 0.5, 1.0, rng.uniform(0, 2))) for _ in range(3)]
    v = [rng.choice((lim[i], -lim[i], 0.0, rng.uniform(-3, 3))) for i in range(3)]
    return v + lim


# ------------------------------------------------------------------------------------------ entry point
def run(ctx):
    ctx.rule = ("two-geom scenes over all 20 primitive pairs (plane, sphere, capsule, ellipsoid, cylinder, box; geoms given in both "
                "orders) x gap classes {deep, shallow, touch, inmargin, justin, justout, far, coincident} placed with support functions, "
                "random / axis-aligned / shared / nearly-parallel orientations from unit quaternions, margins and gaps, plus exactly "
                "representable dist == margin configurations and the plane-capsule axis-parallel-to-normal class; direct mju_makeFrame "
                "ops (normals near the coordinate axes and the |x1| = 1/2 switch, zero / short / long tangent hints); translation "
                "validation cases per kernel from touching / separated / penetrating / coincident / just-inside / just-outside / exact "
                "margin classes; a case is distinct by its full token line")
    thorough = ctx.tier == "thorough"
    m = kernelval.regen(ctx)
    for k, why in REFUSED_BY_DESIGN.items():
        ctx.assumptions.append("not translated (%s): %s" % (k, why))
    ctx.lean_props(THEOREMS)
    gens = {"mjraw_SphereSphere": kv_collider("ss"), "mjraw_PlaneSphere": kv_collider("ps"),
            "mjraw_SphereCapsule": kv_collider("sc"), "mju_makeFrame": kv_makeframe, "mju_clampVec3": kv_clamp}
    kernelval.validate(ctx, m, KERNELS, 20000 if thorough else 1200, gens=gens, label="C13 colliders")
    ctx.extra["kernel_body_sha256"] = {n: m.get("kernels", {}).get(n, {}).get("sha256", "")[:16] for n in KERNELS}

    impl = ctx.harness("harness/c/c13_contacts.c", "c13_contacts")
    if not impl:
        return
    dev = Dev()
    hist = {}
    if getattr(ctx, "replay", None):
        rp = json.load(open(ctx.replay))
        items = [(f["replay"]["line"], f["replay"].get("class", {})) for f in rp.get("failures", []) if "line" in f.get("replay", {})]
        for it in items:
            if isinstance(it[1].get("pair"), list):
                it[1]["pair"] = tuple(it[1]["pair"])
    else:
        items = gen_items(ctx, 60000 if thorough else 2500, 20000 if thorough else 1500, hist)
    found, nfail, bykey = run_oracle(ctx, impl, items, dev)
    for f in found:
        ctx.oracle_failure(f["key"], f["what"], f["replay"])
    ctx.extra["oracle_checked"] = len(items)
    ctx.extra["oracle_failing_ops"] = nfail
    ctx.extra["oracle_failures_by_key"] = bykey
    ctx.extra["genuine_defect_keys"] = list(DEFECT_KEYS)
    ctx.extra["observations"] = {k: {"count": v[0], "first_op": v[1], "what": v[2]} for k, v in dev.info.items()}
    ctx.extra["oracle_input_classes"] = hist
    ctx.extra["oracle_max_deviation_over_allowed"] = {k: float("%.3g" % v) for k, v in sorted(dev.m.items())}
    for l, meta in items[:3]:
        ctx.sample({"oracle_op": l[:400]})

    def directed(c):
        # a proof / tie obligation broke and the sampled oracle found nothing: search harder on the real code
        d2 = Dev()
        for rnd in range(8):
            its = gen_items(c, 6000, 3000, {})
            fnd, _, _ = run_oracle(c, impl, its, d2, max_report=4)
            fnd = [f for f in fnd if f["key"] not in DEFECT_KEYS]
            if fnd:
                return fnd[0]
        return None
    ctx.directed_search = directed
    if thorough:
        ctx.leanchecker(["MjProof.Props.C13"])
