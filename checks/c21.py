"""C21  Allocation failure never causes undefined behaviour (DESIGN.md §5.C21)."""
import hashlib
import itertools
import os
import re

from . import common

META = {
    "technique": "Lean 4 proof (exhaustive case analysis over the fault oracle's answers, for all oracles Nat -> Bool and all "
                 "positive block sizes, of an alloc/test/use/free protocol interpreter) + exact differential correspondence "
                 "of the real allocator/handler event trace under fault injection through mju_user_malloc + leak / double-free "
                 "/ use-after-free oracle (page-granular blocks, freed blocks made PROT_NONE, forked children)",
    "text": "The heap protocol of mj_makeData (mj_makeRawData), mj_copyData, mj_copyModel and mj_loadModelBuffer (mj_makeModel), "
            "mj_saveModel to a file (temporary buffer + the mjVFS of mju_writeResource) and of the callers' mj_deleteData / "
            "mj_deleteModel is modelled as alloc/test/use/free programs with an oracle deciding which mju_malloc call fails, "
            "under a longjmp-ing and under a returning error handler. Proved for every oracle (all single and multi-fault "
            "sequences) and all positive sizes: with a longjmp handler no NULL or freed pointer is dereferenced, nothing is "
            "freed twice, and a failed allocation always reaches the error/warning handler with no object returned "
            "(longjmp_never_faults, failure_surfaces, never_double_free). 'No leak' is only PARTIAL for the tree: "
            "mju_malloc raises mju_error itself, so with a longjmp handler the callers' `if (!ptr) { free…; mjERROR }` "
            "blocks are dead and every block allocated earlier in the same function is leaked; asIs_longjmp_live_exact "
            "gives the leaked set exactly for every oracle, no_leak_partial is the part that holds (only the first "
            "allocation fails), *_leak_witness exhibit the leaks. For the proposed fix (non-raising allocation in these "
            "functions) tryMalloc_longjmp_clean proves the full property. Which variant the tree matches is decided on "
            "every run by the trace correspondence.",
    "note": "modelled: the five engine scenarios with nplugin = 0 and well-formed inputs (the size-validation early returns "
            "are not fault paths). NOT modelled, only exercised by the oracle: mj_compile through the mjSpec API (fresh spec "
            "built, compiled and deleted under the hooks, every k-th mju_malloc failing). NOT covered at all: C++ `new` / "
            "std::vector allocations of user_*.cc / xml_*.cc (they do not go through mju_malloc), src/xml (not built here), "
            "plugins, mjv/mjr scene allocation, the mju_malloc callers inside simulation (engine_util_solve boxQP "
            "allocators, engine_collision_continuous, engine_print). A *returning* error handler is documented by MuJoCo as "
            "undefined behaviour (doc/programming/simulation.rst: 'MuJoCo is written with the assumption that error "
            "handlers will not return'); the model proves and the harness confirms the NULL dereference / use after free "
            "that follows (returning_handler_faults*), but these are reported as observations in the evidence, not as "
            "violations (set RETURNING_HANDLER_IS_VIOLATION to change that).",
}

P = "MjProof.C21."
THEOREMS = [P + n for n in (
    "longjmp_never_faults", "failure_surfaces", "fault_free_run_clean", "asIs_longjmp_live_exact", "no_leak_partial",
    "makeData_leak_witness", "makeData_arena_leak_witness", "makeModel_leak_witness", "saveModel_leak_witness",
    "makeData_zero_arena", "tryMalloc_longjmp_clean", "returning_handler_faults", "returning_handler_faults_second",
    "never_double_free")]

RETURNING_HANDLER_IS_VIOLATION = False
LEAK_KEYS = {"c21:mj_makeRawData-leak-on-2nd-alloc-longjmp", "c21:mj_makeRawData-leak-on-3rd-alloc-longjmp",
             "c21:mj_makeModel-leak-on-2nd-alloc-longjmp", "c21:mju_writeResource-leak-on-vfs-alloc-longjmp"}

SCEN = {"makedata": ("data", "dbuf", "arena"), "copydata": ("data", "dbuf", "arena"), "copymodel": ("model", "mbuf"),
        "loadmodel": ("model", "mbuf"), "savemodel": ("save", "vfs")}
SITE = {"makedata": "mj_makeRawData", "copydata": "mj_makeRawData", "copymodel": "mj_makeModel", "loadmodel": "mj_makeModel",
        "savemodel": "mju_writeResource"}
ORD = {1: "2nd", 2: "3rd", 0: "1st"}


def small_models(rng, n):
    from gen.models import ModelGen
    out = [("pendulum", ["body 1 0", "set 1 pos 0 0 1", "joint 2 1", "set 2 type 3", "set 2 axis 0 1 0",
                         "geom 3 1", "set 3 type 2", "set 3 size 0.1 0 0", "set 3 pos 0 0 -0.3"])]
    for i in range(n - 1):
        mdl = ModelGen(rng, {"nbody": (1, 5), "memory": None}).make()
        out.append(("gen%d" % i, list(mdl.lines)))
    return out


MESH_MODEL = ["mesh 1", "name 1 msh", "makemesh 1 1 2", "body 2 0", "set 2 pos 0 0 1", "freejoint 3 2", "geom 4 2",
              "set 4 type 7", "set 4 meshname msh", "set 4 contype 0", "set 4 conaffinity 0",
              "geom 5 0", "set 5 type 0", "set 5 size 1 1 0.1"]


def parse_out(o):
    m = re.match(r"^trace=(\S*) out=(\S+) live=(\S+)(.*)$", o)
    if not m:
        return None
    ev = [e for e in m.group(1).split(",") if e]
    return {"ev": ev, "out": m.group(2), "live": m.group(3), "rest": m.group(4)}


def first_failed(ev):
    """0-based index (among mju_malloc calls) and size of the first failed call of positive size."""
    k = 0
    for e in ev:
        if e[0] == "a":
            k += 1
        elif e[0] == "x":
            if e != "x0":
                return k, int(e[1:])
            k += 1
    return None, None


def engine_oracle(scen, regime, o, extra_obs):
    """-> None or (key, what)."""
    r = parse_out(o)
    if r is None:
        return ("c21:harness", "unparsable harness output: " + o[:100])
    k, size = first_failed(r["ev"])
    site = SITE[scen]
    if any(e.startswith("DF") for e in r["ev"]) or "doublefree" in r["rest"]:
        return ("c21:%s-double-free-after-%s-alloc-failure-%s" % (site, ORD.get(k, str(k)), regime),
                "a block was freed twice (or a foreign pointer freed): " + o[:160])
    if r["out"] == "FAULT":
        kind = "null-deref" if k == 0 and scen != "savemodel" else ("null-deref" if scen == "savemodel" else "use-after-free")
        if regime == "longjmp":
            kind = "fault-after-%s-alloc-failure" % ORD.get(k, str(k))
        key = "c21:%s-%s-%s-handler" % (site, kind, regime)
        what = "%s: after the %s allocation failed the process died (NULL dereference / use of a freed block)" % (scen, ORD.get(k, str(k)))
        if regime == "returning" and not RETURNING_HANDLER_IS_VIOLATION:
            extra_obs[key] = extra_obs.get(key, 0) + 1
            return None
        return (key, what)
    if r["live"] not in ("-", "?"):
        which = "vfs" if scen == "savemodel" and k == 1 else ORD.get(k, str(k))
        if k is None:
            return ("c21:%s-leak-without-any-fault" % site, "%s: blocks {%s} are still allocated after a run in which no allocation failed" % (scen, r["live"]))
        # the recorded finding is: exactly the blocks the function allocated before the failing call stay allocated
        # (asIs_longjmp_live_exact); any other leaked set, regime or allocation gets a key of its own
        expected = ",".join(str(i) for i in range(1, k + 1))
        odd = "" if r["live"] == expected else "-unexpected-blocks-" + r["live"].replace(",", "+")
        return ("c21:%s-leak-on-%s-alloc-%s%s" % (site, which, regime, odd),
                "%s with a %s handler: the %s mju_malloc call (%s bytes) fails and the blocks with call ids {%s} are never "
                "freed (mju_malloc raises mju_error itself, the caller's clean-up branch is not reached)"
                % (scen, regime, ORD.get(k, str(k)), size, r["live"]))
    if k is not None and not any(e in ("E", "W") for e in r["ev"]):
        return ("c21:%s-silent-failure" % site, "an allocation failed but neither the error nor the warning handler was called: " + o[:160])
    return None


def run(ctx):
    thorough = ctx.tier == "thorough"
    rng = ctx.rng
    ctx.rule = ("op = (scenario, handler regime, set of failing mju_malloc call indices) on a model; engine scenarios: every "
                "subset of {0..n} (n = number of calls of the scenario; exhaustive, so every single and multi fault) plus "
                "seeded random index sets reaching past n; compile scenario: every k in a fault-free run's call count (quick: "
                "capped) plus seeded pairs; each op runs in a forked child; distinct by full op line; non-trivial = at least "
                "one failing index")
    import time as _t
    _t0 = _t.time()
    ctx.lean_props(THEOREMS)
    ctx.extra["lean_props_s(incl. waiting for the shared lake lock)"] = round(_t.time() - _t0, 1)
    drv = ctx.driver("drv_c21")
    impl = ctx.harness("harness/c/c21_allocfail.c", "c21_allocfail", deps=["harness/mjbuild.h"])
    if not (drv and impl):
        return
    cdir = os.path.join(common.CACHE, "c21")
    os.makedirs(cdir, exist_ok=True)
    models = small_models(rng, 6 if thorough else 2) + [("meshbody", MESH_MODEL)]
    obs, seen_keys = {}, {}
    variant_votes = {"asis": 0, "trymalloc": 0, "neither": 0}
    nops = ncomp = 0
    hist = {}
    import time
    tm = {"harness": 0.0, "model": 0.0}
    for name, lines in models:
        lines = ["spec memory 2097152"] + lines   # a small arena: its size is irrelevant here, forking is cheaper
        mfile = os.path.join(cdir, "m_%s.txt" % hashlib.md5("\n".join(lines).encode()).hexdigest()[:12])
        with open(mfile, "w") as f:
            f.write("\n".join(lines) + "\nend\n")
        cmd = [impl, "--model", mfile]
        rc, out, err = ctx.run_lines(cmd, ["sizes"])
        if rc != 0 or not out or not out[0].startswith("sizes "):
            raise common.Infra("c21 harness could not load model %s: %s" % (name, err[-300:]))
        sz = dict(kv.split("=") for kv in out[0].split()[1:])
        # ---- engine scenarios: exhaustive subsets + seeded random multi-fault sets
        ops = []
        for scen, roles in SCEN.items():
            n = len(roles)
            sizes = " ".join(sz[r] for r in roles)
            sets = [fs for k in range(n + 2) for fs in itertools.combinations(range(n + 1), k)]
            for _ in range(40 if thorough else 6):
                sets.append(tuple(sorted(rng.sample(range(n + 4), rng.randint(1, 3)))))
            for regime in ("longjmp", "returning"):
                for fs in sets:
                    # every faulting run under a returning handler kills a child: quick keeps the single faults and pairs
                    if regime == "returning" and not thorough and len(fs) > 2:
                        continue
                    ops.append((scen, regime, ",".join(map(str, fs)) or "-", sizes))
        probe = [o for o in ops if o[1] == "longjmp" and o[2] in ("1", "0,1")]
        def mk(o, v):
            return "run %s %s %s %s | %s" % (o[0], o[1], v, o[2], o[3])
        rc, pi, _ = ctx.run_lines(cmd, [mk(o, "asis") for o in probe])
        variant = "asis"
        if rc == 0 and len(pi) == len(probe):
            for v in ("asis", "trymalloc"):
                rc2, pm, _ = ctx.run_lines([drv], [mk(o, v) for o in probe])
                if rc2 == 0 and pm == pi:
                    variant = v
                    variant_votes[v] += 1
                    break
            else:
                variant_votes["neither"] += 1
        lines_v = [mk(o, variant) for o in ops] + ["run makedata sideways asis - | 1 2 3", "frob"]
        nops += len(lines_v)
        t0 = time.time()
        rc, outs, err = ctx.run_lines(cmd, lines_v)
        tm["harness"] += time.time() - t0
        # the harness output is computed once; the correspondence compares exactly these lines with the model's
        ofile = mfile + ".out"
        with open(ofile, "w") as f:
            f.write("".join(o + "\n" for o in outs))
        ctx.differential("alloc/free/handler trace of the real life-cycle functions vs the Lean protocol model (%s, variant %s)"
                         % (name, variant), [drv], ["cat", ofile] if rc == 0 else cmd, lines_v,
                         keyf=lambda l: l if re.search(r" \d[\d,]* \|", l) else None)
        os.remove(ofile)
        if rc != 0 or len(outs) != len(lines_v):
            ctx.oracle_failure("c21:harness-crash", "c21 harness died (rc=%s)" % rc, {"model": name, "stderr": err[-300:]})
        else:
            for o, l, res in zip(ops, lines_v, outs):
                hk = "%s/%s/%s" % (o[0], o[1], (parse_out(res) or {}).get("out"))
                hist[hk] = hist.get(hk, 0) + 1
                r = engine_oracle(o[0], o[1], res, obs)
                if r:
                    seen_keys.setdefault(r[0], []).append({"what": r[1], "model": name, "description": lines, "op": l, "impl_output": res[:300]})
            ctx.sample({"op": lines_v[5], "impl_and_model_output": outs[5][:200]})
        # ---- compile through the mjSpec API (oracle only)
        rc, out, err = ctx.run_lines(cmd, ["run compile longjmp asis -"])
        base = parse_out(out[0]) if rc == 0 and out else None
        if not base or base["out"] != "returned" or base["live"] != "-" or "err=0" not in base["rest"]:
            ctx.oracle_failure("c21:mj_compile-fault-free-run-not-clean", "compile/delete without any fault is not clean: %s" % (out[:1],),
                               {"model": name, "description": lines, "op": "run compile longjmp asis -", "impl_output": (out or [""])[0][:300],
                                "replay": "write the description (+ a final line 'end') to a file F; echo '<op>' | c21_allocfail --model F"})
        else:
            ncall = sum(1 for e in base["ev"] if e[0] in "ax")
            ks = list(range(ncall + 1))
            if not thorough and len(ks) > 40:
                ks = sorted(rng.sample(ks, 40))
            cl = ["run compile longjmp asis %d" % k for k in ks]
            for _ in range(60 if thorough else 6):
                a, b = sorted(rng.sample(range(ncall + 2), 2))
                cl.append("run compile longjmp asis %d,%d" % (a, b))
            cl += ["run compile returning asis %d" % k for k in ks[: (len(ks) if thorough else 6)]]
            ncomp += len(cl)
            t0 = time.time()
            rc, couts, err = ctx.run_lines(cmd, cl)
            tm["harness"] += time.time() - t0
            inv = {v: k for k, v in sz.items()}
            for l, res in zip(cl, couts):
                ctx.count(("compile", name, l), nontrivial=True)
                r = parse_out(res)
                hk = "compile/%s" % ((r or {}).get("out"))
                hist[hk] = hist.get(hk, 0) + 1
                rep = {"model": name, "description": lines, "op": l, "impl_output": res[:400]}
                if r is None:
                    seen_keys.setdefault("c21:harness", []).append(dict(rep, what="unparsable: " + res[:80]))
                    continue
                k, size = first_failed(r["ev"])
                role = inv.get(str(size), None)
                if r["out"] == "FAULT":
                    seen_keys.setdefault("c21:mj_compile-fault", []).append(dict(rep, what="mj_compile (or building / deleting the spec) died when the %s-th mju_malloc call failed" % k))
                elif any(e.startswith("DF") for e in r["ev"]):
                    seen_keys.setdefault("c21:mj_compile-double-free-after-failed-%s-alloc" % (role or "%s-byte" % size), []).append(
                        dict(rep, what="double free during compile with a failing allocation"))
                elif r["live"] != "-":
                    # the same call sites as the engine scenarios, reached through TryCompile: the recorded finding is that
                    # exactly the struct (and buffer) allocated just before the failing call stay allocated
                    exp = {"mbuf": [k], "dbuf": [k], "arena": [k - 1, k]}.get(role)
                    site = {"mbuf": "c21:mj_makeModel-leak-on-2nd-alloc-longjmp", "dbuf": "c21:mj_makeRawData-leak-on-2nd-alloc-longjmp",
                            "arena": "c21:mj_makeRawData-leak-on-3rd-alloc-longjmp"}.get(role)
                    # (mj_compile installs its own longjmp-ing log handler: the regime of the global handler is irrelevant here)
                    if site is None or r["live"] != ",".join(map(str, exp)):
                        site = "c21:mj_compile-leak-of-blocks-%s-after-failed-%s-alloc" % (r["live"].replace(",", "+"), role or "%s-byte" % size)
                    seen_keys.setdefault(site, []).append(dict(rep, what="mj_compile: the mju_malloc call #%s (%s bytes, %s) fails; the compiler reports "
                                                               "the error but the blocks with call ids {%s} are never freed" % (k, size, role or "?", r["live"])))
                elif k is not None and "err=0" in r["rest"]:
                    seen_keys.setdefault("c21:mj_compile-silent-failure", []).append(dict(rep, what="an allocation failed but mj_compile returned a model"))
                elif "err=2" in r["rest"]:
                    seen_keys.setdefault("c21:mj_compile-failure-without-message", []).append(dict(rep, what="mj_compile returned NULL with an empty error"))
        try:
            os.remove(mfile)
        except OSError:
            pass
    for key, fl in seen_keys.items():
        f = fl[0]
        ctx.oracle_failure(key, f["what"], {"model": f["model"], "description": f["description"], "op": f["op"], "impl_output": f["impl_output"],
                                            "occurrences_this_run": len(fl),
                                            "replay": "write the description (+ a final line 'end') to a file F; echo '<op>' | c21_allocfail --model F"})
    variant = "trymalloc" if variant_votes["trymalloc"] and not variant_votes["asis"] and not variant_votes["neither"] else \
        ("asis" if variant_votes["asis"] and not variant_votes["neither"] else "unknown")
    ctx.extra["variant_matched_by_the_tree"] = variant
    ctx.oblige("the tree's life-cycle functions match the non-raising variant (tryMalloc_longjmp_clean = the full property applies); "
               "with the as-is variant only no_leak_partial / asIs_longjmp_live_exact hold", "theorem-applicability",
               variant == "trymalloc" or (variant == "asis" and LEAK_KEYS <= {k["key"] for k in ctx.known()}),
               "variant votes: %s (the as-is variant is accepted only when all of %s are recorded known findings)" % (variant_votes, sorted(LEAK_KEYS)))
    ctx.extra["timing_s"] = {k: round(v, 1) for k, v in tm.items()}
    ctx.extra["engine_ops"] = nops
    ctx.extra["compile_ops"] = ncomp
    ctx.extra["outcome_histogram"] = dict(sorted(hist.items()))
    ctx.extra["returning_handler_observations(documented undefined behaviour, not counted)"] = obs
    ctx.extra["not_covered"] = "C++ new/std::vector in user_*.cc, src/xml, plugins, mjv/mjr, mju_malloc callers inside simulation"
    if thorough:
        ctx.leanchecker(["MjProof.Props.C21"])
