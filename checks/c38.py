"""C38  The asset cache behaves as a bounded priority cache (DESIGN.md §5.C38)."""
import hashlib
import itertools
import os
import re

from checks import common

# this check never reads lean/MjProof/Gen: no generated-code lock needed
USES_GEN = False

META = {
    "technique": "Lean 4 proof (invariant by induction over every operation history, loop invariants for RemoveModel/Reset/Trim) + exact differential correspondence of full internal state dumps with the real mjCCache + transition oracle on the real class + syntactic lock-discipline scan",
    "text": "mjCCache (Insert, PopulateData, HasAsset, DeleteAsset, RemoveModel, Reset(model), Reset(), SetCapacity/Trim) is modelled as an executable Lean state machine with size_t wrap-around on byte counts. Proved for every operation history from the empty cache (byte counts and capacities < 2^63): size = sum of held asset sizes, size <= capacity, asset ids unique, insertion numbers unique, models_ and per-asset reference sets mutually consistent, no undefined behaviour (empty-queue dereference / dangling asset pointer) is reached; a lookup hit returns exactly the data of the most recent storing insert of that id and only when the resource timestamp equals the cached one; Trim evicts a prefix of the (access count, insertion number) order and stops as soon as the size fits; RemoveModel keeps every asset that another model still references (with unchanged data) and drops the others. The hand-written model is tied to the tree by replaying the same op lines through the real class (linked from the from-source build) and comparing complete canonical state dumps (size, capacity, counter, every asset field, priority-queue order, model tables) exactly: exhaustive histories over 2 models x 3 ids x 3 sizes x 2 timestamps (full alphabet to length 2/3, sub-alphabets and two fixed eviction/sharing alphabets to length 5/6) and seeded random long histories; an oracle evaluates the property predicates on every transition of the real class alone (size = recomputed sum, size <= capacity, queue order, cross references, lookup results against the last storing insert, minimal-prefix eviction, survival of shared assets). Concurrency: proved for sequential histories only; a scan of user_cache.{h,cc} checks that every public method holds the single std::mutex for its whole body (lock_guard first statement, private helpers lock-free and only reachable from members), so concurrent histories linearise in lock-acquisition order to the sequential model; a multi-threaded stress run checks the final state against the invariant and every concurrent hit against the version asked for (thorough tier also replays the random streams on the address/UB-sanitizer build).",
    "note": "entries_ (the std::set priority queue) is not stored in the model: it is represented by the asset list ordered by (access, insertNum); its agreement with lookup_ is covered by the correspondence of the dumped queue order and pointer-liveness checks in the harness, not by a theorem. Asset pointers are represented by ids; sets are duplicate-free lists (proved: rep_run and the invariant). Counters insert_num_/access_count_ are unbounded naturals in the model. Linearisability rests on the syntactic lock scan plus the C++ memory model, not on a Lean theorem; the lifetime of the string pointer returned by HasAsset after the lock is released is outside the model. The resource `modified` callback is provider-defined: modelled for a provider that compares timestamps and for a provider-less resource (always modified).",
}

P = "MjProof.C38."
THEOREMS = [P + t for t in (
    "inv_empty",
    "inv_step",
    "inv_run",
    "size_eq_sum",
    "size_le_capacity",
    "ids_unique",
    "insert_nums_unique",
    "refs_consistent",
    "no_ub",
    "rep_run",
    "lookup_hit_iff",
    "lookup_latest_unmodified",
    "lookup_coherent",
    "trim_inv",
    "trim_evicts_min",
    "trim_stops_early",
    "removeModel_keeps_shared",
    "removeModel_drops_unshared",
    "removeModel_keeps_unrelated",
)]

W = 1 << 64
HALF = 1 << 63


# ------------------------------------------------------------------------------------------ generators
def content(i, ts):
    return i * 1000 + ts


def alphabet(models, ids, sizes, tss, caps, coherent=True):
    ops = []
    for m in models:
        for i in ids:
            for ts in tss:
                for sz in sizes:
                    d = content(i, ts) if coherent else (m * 7 + sz)
                    ops.append("ins %d %d %d %d %d" % (m, i, ts, d, sz))
    for i in ids:
        for ts in tss:
            ops.append("pop %d %d" % (i, ts))
        ops.append("del %d" % i)
    ops.append("popn %d" % ids[0])
    for m in models:
        ops.append("rm %d" % m)
        ops.append("rst %d" % m)
    ops.append("clr")
    for c in caps:
        ops.append("cap %d" % c)
    return ops


def random_op(rng, nm, ni, sizes, tss, capmax, coherent):
    k = rng.random()
    i = rng.randrange(ni)
    m = rng.randrange(nm)
    ts = rng.choice(tss)
    if k < 0.42:
        sz = rng.choice(sizes)
        d = content(i, ts) if coherent else rng.randrange(50)
        return "ins %d %d %d %d %d" % (m, i, ts, d, sz)
    if k < 0.66:
        return "pop %d %d" % (i, ts)
    if k < 0.68:
        return "popn %d" % i
    if k < 0.72:
        return "has %d" % i
    if k < 0.79:
        return "del %d" % i
    if k < 0.87:
        return "rm %d" % m
    if k < 0.91:
        return "rst %d" % m
    if k < 0.925:
        return "clr"
    return "cap %d" % rng.randrange(capmax + 1)


def gen_histories(ctx, exhaustive=True):
    """Returns list of (stream, coherent, [lines]) ; every history starts with `new CAP`."""
    hs = []
    scopes = []
    if exhaustive:
        gen_exhaustive(ctx, hs, scopes)
        ctx.extra["exhaustive_small_scope"] = scopes
    gen_random(ctx, hs)
    return hs


def gen_exhaustive(ctx, hs, scopes):
    rng = ctx.rng
    thorough = ctx.tier == "thorough"
    # (a) exhaustive over the full alphabet
    full = alphabet((0, 1), (0, 1, 2), (1, 3, 5), (0, 1), (0, 4, 6))
    L = 3 if thorough else 2
    for h in itertools.product(full, repeat=L):
        hs.append(("exh-full", True, ["new 6"] + list(h)))
    scopes.append("all %d^%d histories of length %d over the full alphabet (2 models x 3 ids x 3 sizes x 2 timestamps inserts, "
                  "lookups, deletes, model removals/resets, clear, 3 capacities), capacity 6" % (len(full), L, L))
    # (b) exhaustive longer histories over random sub-alphabets (always a few inserts sharing ids, a lookup, a removal)
    nsub = 4 if thorough else 3
    L2 = 6 if thorough else 5
    K = 6
    for s in range(nsub):
        coherent = s % 3 != 2
        al = alphabet((0, 1), (0, 1, 2), (1, 3, 5), (0, 1), (0, 2, 4, 6), coherent)
        ins = [o for o in al if o.startswith("ins")]
        other = [o for o in al if not o.startswith("ins")]
        i0 = rng.choice(ins)
        same_id = [o for o in ins if o.split()[2] == i0.split()[2] and o != i0]
        sub = [i0, rng.choice(same_id), rng.choice(ins)]
        sub.append(rng.choice([o for o in other if o.startswith("pop ")]))
        sub.append(rng.choice([o for o in other if o.split()[0] in ("rm", "rst", "del", "cap")]))
        while len(sub) < K:
            o = rng.choice(other if rng.random() < 0.6 else ins)
            if o not in sub:
                sub.append(o)
        cap = rng.choice((4, 6, 8, 9))
        for h in itertools.product(sub, repeat=L2):
            hs.append(("exh-sub%d" % s, coherent, ["new %d" % cap] + list(h)))
        scopes.append("all %d^%d histories over sub-alphabet %s, capacity %d" % (K, L2, sub, cap))
    # (b') fixed alphabets aimed at the eviction order and at assets shared between models
    evict = ["ins 0 0 0 0 1", "ins 0 1 0 1000 3", "ins 1 2 0 2000 1", "pop 0 0", "pop 1 0", "cap 2", "cap 6"]
    share = ["ins 0 0 0 0 1", "ins 1 0 0 0 1", "ins 1 0 1 1 3", "ins 0 1 0 1000 3", "rm 0", "rm 1", "rst 1", "del 0"]
    for name, al, L3 in (("exh-evict", evict, 6 if thorough else 5), ("exh-share", share, 5 if thorough else 4)):
        for h in itertools.product(al, repeat=L3):
            hs.append((name, True, ["new 6"] + list(h)))
        scopes.append("all %d^%d histories over the fixed alphabet %s, capacity 6" % (len(al), L3, al))


def gen_random(ctx, hs):
    rng = ctx.rng
    thorough = ctx.tier == "thorough"
    # (c) seeded random long histories
    nrand = 1500 if thorough else 80
    hist = {}
    for r in range(nrand):
        coherent = rng.random() < 0.7
        nm = rng.choice((1, 2, 3, 4))
        ni = rng.choice((2, 3, 4, 6))
        sizes = rng.choice(((1, 2, 3), (1, 3, 5), (0, 1, 7), (2, 2, 2), (1, 10, 100)))
        tss = rng.choice(((0, 1), (0, 1, 2), (5,)))
        cap = rng.choice((0, 1, 5, 6, 10, 16, 50, 200))
        n = rng.choice((20, 60, 200, 400)) if thorough else rng.choice((20, 60, 150))
        lines = ["new %d" % cap]
        for _ in range(n):
            lines.append(random_op(rng, nm, ni, sizes, tss, max(cap, 4), coherent))
        hs.append(("random", coherent, lines))
        k = "models=%d ids=%d cap=%d" % (nm, ni, cap)
        hist[k] = hist.get(k, 0) + 1
    ctx.extra["random_distribution"] = dict(sorted(hist.items(), key=lambda kv: -kv[1])[:25])
    # (d) large byte counts just below 2^63 (still inside the proved precondition)
    for r in range(40 if thorough else 10):
        cap = HALF - 1 - rng.randrange(3)
        lines = ["new %d" % cap]
        for _ in range(30):
            o = random_op(rng, 2, 3, (cap, cap - 1, cap // 2, cap // 2 + 1, 1), (0, 1), 4, True)
            if o.startswith("cap"):
                o = "cap %d" % rng.choice((cap, cap // 2, HALF - 1, 0))
            lines.append(o)
        hs.append(("big", True, lines))


def gen_wrap(ctx):
    """size_t wrap-around: outside the proved precondition; differential only (shows the model is exact there)."""
    rng = ctx.rng
    out = []
    for r in range(30):
        lines = ["new %d" % rng.choice((5, 10, W - 1, HALF))]
        for _ in range(12):
            k = rng.random()
            if k < 0.6:
                sz = rng.choice((W - 1, W - 2, W - 5, HALF, HALF + 1, 1, 3))
                lines.append("ins %d %d %d 1 %d" % (rng.randrange(2), rng.randrange(3), rng.randrange(2), sz))
            elif k < 0.8:
                lines.append("del %d" % rng.randrange(3))
            else:
                lines.append("cap %d" % rng.choice((W - 1, HALF, 7, 0)))
        out += lines
    return out


MALFORMED = ["frob 1 2", "ins 1 2 3", "ins 0 0 0 0 -1", "pop 01 0", "cap 18446744073709551616", "new", "new x", "del",
             "ins 0 0 0 0 1 1", "clr 1", "rm a", "pop 1", ""]


# ------------------------------------------------------------------------------------------ oracle
ASSET = re.compile(r"^(\d+):(\d+):(\d+):(\d+):(\d+):(\d+):\[([\d,]*)\]$")


def parse(out):
    """'r=X | cap=.. size=.. num=.. ub=.. | assets: .. | entries: .. | models: ..' -> (res, state) or None."""
    parts = out.split(" | ")
    if len(parts) != 5 or not parts[0].startswith("r="):
        return None
    try:
        hd = dict(kv.split("=") for kv in parts[1].split())
        st = {"cap": int(hd["cap"]), "size": int(hd["size"]), "num": int(hd["num"]), "ub": int(hd["ub"]), "assets": {},
              "dup": False}
        body = parts[2][len("assets:"):].split()
        for tok in body:
            m = ASSET.match(tok)
            if not m:
                return None
            i = int(m.group(1))
            if i in st["assets"]:
                st["dup"] = True
            st["assets"][i] = {"ts": int(m.group(2)), "size": int(m.group(3)), "access": int(m.group(4)),
                               "num": int(m.group(5)), "data": int(m.group(6)),
                               "refs": frozenset(int(x) for x in m.group(7).split(",") if x)}
        st["entries"] = [int(x) for x in parts[3][len("entries:"):].split()]
        st["models"] = {}
        for tok in parts[4][len("models:"):].split():
            k, v = tok.split(":")
            if not (v.startswith("[") and v.endswith("]")) or int(k) in st["models"]:
                return None
            st["models"][int(k)] = frozenset(int(x) for x in v[1:-1].split(",") if x)
    except (ValueError, KeyError):
        return None
    return parts[0][2:], st


def check_inv(st):
    A = st["assets"]
    if st["ub"]:
        return "undefined-behaviour flag"
    if st["dup"]:
        return "asset ids are not unique"
    if st["size"] != sum(a["size"] for a in A.values()):
        return "Size() differs from the sum of the held asset sizes"
    if st["size"] > st["cap"]:
        return "Size() exceeds the capacity"
    nums = [a["num"] for a in A.values()]
    if len(set(nums)) != len(nums):
        return "insertion numbers are not unique"
    if any(n >= st["num"] for n in nums):
        return "an asset's insertion number is not below the running counter"
    want = [i for i, a in sorted(A.items(), key=lambda kv: (kv[1]["access"], kv[1]["num"]))]
    if st["entries"] != want:
        return "priority queue is not the held assets in (access count, insertion number) order"
    for m, ids in st["models"].items():
        for i in ids:
            if i not in A or m not in A[i]["refs"]:
                return "a model references an asset that does not reference the model"
    for i, a in A.items():
        for m in a["refs"]:
            if i not in st["models"].get(m, ()):
                return "an asset references a model whose table does not list the asset"
    return None


def strip_state(st):
    return (st["cap"], st["size"], st["num"], st["assets"], st["models"])


def check_transition(w, res, pre, post, shadow, coherent):
    """Property predicates on one transition of the real cache (pre/post are its own dumps)."""
    A, B = pre["assets"], post["assets"]
    op = w[0]
    a = [int(x) for x in w[1:]]
    if op != "cap" and post["cap"] != pre["cap"]:
        return "capacity changed by an operation other than SetCapacity"
    if op == "ins":
        m, i, ts, d, sz = a
        if res == "0":
            if pre["size"] - (A[i]["size"] if i in A else 0) + sz <= pre["cap"]:
                return "Insert rejected an asset that fits into the capacity"
            return None if strip_state(pre) == strip_state(post) else "rejected Insert changed the cache"
        if res != "1":
            return "Insert returned neither true nor false"
        if i not in B or m not in B[i]["refs"]:
            return "accepted Insert did not leave the asset referenced by the model"
        if any(B.get(j) != A[j] for j in A if j != i) or any(j not in A for j in B if j != i):
            return "Insert changed another asset"
        if i not in A or A[i]["ts"] != ts:
            if (B[i]["ts"], B[i]["data"], B[i]["size"]) != (ts, d, sz):
                return "Insert of a new or modified asset did not store the inserted data"
            shadow[i] = (ts, d)
        elif (B[i]["ts"], B[i]["data"], B[i]["size"]) != (A[i]["ts"], A[i]["data"], A[i]["size"]):
            return "Insert with an unchanged timestamp replaced the cached data"
        return None
    if op in ("pop", "popn"):
        i = a[0]
        rts = a[1] if op == "pop" else None
        if res == "-":
            if strip_state(pre) != strip_state(post):
                return "failed lookup changed the cache"
            if i in A and rts is not None and A[i]["ts"] == rts:
                return "lookup missed an unmodified cached asset"
            return None
        if rts is None:
            return "lookup with a provider-less (always modified) resource hit"
        d = int(res)
        if i not in A or A[i]["ts"] != rts:
            return "lookup hit although the asset is absent or modified"
        if d != A[i]["data"] or shadow.get(i) != (rts, d):
            return "lookup did not return the most recently inserted data"
        if coherent and d != content(i, rts):
            return "lookup returned data of another asset version"
        exp = dict(A)
        exp[i] = dict(A[i], access=A[i]["access"] + 1)
        if B != exp or post["models"] != pre["models"] or post["size"] != pre["size"]:
            return "lookup hit changed more than the access count"
        return None
    if op == "has":
        want = str(A[a[0]]["ts"]) if a[0] in A else "-"
        if res != want:
            return "HasAsset returned a wrong timestamp"
        return None if strip_state(pre) == strip_state(post) else "HasAsset changed the cache"
    if op == "del":
        exp = {j: x for j, x in A.items() if j != a[0]}
        return None if B == exp else "DeleteAsset did not remove exactly the given asset"
    if op == "rm":
        m = a[0]
        exp = {}
        for j, x in A.items():
            r = x["refs"] - {m}
            if r:
                exp[j] = dict(x, refs=r)
        if any(j not in B for j in exp):
            return "RemoveModel dropped an asset still referenced by a remaining model"
        if B != exp:
            return "RemoveModel kept an unreferenced asset or changed a surviving one"
        return None if m not in post["models"] else "RemoveModel left the model table entry"
    if op == "rst":
        m = a[0]
        exp = {j: x for j, x in A.items() if m not in x["refs"]}
        return None if B == exp and m not in post["models"] else "Reset(model) did not wipe exactly the model's assets"
    if op == "clr":
        return None if (not B and post["size"] == 0 and post["num"] == 0 and not post["models"]) else "Reset() left data behind"
    if op == "cap":
        if post["cap"] != a[0]:
            return "SetCapacity did not set the capacity"
        order = sorted(A.items(), key=lambda kv: (kv[1]["access"], kv[1]["num"]))
        size = pre["size"]
        k = 0
        while size > a[0] and k < len(order):
            size -= order[k][1]["size"]
            k += 1
        exp = dict(order[k:])
        return None if B == exp else "Trim did not evict the minimal prefix of the (access count, insertion number) order"
    return "unknown op"


def oracle_history(lines, outs, coherent):
    """Returns None or (index, what)."""
    pre = None
    shadow = {}
    for k, (l, o) in enumerate(zip(lines, outs)):
        w = l.split()
        pr = parse(o)
        if pr is None:
            return k, "unparsable state dump: " + o[:120]
        res, st = pr
        why = check_inv(st)
        if why is None and w[0] == "new":
            if st["assets"] or st["size"] or st["cap"] != int(w[1]):
                why = "fresh cache is not empty"
            shadow = {}
        elif why is None:
            why = check_transition(w, res, pre, st, shadow, coherent)
        # forget shadow entries of assets that are gone
        for i in list(shadow):
            if i not in st["assets"]:
                del shadow[i]
        if why:
            return k, why
        pre = st
    return None


# ------------------------------------------------------------------------------------------ lock discipline
def matching_brace(s, i):
    d = 0
    for j in range(i, len(s)):
        if s[j] == "{":
            d += 1
        elif s[j] == "}":
            d -= 1
            if d == 0:
                return j
    return -1


def strip_cxx_comments(s):
    s = re.sub(r"/\*.*?\*/", "", s, flags=re.S)
    return re.sub(r"//[^\n]*", "", s)


def lock_scan(ctx):
    hp = os.path.join(common.REPO, "src/user/user_cache.h")
    cp = os.path.join(common.REPO, "src/user/user_cache.cc")
    try:
        h = strip_cxx_comments(open(hp).read())
        c = strip_cxx_comments(open(cp).read())
    except OSError as e:
        ctx.oblige("lock discipline: sources readable", "tables", False, str(e))
        return
    m = re.search(r"class\s+mjCCache\s*\{", h)
    if not m:
        ctx.oblige("lock discipline: class mjCCache found", "tables", False, "")
        return
    body = h[m.end() - 1: matching_brace(h, m.end() - 1) + 1]
    # split the class body into access sections
    secs = re.split(r"\b(public|private|protected)\s*:", body)
    access = {"public": "", "private": "", "protected": ""}
    cur = "private"
    for tok in secs:
        if tok in access:
            cur = tok
        else:
            access[cur] += tok
    decl = re.compile(r"([A-Za-z_]\w*)\s*\([^;{}]*\)\s*(const)?\s*(=\s*(?:delete|default))?\s*(;|\{|:)")
    pub = {d.group(1) for d in decl.finditer(access["public"]) if d.group(1) not in ("mjCCache", "operator")}
    priv = {d.group(1) for d in decl.finditer(access["private"])}
    ctx.oblige("lock discipline: public interface is the modelled one", "tables",
               pub == {"SetCapacity", "HasAsset", "Insert", "PopulateData", "DeleteAsset", "RemoveModel", "Reset",
                       "Capacity", "Size"} and priv == {"Delete", "Trim"} and not access["protected"].strip(),
               "public=%s private=%s" % (sorted(pub), sorted(priv)))
    ctx.oblige("lock discipline: exactly one std::mutex member, private; no friends; no public data members", "tables",
               len(re.findall(r"std::(?:\w+_)?mutex\s+\w+\s*;", body)) == 1
               and re.search(r"mutable\s+std::mutex\s+mutex_\s*;", access["private"]) is not None
               and "friend" not in body
               and not re.search(r"\b[\w:<>,\s\*]+\s+\w+_\s*(=[^;]*)?;", access["public"]),
               "")
    # public methods defined inline in the header must not touch state (only the constructor initialiser may)
    inline_pub = [d.group(1) for d in decl.finditer(access["public"]) if d.group(4) in ("{", ":")]
    ctx.oblige("lock discipline: no public method body in the header besides the constructor", "tables",
               inline_pub == [] or set(inline_pub) <= {"mjCCache"}, str(inline_pub))
    defs = []
    for d in re.finditer(r"mjCCache::(\w+)\s*\(([^)]*)\)\s*(const)?\s*\{", c):
        j = matching_brace(c, d.end() - 1)
        defs.append((d.group(1), c[d.end():j]))
    seen = {n for n, _ in defs}
    ctx.oblige("lock discipline: every declared method is defined in user_cache.cc", "tables",
               seen == (pub | priv), "defined=%s" % sorted(seen))
    lock = re.compile(r"^\s*std::lock_guard\s*<\s*std::mutex\s*>\s+\w+\s*\(\s*mutex_\s*\)\s*;")
    bad = []
    for n, b in defs:
        has = lock.match(b) is not None
        nlocks = len(re.findall(r"lock_guard|unique_lock|scoped_lock|mutex_\s*\.\s*(?:lock|unlock|try_lock)", b))
        if n in pub and not (has and nlocks == 1):
            bad.append(n + ": public method does not start with the lock_guard (or locks more than once)")
        if n in priv and nlocks:
            bad.append(n + ": private helper takes the (non-recursive) mutex")
        if n in pub:
            for other in pub:
                if re.search(r"(?<![\w>.:])%s\s*\(" % other, b):
                    bad.append(n + ": calls public method " + other + " while holding the mutex")
    ctx.oblige("lock discipline: every public mjCCache method holds mutex_ for its whole body; private helpers do not lock",
               "tables", not bad, "; ".join(bad))
    ctx.extra["lock_scan"] = {"public": sorted(pub), "private": sorted(priv), "definitions": len(defs)}
    ctx.assumptions.append("concurrent histories: every public mjCCache method runs under one std::mutex (checked syntactically "
                           "on each run), hence they linearise in lock order to the sequential histories the theorems quantify "
                           "over; this step relies on the C++ memory model, not on a Lean theorem")


# ------------------------------------------------------------------------------------------ run
def make_keyf():
    """A case is an op together with the history it is applied to: key = hash chain of the history prefix."""
    st = {"h": ""}

    def keyf(line):
        w = line.split()
        if not w or w[0] == "new":
            st["h"] = line
            return None
        st["h"] = hashlib.md5((st["h"] + "|" + line).encode()).hexdigest()
        return st["h"]
    return keyf


def run_oracle(ctx, impl, hs, label, limit=5):
    lines = [l for _, _, h in hs for l in h]
    rc, outs, err = ctx.run_lines([impl], lines)
    nfail = 0
    crashed = rc != 0 or len(outs) != len(lines)
    pos = 0
    for stream, coherent, h in hs:
        o = outs[pos:pos + len(h)]
        if len(o) < len(h):
            # the implementation died inside this history: report it with the exact history, after the
            # predicates have been evaluated on everything it printed before
            bad = oracle_history(h[:len(o)], o, coherent)
            if bad is None:
                k = len(o)
                ctx.oracle_failure("c38:crash", "the cache crashed or stopped (rc=%s) while executing an operation" % rc,
                                   {"stream": stream, "history": h[:k + 1], "failing_op": h[min(k, len(h) - 1)],
                                    "previous_output": o[-1] if o else None, "stderr": err[-400:],
                                    "replay": "printf '%s\\n' | <c38_cache harness>" % "\\n".join(h[:k + 1])})
                nfail += 1
                break
        else:
            bad = oracle_history(h, o, coherent)
        pos += len(h)
        if bad:
            nfail += 1
            if nfail <= limit:
                k, why = bad
                ctx.oracle_failure("c38:" + why, why,
                                   {"stream": stream, "history": h[:k + 1], "failing_op": h[k], "impl_output": o[k],
                                    "previous_output": o[k - 1] if k else None,
                                    "replay": "printf '%s\\n' | <c38_cache harness>" % "\\n".join(h[:k + 1])})
        if len(o) < len(h):
            break
    if crashed and nfail == 0:
        ctx.oracle_failure("c38:crash", "cache harness crashed or stopped early (rc=%s) in %s" % (rc, label),
                           {"after_outputs": len(outs), "stderr": err[-400:]})
        nfail = 1
    return lines, outs, nfail


def run(ctx):
    ctx.rule = ("op histories (new/ins/pop/popn/has/del/rm/rst/clr/cap lines) replayed on the real mjCCache and on the Lean model; "
                "exhaustive short histories over a small alphabet plus seeded random long histories; every line compares the complete "
                "canonical state dump exactly; a case is an op together with the whole history it is applied to (distinct by "
                "the hash chain of the history prefix); non-trivial = any op other than `new`")
    ctx.lean_props(THEOREMS)
    lock_scan(ctx)
    drv = ctx.driver("drv_c38")
    impl = ctx.harness("harness/cc/c38_cache.cc", "c38_cache")
    if not (drv and impl):
        return
    hs = gen_histories(ctx)
    # one pass per stream (keeps memory bounded): oracle on the implementation alone, then the differential
    groups = {}
    for h in hs:
        groups.setdefault(h[0], []).append(h)
    keyf = make_keyf()
    nops = nfail = 0
    for name, g in groups.items():
        lines, outs, nf = run_oracle(ctx, impl, g, name)
        nops += len(lines)
        nfail += nf
        ctx.differential("mjCCache state dumps vs Lean model, stream %s" % name, [drv], [impl], lines, keyf=keyf)
        if len(outs) == len(lines) and name in ("exh-evict", "random"):
            # a real case from this run in which SetCapacity evicted something
            k = next((j for j, l in enumerate(lines) if j > 50 and l.startswith("cap")
                      and outs[j - 1].split(" | ")[2] != outs[j].split(" | ")[2]
                      and outs[j].split(" | ")[2] != "assets: "), None)
            if k is not None:
                ctx.sample({"stream": name, "op": lines[k], "state_before": outs[k - 1], "model_and_impl_output": outs[k]})
    if ctx.tier == "thorough":
        # address/UB-sanitizer build of the tree on the random and sharing streams: no memory error, same outputs
        asan = ctx.harness("harness/cc/c38_cache.cc", "c38_cache", variant="asan")
        if asan:
            g = groups.get("random", []) + groups.get("exh-share", [])
            lines = [l for _, _, h in g for l in h]
            env = {"ASAN_OPTIONS": "detect_leaks=0:abort_on_error=0", "UBSAN_OPTIONS": "print_stacktrace=1"}
            rc_a, out_a, err_a = ctx.run_lines([asan], lines, env=env)
            rc_s, out_s, _ = ctx.run_lines([impl], lines)
            if rc_a != 0 or "ERROR: AddressSanitizer" in err_a or "runtime error" in err_a:
                k = min(len(out_a), len(lines) - 1)
                st = max(j for j in range(k + 1) if lines[j].startswith("new"))
                ctx.oracle_failure("c38:sanitizer", "memory error / undefined behaviour reported by the sanitizer build",
                                   {"history": lines[st:k + 1], "failing_op": lines[k], "report": err_a[:1500]})
            ctx.oblige("sanitizer build prints the same states as the optimised build (%d ops)" % len(lines), "correspondence",
                       rc_a == 0 and out_a == out_s, "rc=%d first difference at %s" % (
                           rc_a, next((j for j, (x, y) in enumerate(zip(out_a, out_s)) if x != y), None)))
            ctx.extra["sanitizer_ops"] = len(lines)
    ctx.extra["histories"] = len(hs)
    ctx.extra["histories_per_stream"] = {k: len(v) for k, v in groups.items()}
    ctx.extra["oracle_checked_ops"] = nops
    ctx.extra["oracle_failing_histories"] = nfail
    wl = gen_wrap(ctx) + MALFORMED
    ctx.differential("size_t wrap-around byte counts and malformed ops (outside the proved precondition; model exactness only)",
                     [drv], [impl], wl, keyf=keyf)
    # multi-threaded stress: final state must satisfy the invariant, every hit must have returned the right version
    runs = [(8, 40000, 12), (16, 20000, 7), (4, 100000, 20)] if ctx.tier == "thorough" else [(4, 6000, 12), (8, 3000, 7)]
    sres = []
    for j, (nt, nops, cap) in enumerate(runs):
        seed = ctx.rng.randrange(1 << 30)
        cmd = [impl, "stress", str(seed), str(nt), str(nops), str(cap)]
        r = common.sh(cmd, timeout=600)
        out = r.stdout.strip()
        pr = parse(out) if r.returncode == 0 else None
        why = None
        if pr is None:
            why = "stress run crashed or printed an unparsable state (rc=%d)" % r.returncode
        else:
            why = check_inv(pr[1])
            if why is None and pr[0] != "0":
                why = "concurrent lookup returned data of another asset version"
        sres.append({"threads": nt, "ops_per_thread": nops, "ok": why is None})
        if why:
            ctx.oracle_failure("c38:concurrent:" + why, why, {"cmd": " ".join(cmd), "output": out[:600], "stderr": r.stderr[-300:]})
    ctx.extra["concurrent_stress"] = sres

    def directed(c):
        sub = common.Ctx(c.pid, "thorough", c.seed + 977)
        sub.extra = {}
        hs2 = gen_histories(sub, exhaustive=False)
        run_oracle(c, impl, hs2, "directed search")
        if c.oracle_failures:
            f = c.oracle_failures[0]
            return {"key": f["key"], "what": f["what"], "replay": f["replay"]}
        return None
    ctx.directed_search = directed
    if ctx.tier == "thorough":
        ctx.leanchecker(["MjProof.Props.C38"])
