"""C47  System-identification inertia parameters are always physical (DESIGN.md §5.C47)."""
import concurrent.futures
import json
import math
import os
import struct
import subprocess
import sys
import time

from checks import common

# this check never reads lean/MjProof/Gen: no generated-code lock needed
USES_GEN = False

META = {
    "technique": "Lean 4 proof over the reals (sum-of-squares positivity of J = U U^T, explicit 4x4 reverse Cholesky inverts it, "
                 "trace identity in orthonormal frames) + floating-point differential correspondence of the same generic model "
                 "(on Float) with the tree's numpy code + numpy property oracle on the real code's outputs; for the apply->compile clause: "
                 "Lean model of the compiler's inertial-source resolution (tied bitwise to the tree's mjCBody::Compile by an exhaustive decision "
                 "table) and of the spec-write protocol of _infer_inertial / apply_body_theta_inertia (program extracted from the Python source "
                 "on every run), theorem 'apply then compile = mass properties of pi_from_theta' for every inertiafromgeom / previous inertial / "
                 "geoms / balanceinertia, and a scene oracle over the spec-option x body x API-sequence space",
    "text": "Hand-written Lean model, generic over the number type, of python/mujoco/sysid/_src/model_modifier.py: pi_from_theta "
            "(exp of the log-diagonal, upper-triangular U scaled by exp(alpha), J = U U^T, m, h, I = tr(Sigma) 1 - Sigma; 13 outputs as the "
            "code returns them), pseudoinertia_from_pi, cholesky_decompose_upper as the explicit 4x4 reverse Cholesky recurrence with "
            "LAPACK's failure condition (pivot <= 0 or NaN -> LinAlgError), theta_from_pseudoinertia, and the arithmetic of "
            "apply_body_theta_inertia (mass, ipos = h/m, fullinertia = I + m skew(ipos)^2). Proved for EVERY theta in R^10 (no box): "
            "mass = exp(2 alpha) > 0; J is symmetric with x^T J x > 0 for all x != 0 (also for the J rebuilt from pi); Sigma is positive definite; "
            "the rotational inertia is symmetric and its moments in every orthonormal frame of R^3 satisfy the three strict triangle inequalities "
            "(principal moments = the eigenvector frame; existence of that frame, i.e. the spectral theorem, is not part of the statement); the same for the "
            "central inertia (fullinertia about the centre of mass) that apply_body_theta_inertia writes, which is also positive definite; the explicit "
            "Cholesky recurrence returns U on U U^T for every upper-triangular U with positive diagonal, hence "
            "theta_from_pseudoinertia(pseudoinertia_from_pi(pi_from_theta(theta))) = theta exactly and never fails. "
            "Tie: the model evaluated on IEEE doubles agrees with the unmodified numpy functions on seeded random theta (quick 10^4 in [-3,3]^10, thorough 10^6 "
            "in [-8,8]^10) within 1e-10 relative to the natural scale of each output; the inverse map is compared within a tolerance proportional "
            "to the condition number of the factor (both sides are backward-stable Cholesky variants with different operation order). "
            "Oracle on the real code alone: eigenvalues of J and I (numpy), triangle inequalities, round trip, and apply_body_theta_inertia -> MjSpec.compile "
            "-> pi_from_body / theta_inertia_from_body recover the same mass properties. "
            "APPLY -> COMPILE CLAUSE. Model (LogCholesky.lean, second half): compileBody = the mass-property part of mjCBody::Compile (fullinertia consistency "
            "errors, mjuu_fullInertia and InertiaFromGeom as abstract functions, the rule `inertiafromgeom == TRUE || (ipos undefined && AUTO)`, geoms weighed only "
            "when `!explicitinertial || TRUE`, body-frame fallback, boundmass/boundinertia, negative and A+B>=C checks with balanceinertia), and the statements of "
            "_infer_inertial / apply_body_theta_inertia that touch the MjSpec as programs inferProg / applyProg with an interpreter (applyTheta). Proved for every "
            "theta, every caller's inertiafromgeom (false/true/auto), every previous inertial of the body (none/diagonal/full), every geom inertial (or none) and "
            "balanceinertia on/off: the call leaves inertiafromgeom = AUTO and exactly the fields specOfTheta(theta) (applyTheta_eq), and compiling that yields mass m, "
            "ipos h/m and the principal frame/moments of the central inertia with no error and no balanceinertia rewrite (apply_compile_same; hypotheses: quaternion "
            "inertial orientation, the eigen-decomposition returns moments of an orthonormal frame, bounds below the values); pi_from_body then returns pi_from_theta "
            "(pi_from_body_apply); under inertiafromgeom = TRUE the geoms would win (compile_under_true_uses_geoms: why the AUTO write must survive); with an "
            "orientation alternative the result does not compile (compile_specOfTheta_orientation_alt). Ties: (1) translate/c47_protocol.py extracts the spec-touching "
            "statements of the two functions from model_modifier.py with `ast` and they must equal the model's programs token by token (unrecognised statement -> "
            "`unknown<..>`, never a guess); (2) compileBody vs the TREE's compiler (harness/c/c47_resolve.c linking the tree build): exhaustive 1152-row decision table "
            "(inertiafromgeom x explicitinertial x ipos defined x fullinertia defined x diagonal kinds x orientation alternative x geom x balanceinertia x bounds) plus "
            "seeded random numbers, compared bitwise, the abstract functions observed on the same harness; (3) the interpreted applyProg vs the spec state left by the real "
            "apply_body_theta_inertia on generated scenes (`aspec`). Scene oracle (`cspec`, real code alone): compiler options inertiafromgeom, balanceinertia, boundmass, "
            "boundinertia, inertiagrouprange, alignfree, fusestatic, discardvisual x target body with 0-3 geoms (density / mass / massless / out-of-group / visual), "
            "inertial none / diagonal / diagonal+quat / full / euler / axisangle / xyaxes / zaxis, joint free/hinge/ball/slide/none, child (moving / welded), moving parent, "
            "<frame> x API sequence (plain, twice, after a compile, other body first/after, via Parameter+apply_body_inertia, on spec.copy(), recompile): compiled mass, "
            "ipos, pi_from_body, theta_inertia_from_body equal those of theta (against the documented clamp when a bound is active; frame-invariantly against the "
            "unaligned twin when alignfree moves the body frame). Whether OTHER bodies compile differently after the call (they do when the caller's "
            "inertiafromgeom is not AUTO: the call writes the spec-global option) is only counted in the evidence, it is not part of the property.",
    "note": "theorems are over the reals; rounding is outside the proofs (for |theta| large the float round trip degrades like eps*cond(J) and numpy's "
            "Cholesky may raise LinAlgError: such cases are classified ill-conditioned by a stated threshold, counted, and not judged). "
            "np.linalg.cholesky/BLAS are modelled by the textbook recurrence, not by LAPACK's operation order: agreement is numerical (tolerance stated in the "
            "evidence, max deviation reported), not bitwise. The MjSpec container and the compiler used by the last clause (apply -> compile -> same mass "
            "properties) are those of the pre-built mujoco 3.13 wheel in /venv, NOT the tree's C++ compiler: acceptable for that clause because the code under "
            "test is the tree's Python module; the compiler's own eigen-decomposition is only sampled (C35 covers compiled mass properties); the tree's own compiler "
            "enters through the decision-table tie of compileBody. Not modelled: settotalmass (its documented purpose is to overwrite masses; not generated), the "
            "model-level 'moving body needs mass' check, mesh geoms. 'Undefined' (NaN in slot 0) is modelled by Option. The aspec tie skips scenes on which a recorded "
            "finding makes the API sequence raise before the state can be read (fusestatic; orientation alternative followed by a second compile). "
            "pi_from_theta returns 13 numbers (the docstring says 10); modelled as coded.",
}

P = "MjProof.C47."
THEOREMS = [P + n for n in [
    "mass_eq", "mass_pos",
    "pseudoinertia_posdef", "pseudoFromPi_piFromTheta", "pseudoFromPi_posdef", "sigma_posdef",
    "inertia_symm",
    "triangle_inequalities", "triangle_inequalities_all", "triangle_inequalities_body_frame",
    "central_triangle_inequalities", "central_moment_pos",
    "chol_unique", "theta_roundtrip", "theta_roundtrip_direct",
    "applyTheta_eq", "applyTheta_state", "FrameMoments.physical", "frameMoments_body_frame", "compile_specOfTheta",
    "apply_compile_same", "compile_under_true_uses_geoms", "compile_specOfTheta_orientation_alt", "pi_from_body_apply",
]]

IMPL = os.path.join(common.VERIF, "harness", "py", "c47_logchol.py")
PY = "/venv/bin/python"
EPS = 2.220446049250313e-16

# ---- tolerances (all stated in the evidence) -------------------------------------------------------
REL = 1e-10            # forward map: |model - numpy| <= REL * scale(output)
CHOL_C = 200.0         # inverse map, model vs numpy: |dtheta| <= 1e-10 + CHOL_C * eps * kappa_F(U)^2
RT_C = 100.0           # oracle round trip: |theta' - theta| <= 1e-12 + RT_C * eps * cond_2(J)
JUDGE_MAX = 1e-2       # a comparison whose tolerance exceeds this is classified ill-conditioned and not judged
ERR_OK_COND = 1e-3     # LinAlgError / one-sided failure is accepted only when eps*kappa exceeds this
# the compiler's mju_eig3 stops when the Jacobi rotation angle is < ~1.4e-6: eigenvalues are accurate to ~1e-12 but the frame
# (iquat) only to ~1e-6, so R diag(I) R^T reproduces fullinertia to ~1e-6 relative (measured max 7e-7 on 2000 cases)
COMPILE_REL = 1e-5
EIG_C = 64.0           # eigenvalue sign tests allow -EIG_C*eps*lambda_max (accuracy of eigvalsh)


def hx(x):
    return struct.pack(">d", float(x)).hex()


def unhx(t):
    if t == "nan":
        return float("nan")
    return struct.unpack(">d", bytes.fromhex(t))[0]


def impl_cmd():
    return ["env", "OPENBLAS_NUM_THREADS=1", "OMP_NUM_THREADS=1", PY, IMPL, common.REPO]


# ======================================================================================================
# generators (ctx.rng only)
# ======================================================================================================
def gen_theta(rng, tier):
    r = rng.random()
    if tier == "thorough":
        if r < 0.5:
            B = [8.0] * 10
        elif r < 0.7:
            B = [3.0] * 10
        elif r < 0.85:
            B = [1.0] * 10
        else:
            B = [rng.choice((0.25, 1.0, 3.0, 8.0)) for _ in range(10)]
    else:
        if r < 0.7:
            B = [3.0] * 10
        elif r < 0.85:
            B = [1.0] * 10
        else:
            B = [rng.choice((0.25, 1.0, 3.0)) for _ in range(10)]
    th = [rng.uniform(-b, b) for b in B]
    r2 = rng.random()
    if r2 < 0.03:      # exact zeros / integers in some coordinates
        for i in range(10):
            if rng.random() < 0.4:
                th[i] = float(rng.randint(-int(B[i]), int(B[i])))
    elif r2 < 0.05:    # a corner of the box
        th = [rng.choice((-b, b)) for b in B]
    return th, max(B)


DIRECTED_THETA = [
    [0.0] * 10,
    [1.0] + [0.0] * 9, [0.0, 1.0] + [0.0] * 8, [0.0] * 4 + [1.0] + [0.0] * 5, [0.0] * 5 + [1.0] + [0.0] * 4,
    [0.0] * 6 + [1.0] + [0.0] * 3, [0.0] * 7 + [1.0, 0.0, 0.0], [0.0] * 8 + [1.0, 0.0], [0.0] * 9 + [1.0],
    [0.5, -0.25, 0.75, 0.125, 1.0, 2.0, 3.0, -1.0, -2.0, -3.0],
    [-1.0, 0.5, 0.25, -0.5, 0.3, -0.7, 0.9, 0.1, -0.2, 0.4],
]


def pd_from_theta(th):
    """J = U U^T in plain Python floats (generator only: inputs for the `chol` op)."""
    a, d1, d2, d3, s12, s23, s13, t1, t2, t3 = th
    ea = math.exp(a)
    U = [[math.exp(d1) * ea, s12 * ea, s13 * ea, t1 * ea],
         [0.0, math.exp(d2) * ea, s23 * ea, t2 * ea],
         [0.0, 0.0, math.exp(d3) * ea, t3 * ea],
         [0.0, 0.0, 0.0, ea]]
    return [[sum(U[i][k] * U[j][k] for k in range(4)) for j in range(4)] for i in range(4)]


def gen_chol_line(rng, tier):
    B = rng.choice((0.5, 1.0, 2.0, 3.0) if tier == "quick" else (0.5, 1.0, 2.0, 3.0, 5.0))
    th = [rng.uniform(-B, B) for _ in range(10)]
    J = pd_from_theta(th)
    kind = rng.random()
    cls = "pd"
    if kind < 0.25:
        # garbage below the diagonal: cholesky_decompose_upper must not read it
        for i in range(4):
            for j in range(i):
                J[i][j] = rng.uniform(-100, 100)
        cls = "pd-unsym"
    elif kind < 0.40:
        # clearly indefinite / non-positive: both sides must report the failure
        i = rng.randrange(4)
        J[i][i] = -abs(J[i][i]) if rng.random() < 0.7 else 0.0
        cls = "indef"
    elif kind < 0.45:
        i, j = rng.sample(range(4), 2)
        big = 10.0 * math.sqrt(J[i][i] * J[j][j])
        J[i][j] = J[j][i] = big
        cls = "indef"
    return "chol " + " ".join(hx(v) for row in J for v in row), cls


def gen_pseudo_line(rng):
    s = rng.choice((1e-3, 1.0, 1.0, 1e3))
    return "pseudo " + " ".join(hx(rng.uniform(-s, s)) for _ in range(13))


# ======================================================================================================
# tolerant comparison (model on Float vs numpy)
# ======================================================================================================
class Dev:
    """max deviation / tolerance bookkeeping for the evidence"""

    def __init__(self):
        self.max = {}
        self.n = {}
        self.bitwise = {}

    def note(self, k, ratio, equal_bits=None):
        if ratio > self.max.get(k, 0.0):
            self.max[k] = ratio
        self.n[k] = self.n.get(k, 0) + 1
        if equal_bits is not None:
            self.bitwise[k] = self.bitwise.get(k, 0) + (1 if equal_bits else 0)


def kappa_from_theta(th):
    """kappa_F(U)^2 for U = e^alpha [[e^d1,s12,s13,t1],[0,e^d2,s23,t2],[0,0,e^d3,t3],[0,0,0,1]] (>= cond_2(U U^T))."""
    a, d1, d2, d3, s12, s23, s13, t1, t2, t3 = th
    try:
        u = [[math.exp(d1), s12, s13, t1], [0.0, math.exp(d2), s23, t2], [0.0, 0.0, math.exp(d3), t3], [0.0, 0.0, 0.0, 1.0]]
        # inverse of the upper-triangular matrix by back substitution
        inv = [[0.0] * 4 for _ in range(4)]
        for j in range(4):
            inv[j][j] = 1.0 / u[j][j]
            for i in range(j - 1, -1, -1):
                inv[i][j] = -sum(u[i][k] * inv[k][j] for k in range(i + 1, j + 1)) / u[i][i]
        nu = sum(v * v for r in u for v in r)
        ni = sum(v * v for r in inv for v in r)
        k = nu * ni
        return k if k == k else float("inf")
    except (OverflowError, ZeroDivisionError):
        return float("inf")


def finite(xs):
    return all(x == x and abs(x) != float("inf") for x in xs)


def cmp_theta(dev, key, tm, ti):
    """compare two inverse-map results; returns (ok, why)"""
    if not finite(tm) or not finite(ti):
        good = tm if finite(tm) else ti
        k = kappa_from_theta(good) if finite(good) else float("inf")
        if EPS * k > ERR_OK_COND:
            dev.note(key + ":ill-conditioned(not judged)", 0.0)
            return True, ""
        return False, "non-finite inverse on a well-conditioned input"
    k = min(kappa_from_theta(tm), kappa_from_theta(ti))
    tol = 1e-10 + CHOL_C * EPS * k
    if tol > JUDGE_MAX:
        dev.note(key + ":ill-conditioned(not judged)", 0.0)
        return True, ""
    d = max(abs(x - y) for x, y in zip(tm, ti))
    dev.note(key, d / tol)
    return d <= tol, "inverse map differs by %.3g > tol %.3g (kappa %.3g)" % (d, tol, k)


def cmp_one_sided(dev, key, t_ok):
    """one side failed (err), the other returned theta: acceptable only if ill-conditioned"""
    k = kappa_from_theta(t_ok) if finite(t_ok) else float("inf")
    if EPS * k > ERR_OK_COND:
        dev.note(key + ":ill-conditioned(not judged)", 0.0)
        return True
    return False


def make_cmp(dev, fails):
    def rel_block(key, xm, xi, scales):
        ok = True
        for a, b, s in zip(xm, xi, scales):
            if a != a or b != b or abs(a) == float("inf") or abs(b) == float("inf"):
                if not (a != a and b != b) and a != b:
                    ok = False
                continue
            s = max(s, 1e-300)
            r = abs(a - b) / (REL * s)
            dev.note(key, r, equal_bits=(a == b))
            if r > 1.0:
                ok = False
        return ok

    def cmp(a, b):
        try:
            return cmp_inner(a, b)
        except Exception as e:  # malformed output of either side is a disagreement, never an exception
            fails.append("cmp exception %r" % (e,))
            return False

    def cmp_inner(a, b):
        if a == b:
            w = a.split()
            if w and w[0] in ("pi", "J", "ok", "body", "spec"):
                dev.note("bitwise-equal-lines", 0.0)
            return True
        wa, wb = a.split(), b.split()
        if not wa or not wb or wa[0] != wb[0]:
            # chol: err vs ok
            if wa and wb and {wa[0], wb[0]} == {"ok", "err"}:
                good = wa if wa[0] == "ok" else wb
                th = [unhx(t) for t in good[11:21]]
                return cmp_one_sided(dev, "chol", th)
            return False
        op = wa[0]
        if op == "pi":
            if wa[14] != "J" or wb[14] != "J" or wa[31] != "th" or wb[31] != "th":
                return False
            pm, pi_ = [unhx(t) for t in wa[1:14]], [unhx(t) for t in wb[1:14]]
            Jm, Ji = [unhx(t) for t in wa[15:31]], [unhx(t) for t in wb[15:31]]
            dg = [abs(Jm[0]), abs(Jm[5]), abs(Jm[10]), abs(Jm[15])]
            tr = dg[0] + dg[1] + dg[2]
            sJ = [math.sqrt(dg[i] * dg[j]) for i in range(4) for j in range(4)]
            for i in range(3):
                sJ[5 * i] = tr   # Sigma_ii is recomputed from I as 0.5 tr(I) - I_ii: scale tr(Sigma)
            sP = [dg[3]] + [math.sqrt(dg[i] * dg[3]) for i in range(3)] + \
                 [tr if i == j else math.sqrt(dg[i] * dg[j]) for i in range(3) for j in range(3)]
            ok = rel_block("pi_from_theta", pm, pi_, sP)
            ok &= rel_block("pseudoinertia_from_pi(pi_from_theta)", Jm, Ji, sJ)
            sm, si = wa[32], wb[32]
            if sm == "ok" and si == "ok":
                o, why = cmp_theta(dev, "roundtrip-theta", [unhx(t) for t in wa[33:43]], [unhx(t) for t in wb[33:43]])
                ok &= o
            elif sm == "err" and si == "err":
                dev.note("roundtrip:both-LinAlgError", 0.0)
            else:
                good = wa if sm == "ok" else wb
                ok &= cmp_one_sided(dev, "roundtrip-theta", [unhx(t) for t in good[33:43]])
            return ok
        if op == "J":
            Jm, Ji = [unhx(t) for t in wa[1:17]], [unhx(t) for t in wb[1:17]]
            s = max(abs(v) for v in Jm if v == v) if Jm else 1.0
            return rel_block("pseudoinertia_from_pi", Jm, Ji, [s] * 16)
        if op == "ok":
            Um, Ui = [unhx(t) for t in wa[1:11]], [unhx(t) for t in wb[1:11]]
            tm, ti = [unhx(t) for t in wa[11:21]], [unhx(t) for t in wb[11:21]]
            o, why = cmp_theta(dev, "chol-theta", tm, ti)
            if o and finite(Um) and finite(Ui):
                k = min(kappa_from_theta(tm), kappa_from_theta(ti)) if finite(tm) and finite(ti) else float("inf")
                tol = 1e-10 + CHOL_C * EPS * k
                if tol <= JUDGE_MAX:
                    nu = math.sqrt(sum(v * v for v in Um))
                    d = max(abs(x - y) for x, y in zip(Um, Ui)) / max(nu, 1e-300)
                    dev.note("chol-U", d / tol)
                    o &= d <= tol
            return o
        if op == "spec":
            # spec <ifg> <explicit> body <10> inertia <3> iquat <nan|4>: flags / zeros / NaN marker exactly, numbers like `body`
            if len(wa) != len(wb) or wa[1:4] != wb[1:4] or wa[14:] != wb[14:] or wa[3] != "body":
                return False
            wa, wb = wa[3:14], wb[3:14]
            op = "body"
        if op == "body":
            bm, bi = [unhx(t) for t in wa[1:11]], [unhx(t) for t in wb[1:11]]
            m = abs(bm[0])
            c2 = bm[1] ** 2 + bm[2] ** 2 + bm[3] ** 2
            sI = abs(bm[4]) + abs(bm[5]) + abs(bm[6]) + 2 * m * c2
            sc = [m] + [max(math.sqrt(c2), 1e-300)] * 3 + [sI] * 6
            return rel_block("apply_body_theta_inertia", bm, bi, sc)
        return False

    return cmp


# ======================================================================================================
# property oracle on the implementation's outputs alone
# ======================================================================================================
def oracle_theta(theta, o):
    """o = JSON of the `oracle` op. Returns list of (key, what)."""
    bad = []
    if o.get("npi") != 13:
        bad.append(("c47:pi-shape", "pi_from_theta returned %s numbers, expected 13" % o.get("npi")))
    m = o["m"]
    if not (m > 0 and m < float("inf")):
        bad.append(("c47:mass-not-positive", "mass %r is not positive and finite" % m))
    eJ, eI = o["eigJ"], o["eigI"]
    cond = o["cond"]
    if not (cond == cond):
        cond = float("inf")
    well = EPS * cond < 1e-3
    lmax = max(abs(v) for v in eJ)
    if not all(v == v for v in eJ) or min(eJ) < -EIG_C * EPS * lmax or (well and min(eJ) <= 0):
        bad.append(("c47:pseudoinertia-not-posdef", "eigenvalues of J %r (cond %.3g)" % (eJ, cond)))
    imax = max(abs(v) for v in eI)
    if o["asymI"] > 1e-10 * imax or o["asymJ"] > 1e-10 * lmax:
        bad.append(("c47:not-symmetric", "asymmetry I %.3g J %.3g" % (o["asymI"], o["asymJ"])))
    if not all(v == v for v in eI) or min(eI) < -EIG_C * EPS * imax or (well and min(eI) <= 0):
        bad.append(("c47:inertia-not-posdef", "eigenvalues of I %r" % (eI,)))
    tri = eI[0] + eI[1] - eI[2]   # eigvalsh is ascending: the binding inequality
    if not (tri >= -EIG_C * EPS * imax) or (well and tri <= 0):
        bad.append(("c47:triangle-inequality", "principal moments %r: A+B-C = %.3g" % (eI, tri)))
    d = o["diagI"]
    for (i, j, k) in ((0, 1, 2), (1, 2, 0), (2, 0, 1)):
        t = d[i] + d[j] - d[k]
        if not (t >= -EIG_C * EPS * imax) or (well and t <= 0):
            bad.append(("c47:triangle-inequality-body-frame", "diag(I) %r" % (d,)))
            break
    cls = "judged"
    tol = 1e-12 + RT_C * EPS * cond
    if o["rt"] is None:
        if EPS * cond > ERR_OK_COND:
            cls = "ill-conditioned(LinAlgError)"
        else:
            bad.append(("c47:roundtrip-linalgerror", "theta_from_pseudoinertia raised on cond %.3g: %s" % (cond, o.get("rt_exc"))))
    elif tol > JUDGE_MAX:
        cls = "ill-conditioned(not judged)"
    else:
        err = max((abs(x - y) if x == x else float("inf")) for x, y in zip(o["rt"], theta))
        if err > tol:
            bad.append(("c47:roundtrip", "theta' - theta = %.3g > tol %.3g (cond %.3g)" % (err, tol, cond)))
        cls = ("judged", err, tol)
    return bad, cls


SPHERE_MASS = 1000.0 * 4.0 / 3.0 * math.pi * 0.05 ** 3


def oracle_compile(theta, o):
    bad = []
    cond = o.get("cond", float("inf"))
    if "exc" in o:
        bad.append(("c47:apply-compile-exception", "apply_body_theta_inertia/compile raised %s (cond %.3g)" % (o["exc"], cond)))
        return bad, None
    pi, back = o["pi"], o["pi_back"]
    m = pi[0]
    devs = {}
    if o["spec_mass"] != m:
        bad.append(("c47:apply-mass", "body.mass %r != pi[0] %r" % (o["spec_mass"], m)))
    devs["mass"] = abs(o["mass"] - m) / m
    if devs["mass"] > 1e-12:
        bad.append(("c47:compiled-mass", "compiled mass %r vs pi[0] %r" % (o["mass"], m)))
    c = [pi[1] / m, pi[2] / m, pi[3] / m]
    cn = max(math.sqrt(sum(v * v for v in c)), 1e-300)
    devs["ipos"] = max(abs(x - y) for x, y in zip(o["ipos"], c)) / cn
    if devs["ipos"] > 1e-9:
        bad.append(("c47:compiled-ipos", "compiled ipos %r vs h/m %r" % (o["ipos"], c)))
    # pi recovered from the compiled body (pi_from_body of the tree) vs pi_from_theta
    trI = abs(pi[4]) + abs(pi[8]) + abs(pi[12])
    sc = [m] + [max(abs(v) for v in pi[1:4]) + 1e-300] * 3 + [trI] * 9
    devs["pi_back"] = max(abs(x - y) / s for x, y, s in zip(back, pi, sc))
    if not devs["pi_back"] <= COMPILE_REL:
        bad.append(("c47:compiled-inertia", "pi_from_body after apply+compile differs from pi_from_theta by %.3g (relative to scale)" % devs["pi_back"]))
    I = sorted(o["inertia"])
    if not (I[0] > 0 and I[0] + I[1] >= I[2] * (1 - 1e-9)):
        bad.append(("c47:compiled-principal-moments", "compiled inertia %r" % (o["inertia"],)))
    if abs(o["child_mass"] - SPHERE_MASS) > 1e-9 * SPHERE_MASS:
        bad.append(("c47:child-body-changed", "child mass %r" % o["child_mass"]))
    tol = 1e-9 + COMPILE_REL * cond
    if o.get("theta_back") is None:
        if EPS * cond <= ERR_OK_COND:
            bad.append(("c47:theta-back-linalgerror", "theta_inertia_from_body raised (cond %.3g)" % cond))
    elif tol <= JUDGE_MAX:
        err = max(abs(x - y) for x, y in zip(o["theta_back"], theta))
        devs["theta_back/tol"] = err / tol
        if not err <= tol:
            bad.append(("c47:theta-back", "theta_inertia_from_body after apply differs by %.3g > %.3g" % (err, tol)))
    return bad, devs


# ======================================================================================================
# scenes for "applying them to a body yields a spec that compiles with the same mass properties"
# ======================================================================================================
CFG_DEFAULT = {"ifg": "2", "inr": "none", "ng": "1", "gm": "dens", "gg": "0", "igr": "def", "jt": "free", "ch": "1",
               "chin": "0", "par": "0", "fr": "0", "bal": "0", "bm": "0", "bi": "0", "af": "0", "fs": "0", "dv": "0",
               "vis": "0", "seq": "plain"}
ALT_KINDS = ("euler", "axisangle", "xyaxes", "zaxis")
SEQS = ("plain", "twice", "precompile", "otherfirst", "thenother", "param", "copy", "recompile")
KEY_ALT = "c47:apply-compile-error:inertial-orientation-alternative"
KEY_FUSED = "c47:apply-keyerror:fusestatic-fused-body"


def cfg_token(c):
    t = ",".join("%s=%s" % (k, c[k]) for k in CFG_DEFAULT if c[k] != CFG_DEFAULT[k])
    return t or "-"


def group_selected(c, group):
    lo, hi = (0, 5) if c["igr"] == "def" else tuple(int(v) for v in c["igr"].split("-"))
    return lo <= group <= hi


def has_sel_geom(c):
    """is there a geom with mass on the target that the compiler's InertiaFromGeom would select?"""
    return (int(c["ng"]) > 0 and c["gm"] != "zero" and group_selected(c, int(c["gg"]))) or \
           (c["vis"] == "1" and group_selected(c, 2))


def fix_scene(c):
    """make the caller's spec valid (every moving body has mass under the caller's inertiafromgeom AND under AUTO)"""
    if c["par"] == "1" and c["jt"] == "free":
        c["jt"] = "hinge"
    if c["seq"] in ("otherfirst", "thenother") and c["ch"] == "0":
        c["ch"] = "1"
    if c["fs"] == "1" and c["ch"] == "2":
        c["ch"] = "1"       # a static child would be fused INTO the target: the compiled body is then b+c by design
    if c["jt"] != "none":
        if c["inr"] == "none" and (c["ifg"] == "0" or not has_sel_geom(c)):
            c["inr"] = "diag"
    if (c["ch"] == "1" or c["par"] == "1") and (c["ifg"] == "0" or not group_selected(c, 0)):
        c["chin"] = "1"
    return c


def scene_flags(c):
    return int(c["ifg"]), (0 if c["inr"] == "none" else 1), (1 if has_sel_geom(c) else 0)


def gen_scene(rng):
    c = dict(CFG_DEFAULT)
    c["ifg"] = rng.choice("012")
    c["jt"] = rng.choice(("free", "free", "free", "hinge", "ball", "slide", "none"))
    c["par"] = "1" if c["jt"] != "free" and rng.random() < 0.35 else "0"
    r = rng.random()
    c["inr"] = "none" if r < 0.33 else "diag" if r < 0.5 else "diagq" if r < 0.7 else "full" if r < 0.93 else rng.choice(ALT_KINDS)
    c["ng"] = rng.choice("01123")
    r = rng.random()
    c["gm"] = "dens" if r < 0.6 else "mass" if r < 0.85 else "zero"
    c["gg"] = "0" if rng.random() < 0.8 else "3"
    r = rng.random()
    c["igr"] = "def" if r < 0.75 else "1-2" if r < 0.87 else "0-2"
    r = rng.random()
    c["ch"] = "0" if r < 0.3 else "1" if r < 0.8 else "2"
    c["chin"] = "1" if rng.random() < 0.35 else "0"
    c["fr"] = "1" if rng.random() < 0.2 else "0"
    c["bal"] = "1" if rng.random() < 0.3 else "0"
    r = rng.random()
    c["bm"] = "0" if r < 0.7 else "0.001" if r < 0.85 else "50"
    r = rng.random()
    c["bi"] = "0" if r < 0.75 else "0.0001" if r < 0.87 else "1"
    for k, pr in (("af", 0.12), ("fs", 0.07), ("dv", 0.12)):
        c[k] = "1" if rng.random() < pr else "0"
    c["vis"] = "1" if rng.random() < 0.25 else "0"
    c["seq"] = "plain" if rng.random() < 0.4 else rng.choice(SEQS[1:])
    return fix_scene(c)


def directed_scenes():
    """the grid the clause names: inertiafromgeom false/true/auto x with/without geoms x inertial flavours x balanceinertia,
    plus one scene per remaining option / sequence"""
    out = []
    for ifg in "012":
        for inr in ("none", "diag", "full"):
            for ng in ("0", "2"):
                for bal in ("0", "1"):
                    out.append(fix_scene(dict(CFG_DEFAULT, ifg=ifg, inr=inr, ng=ng, bal=bal)))
    for seq in SEQS[1:]:
        for ifg in "12":
            out.append(fix_scene(dict(CFG_DEFAULT, ifg=ifg, inr="diag", ng="2", seq=seq)))
    for k, v in (("af", "1"), ("fs", "1"), ("dv", "1"), ("vis", "1"), ("fr", "1"), ("par", "1"), ("igr", "1-2"), ("gm", "zero"),
                 ("gm", "mass"), ("bm", "50"), ("bi", "1"), ("jt", "none"), ("jt", "ball"), ("ch", "2"), ("ch", "0")):
        for ifg in "012":
            out.append(fix_scene(dict(CFG_DEFAULT, **{"ifg": ifg, "inr": "diagq", k: v})))
    out.append(fix_scene(dict(CFG_DEFAULT, af="1", ch="0")))
    out.append(fix_scene(dict(CFG_DEFAULT, ifg="1", af="1", ch="0", inr="full", ng="3")))
    seen, uniq = set(), []
    for c in out:
        t = cfg_token(c)
        if t not in seen:
            seen.add(t)
            uniq.append(c)
    return uniq


def scene_line(op, c, th):
    return "%s %d %d %d %s %s" % ((op,) + scene_flags(c) + (cfg_token(c), " ".join(hx(v) for v in th)))


def close_tables(a, b):
    """two compiled-body rows [mass, ipos(3), inertia(3), iquat(4)]: same mass properties?"""
    if abs(a[0] - b[0]) > 1e-9 * max(abs(a[0]), abs(b[0]), 1e-300):
        return False
    if max(abs(x - y) for x, y in zip(a[1:4], b[1:4])) > 1e-9:
        return False
    s = max(max(abs(v) for v in a[4:7]), max(abs(v) for v in b[4:7]), 1e-300)
    return max(abs(x - y) for x, y in zip(a[4:7], b[4:7])) <= 1e-9 * s


def oracle_scene(c, theta, o):
    """judge one `cspec` output.  Returns (failures [(key, what)], class, deviations)"""
    bad = []
    if "invalid" in o:
        return bad, "invalid-original(not judged)", None
    cond = o.get("cond", float("inf"))
    if "exc" in o:
        msg, stage = o["exc"], o.get("stage")
        if stage == "pristine":
            bad.append(("c47:scene-harness", "the scene could not be built: " + msg))
        elif "fullinertia and inertial orientation cannot both be specified" in msg and c["inr"] in ALT_KINDS and stage in ("apply", "compile"):
            bad.append((KEY_ALT, "inertial given with orientation alternative %r: after apply_body_theta_inertia the spec does not "
                                 "compile: %s" % (c["inr"], msg)))
        elif (msg.startswith("KeyError") or "not found in spec" in msg) and c["fs"] == "1" and c["jt"] == "none" and stage == "apply":
            bad.append((KEY_FUSED, "fusestatic + static target body: apply_body_theta_inertia raised %s" % msg))
        else:
            bad.append(("c47:apply-compile-exception", "stage %s raised %s (cond %.3g)" % (stage, msg, cond)))
        return bad, "exception", None
    pi = o["pi"]
    m = pi[0]
    devs = {}
    post = o["post"]
    if post["mass"] != m:
        bad.append(("c47:apply-mass", "body.mass %r != pi[0] %r" % (post["mass"], m)))
    bm, bi = float(c["bm"]), float(c["bi"])
    bm_active = bm > m
    bi_active = o.get("eigF") is None or min(o["eigF"]) < bi * (1 + 1e-6)
    aligned = bool(o.get("aligned"))
    cls = "judged"
    if bm_active or bi_active:
        cls = "bound-active(judged against the documented clamp)"
    if aligned:
        cls = "alignfree(judged frame-invariantly)"
    m_exp = max(m, bm)
    devs["mass"] = abs(o["mass"] - m_exp) / m_exp
    if devs["mass"] > 1e-12:
        bad.append(("c47:compiled-mass", "compiled mass %r vs expected %r (pi[0] %r, boundmass %r)" % (o["mass"], m_exp, m, bm)))
    ref = o["twin"] if aligned else o       # body-frame quantities: the unaligned compile
    cm = [pi[1] / m, pi[2] / m, pi[3] / m]
    cn = max(math.sqrt(sum(v * v for v in cm)), 1e-300)
    devs["ipos"] = max(abs(x - y) for x, y in zip(ref["ipos"], cm)) / cn
    if devs["ipos"] > 1e-9:
        bad.append(("c47:compiled-ipos", "compiled ipos %r vs h/m %r" % (ref["ipos"], cm)))
    trI = abs(pi[4]) + abs(pi[8]) + abs(pi[12])
    if not bm_active and not bi_active:
        sc = [m] + [max(abs(v) for v in pi[1:4]) + 1e-300] * 3 + [trI] * 9
        devs["pi_back"] = max(abs(x - y) / s for x, y, s in zip(ref["pi_back"], pi, sc))
        if not devs["pi_back"] <= COMPILE_REL:
            bad.append(("c47:compiled-inertia", "pi_from_body after apply+compile differs from pi_from_theta by %.3g (relative to scale)"
                        % devs["pi_back"]))
    elif o.get("eigF") is not None:
        exp = sorted(max(v, bi) for v in o["eigF"])
        got = sorted(ref["inertia"])
        devs["clamped_moments"] = max(abs(x - y) for x, y in zip(exp, got)) / max(exp[2], 1e-300)
        if not devs["clamped_moments"] <= COMPILE_REL:
            bad.append(("c47:compiled-inertia", "principal moments %r vs max(eig(fullinertia), boundinertia) %r" % (got, exp)))
    I = sorted(o["inertia"])
    if not (I[0] > 0 and I[0] + I[1] >= I[2] * (1 - 1e-9)):
        bad.append(("c47:compiled-principal-moments", "compiled inertia %r" % (o["inertia"],)))
    if aligned:
        tw = o["twin"]
        d = [abs(o["mass"] - tw["mass"]) / m_exp,
             max(abs(x - y) for x, y in zip(sorted(o["inertia"]), sorted(tw["inertia"]))) / max(max(tw["inertia"]), 1e-300),
             max(abs(x - y) for x, y in zip(o["xipos"], tw["xipos"])) / (1.0 + max(abs(v) for v in tw["xipos"]))]
        sI = max(abs(tw["Iw"][0]) + abs(tw["Iw"][4]) + abs(tw["Iw"][8]), 1e-300)
        dI = max(abs(x - y) for x, y in zip(o["Iw"], tw["Iw"])) / sI
        devs["aligned_vs_unaligned"] = max(max(d) / 1e-9, dI / COMPILE_REL) * 1e-9
        if max(d) > 1e-9 or dI > COMPILE_REL:
            bad.append(("c47:alignfree-changes-mass-properties", "world-frame mass properties differ between alignfree on/off: %r, inertia %.3g"
                        % (d, dI)))
    elif not bm_active and not bi_active:
        tol = 1e-9 + COMPILE_REL * cond
        if o.get("theta_back") is None:
            if EPS * cond <= ERR_OK_COND:
                bad.append(("c47:theta-back-linalgerror", "theta_inertia_from_body raised (cond %.3g)" % cond))
        elif tol <= JUDGE_MAX:
            err = max(abs(x - y) for x, y in zip(o["theta_back"], theta))
            devs["theta_back/tol"] = err / tol
            if not err <= tol:
                bad.append(("c47:theta-back", "theta_inertia_from_body after apply differs by %.3g > %.3g" % (err, tol)))
    # ---- informational only, NOT part of the property (C47 speaks about the target body): does any other body compile to
    # different mass properties after the call?  (_infer_inertial writes the spec-global compiler.inertiafromgeom = AUTO, the
    # documented mechanism, so bodies whose inertial source differs between the caller's setting and AUTO do.)  Counted, never judged.
    touched = {"b"} | ({"c"} if c["seq"] in ("otherfirst", "thenother") else set())
    for name, row in sorted(o["before"].items()):
        if name in touched or name not in o["after"]:
            continue
        if not close_tables(row, o["after"][name]):
            auto = (o.get("auto_ref") or {}).get(name)
            devs["info:other-body-differs"] = 1.0
            if c["ifg"] != "2" and auto is not None and close_tables(auto, o["after"][name]):
                devs["info:other-body-differs(=its compile under AUTO)"] = 1.0
    if "c" in touched and "c" in o["after"]:
        po = o["pi_other"]
        row = o["after"]["c"]
        co = [po[1] / po[0], po[2] / po[0], po[3] / po[0]]
        if abs(row[0] - max(po[0], bm)) > 1e-12 * max(po[0], bm) or (
                c["af"] != "1" and max(abs(x - y) for x, y in zip(row[1:4], co)) > 1e-9 * max(1.0, max(abs(v) for v in co))):
            bad.append(("c47:second-body-wrong", "body 'c' after its own apply: %r, expected mass %r ipos %r" % (row[:4], po[0], co)))
    return bad, cls, devs


def bump(d, k, n=1):
    d[k] = d.get(k, 0) + n


def protocol_tie(ctx, drv):
    tr = os.path.join(common.VERIF, "translate", "c47_protocol.py")
    r = subprocess.run([sys.executable, tr, common.REPO], capture_output=True, text=True)
    src = {}
    for l in r.stdout.split("\n"):
        w = l.split()
        if w:
            src[w[0]] = w[1:]
    rc, outs, err = ctx.run_lines([drv], ["prog infer", "prog apply"])
    mod = {"infer": outs[0].split() if len(outs) > 0 else None, "apply": outs[1].split() if len(outs) > 1 else None}
    ok = r.returncode == 0 and rc == 0 and all(src.get(k) == mod[k] and mod[k] for k in ("infer", "apply"))
    ctx.oblige("spec-write protocol: statements of _infer_inertial / apply_body_theta_inertia extracted from model_modifier.py "
               "= inferProg / applyProg of the Lean model", "translator", ok,
               json.dumps({"source": src, "model": mod, "stderr": r.stderr[-500:]}))
    ctx.extra["protocol"] = {"source": src, "model": mod}
    ctx.count("prog infer")
    ctx.count("prog apply")


RESOLVE_FULL = [0.3, 0.2, 0.25, 0.01, 0.02, -0.01]


def resolve_tie(ctx, drv, rng, thorough):
    """exhaustive decision table (+ seeded random numbers) of the mass-property part of mjCBody::Compile: Lean compileBody vs the
    tree's compiler (C harness linking the tree build).  The abstract functions of the model (InertiaFromGeom of the fixed geom,
    mjuu_fullInertia of this line's fullinertia, the resolved orientation alternative, the body frame) are observed first on the
    same harness (`probe`) and handed to both sides in the line.  Every iquat handed in is a unit quaternion, on which
    mjuu_normvec is the identity (it skips vectors within mjEPS of unit length): the model's `normq` is instantiated by `id`."""
    h = ctx.harness("harness/c/c47_resolve.c", "c47_resolve")
    if not h:
        return
    lines = []
    rc, pro, err = ctx.run_lines([h], ["probe geo", "probe alt", "probe frame"])
    if rc != 0 or len(pro) != 3 or not all(p.startswith("obs ") for p in pro):
        ctx.oblige("c47_resolve probes", "impl-build", False, "rc=%s out=%r err=%s" % (rc, pro, err[-300:]))
        return
    geo, alt, frame = (p.split()[1:] for p in pro)
    specs = []
    import itertools
    for fl in itertools.product((0, 1, 2), (0, 1), (0, 1), (0, 1), (0, 1), (0, 1), (0, 1)):
        for diag in ([0.0, 0.0, 0.0], [0.3, 0.2, 0.25], [0.1, 0.1, 0.5]):
            for bm, bi in ((0.0, 0.0), (4.0, 0.22)):
                specs.append((fl, [3.0, 0.01, 0.02, 0.03, 0.5, -0.5, -0.5, 0.5] + diag + RESOLVE_FULL + [bm, bi]))
    for _ in range(4000 if thorough else 600):
        fl = (rng.randrange(3),) + tuple(rng.randrange(2) for _ in range(6))
        mass = rng.choice((rng.uniform(0.1, 5), rng.uniform(0.1, 5), 0.0, -rng.uniform(0.1, 2)))
        q = [rng.gauss(0, 1) for _ in range(4)]
        nq = math.sqrt(sum(v * v for v in q))
        q = [v / nq for v in q]
        kind = rng.random()
        if kind < 0.5:
            a, b = rng.uniform(0.05, 1), rng.uniform(0.05, 1)
            diag = [a, b, rng.uniform(abs(a - b), a + b)]
        elif kind < 0.7:
            diag = [rng.uniform(0.05, 1) for _ in range(3)]
        elif kind < 0.8:
            diag = [rng.uniform(-0.2, 1) for _ in range(3)]
        else:
            diag = [0.0, 0.0, 0.0]
        # the inertia of a few point masses (always physical); sometimes shifted so that it loses positive definiteness
        F = [[0.0] * 3 for _ in range(3)]
        for _ in range(rng.choice((3, 4, 6))):
            pm, r = rng.uniform(0.1, 2), [rng.uniform(-0.5, 0.5) for _ in range(3)]
            r2 = sum(v * v for v in r)
            for i in range(3):
                for j in range(3):
                    F[i][j] += pm * ((r2 if i == j else 0.0) - r[i] * r[j])
        sh = rng.choice((0.0, 0.0, 0.0, 0.0, 0.05, -0.3))
        full = [F[0][0] + sh, F[1][1] + sh, F[2][2] + sh, F[0][1], F[0][2], F[1][2]]
        bm = rng.choice((0.0, 0.0, 0.0, rng.uniform(0, 6), -1.0))
        bi = rng.choice((0.0, 0.0, 0.0, rng.uniform(0, 0.6), -1.0))
        specs.append((fl, [mass] + [rng.uniform(-0.3, 0.3) for _ in range(3)] + q + diag + full + [bm, bi]))
    # observe mjuu_fullInertia for every distinct fullinertia
    fulls = {}
    for _, x in specs:
        fulls.setdefault(tuple(x[11:17]), None)
    keys = list(fulls)
    rc, outs, err = ctx.run_lines([h], ["probe eig " + " ".join(hx(v) for v in k) for k in keys])
    if rc != 0 or len(outs) != len(keys):
        ctx.oblige("c47_resolve probes", "impl-build", False, "eig probes rc=%s" % rc)
        return
    for k, o in zip(keys, outs):
        w = o.split()
        # `err eigFailed` = mjuu_fullInertia's own error (observed as NaN moments); any other probe error (the A + B >= C check
        # fires on the probe body itself) leaves the eigen-decomposition unobserved: such lines are dropped
        fulls[k] = w[1:] if w and w[0] == "obs" and len(w) == 8 else ["nan"] * 7 if o == "err eigFailed" else None
    cls = {}
    dropped = 0
    for fl, x in specs:
        if fulls[tuple(x[11:17])] is None:
            dropped += 1
            continue
        lines.append("resolve " + " ".join(str(v) for v in fl) + " " + " ".join(hx(v) for v in x) + " " +
                     " ".join(geo + fulls[tuple(x[11:17])] + alt + frame))
    lines += ["resolve 3 0 0 0 0 0 0", "probe", "resolve"]
    bad = ctx.differential("compileBody (Lean) vs mjCBody::Compile of the tree: inertial-source decision table", [drv], [h], lines,
                           keyf=lambda l: l if len(l) > 40 else None,
                           cmp=lambda a, b: a == b)
    rc, outs, err = ctx.run_lines([h], lines[:-3])
    for o in outs:
        w = o.split()
        bump(cls, w[0] + (":" + w[1] if w and w[0] == "err" else ""))
    ctx.extra["resolve_table"] = {"lines": len(lines) - 3, "dropped(eigen-decomposition not observable)": dropped, "exhaustive": 1152, "outcomes(tree compiler)": cls, "comparison": "bitwise"}


def scene_pass(ctx, drv, impl, rng, nscene, naspec, cmp, state, stream=0):
    """apply -> compile over the option / body / sequence space: `cspec` oracle lines (and, with a driver, `aspec`
    differential lines on scenes without fusestatic)."""
    scenes = directed_scenes() if stream == 0 else []
    while len(scenes) < nscene:
        scenes.append(gen_scene(rng))
    cases = []
    for k, c in enumerate(scenes):
        B = rng.choice((1.0, 2.0, 3.0))
        th = DIRECTED_THETA[9] if (stream == 0 and k % 7 == 0) else [rng.uniform(-B, B) for _ in range(10)]
        cases.append((c, th, scene_line("cspec", c, th)))
    hist = {}
    for c, _, _ in cases:
        for k in ("ifg", "inr", "ng", "gm", "jt", "ch", "seq", "bal", "af", "fs", "dv", "igr"):
            bump(hist, "%s=%s" % (k, c[k]))
        bump(hist, "ifg=%s&geoms=%s&inertial=%s" % (c["ifg"], "yes" if has_sel_geom(c) else "no", "yes" if c["inr"] != "none" else "no"))
    alines = []
    if drv and naspec:
        # the spec state is read after the whole API sequence: scenes on which a known finding makes the sequence raise before that
        # (fused target body; a compile after the first apply on a body whose inertial uses an orientation alternative) are left
        # to the oracle pass
        pool = [(c, th) for c, th, _ in cases if c["fs"] == "0" and
                not (c["inr"] in ALT_KINDS and c["seq"] in ("twice", "thenother", "recompile"))]
        for c, th in pool[:naspec]:
            alines.append(scene_line("aspec", c, th))
        alines += ["aspec 2 0 1 - 00", "aspec 3 0 1 - " + " ".join(hx(0.0) for _ in range(10)), "aspec 2 0 1"]
    with concurrent.futures.ThreadPoolExecutor(max_workers=1) as ex:
        fut = ex.submit(ctx.run_lines, impl, [l for _, _, l in cases])
        if alines:
            ctx.differential("applyTheta (interpreted applyProg, Float) vs the spec state left by the real apply_body_theta_inertia "
                             "[scenes]", [drv], impl, alines, keyf=lambda l: l if len(l) > 60 else None, cmp=cmp)
        rc, outs, err = fut.result()
    if rc != 0 or len(outs) != len(cases):
        ctx.oracle_failure("c47:harness-crash", "scene pass crashed rc=%s" % rc, {"stderr": err[-500:]})
        return
    classes, sdev, info = {}, {}, {}
    for (c, th, l), o in zip(cases, outs):
        ctx.count(l)
        if not o.startswith("{"):
            state["nfail"] += 1
            ctx.oracle_failure("c47:exception", "scene harness raised: " + o[:200], {"line": l, "replay": replay_cmd(l)})
            continue
        oj = json.loads(o)
        fl, cls, dv = oracle_scene(c, th, oj)
        bump(classes, cls)
        for k, v in (dv or {}).items():
            if k.startswith("info:"):
                bump(info, k[5:])
            else:
                sdev[k] = max(sdev.get(k, 0.0), v)
        for key, what in fl:
            state["nfail"] += 1
            bump(classes, "failure:" + key)
            replay = {"cfg": cfg_token(c), "theta": th, "line": l, "replay": replay_cmd(l),
                      "impl_output": {k: oj.get(k) for k in ("exc", "stage", "pi", "post", "mass", "ipos", "inertia", "pi_back", "before", "after")}}
            if "collect" in state:
                state["collect"].append((key, what, replay))
            elif state["nfail"] <= 40 or key in (KEY_ALT, KEY_FUSED):
                if not (key in (KEY_ALT, KEY_FUSED) and classes["failure:" + key] > 2):
                    ctx.oracle_failure(key, what, replay)
    if stream == 0:
        ctx.sample({"op": cases[0][2], "cspec": json.loads(outs[0]) if outs[0].startswith("{") else outs[0]})
        ctx.extra["scene_distribution"] = hist
        ctx.extra["scene_classes"] = classes
        ctx.extra["scene_max_deviation"] = {k: float("%.3g" % v) for k, v in sdev.items()}
        ctx.extra["scene_cases"] = len(cases)
        ctx.extra["informational(not part of the property)"] = {"scenes in which another body's compiled mass properties differ after the call": info}


# ======================================================================================================
def run(ctx):
    thorough = ctx.tier == "thorough"
    ctx.rule = ("op lines `fwd theta` (pi_from_theta -> pseudoinertia_from_pi -> theta_from_pseudoinertia), `pseudo pi`, `chol J`, `apply theta`; theta seeded "
                "uniform in boxes of half-width 1/3%s (mixtures, some integer/corner points, directed unit vectors); a case is distinct by its line; "
                "all cases are non-trivial except the malformed-op lines" % ("/8" if thorough else ""))
    t0 = time.time()
    phase = {}
    ctx.lean_props(THEOREMS)
    drv = ctx.driver("drv_c47")
    phase["lean build+audit"] = round(time.time() - t0, 1)
    if not os.path.exists(os.path.join(common.REPO, "python", "mujoco", "sysid", "_src", "model_modifier.py")):
        ctx.oblige("anchor python/mujoco/sysid/_src/model_modifier.py present", "impl-build", False, "file missing")
        return
    if not drv:
        return
    rng = ctx.rng
    nfwd = 1000000 if thorough else 10000
    chunk = 100000
    napply = 2000 if thorough else 400
    ncompile = 2000 if thorough else 150
    nscene = 6000 if thorough else 450
    naspec = 2000 if thorough else 250
    dev = Dev()
    cmp_fail = []
    cmp = make_cmp(dev, cmp_fail)
    impl = impl_cmd()

    # sanity: the harness runs and is running the tree's module
    rc, outs, err = ctx.run_lines(impl, ["frob 1", "fwd 12"])
    ctx.oblige("implementation harness starts (tree module importable)", "impl-build", rc == 0 and outs == ["bad-op", "bad-op"],
               "rc=%s out=%r err=%s" % (rc, outs[:3], err[-800:]))
    if rc != 0 or outs != ["bad-op", "bad-op"]:
        return

    # ---- structural tie: the spec-touching statements of _infer_inertial / apply_body_theta_inertia, extracted from the
    # source, are the modelled programs inferProg / applyProg
    protocol_tie(ctx, drv)
    # ---- decision-table tie: compileBody vs the tree's own mjCBody::Compile
    resolve_tie(ctx, drv, rng, thorough)
    phase["protocol+resolve ties"] = round(time.time() - t0, 1)

    hist = {}
    orc = {"judged": 0, "ill-conditioned(not judged)": 0, "ill-conditioned(LinAlgError)": 0}
    worst_rt = 0.0
    within_1e8 = 0
    nfail = 0
    done = 0
    first = True
    while done < nfwd:
        n = min(chunk, nfwd - done)
        thetas = []
        if first:
            thetas += [(t, 0.0) for t in DIRECTED_THETA]
        while len(thetas) < n:
            thetas.append(gen_theta(rng, ctx.tier))
        lines = ["fwd " + " ".join(hx(v) for v in th) for th, _ in thetas]
        for _, B in thetas:
            hist["fwd:B<=%g" % B] = hist.get("fwd:B<=%g" % B, 0) + 1
        extra = []
        if first:
            for _ in range(nfwd // 10 if not thorough else 20000):
                extra.append(gen_pseudo_line(rng))
                hist["pseudo"] = hist.get("pseudo", 0) + 1
            for _ in range(nfwd // 10 if not thorough else 50000):
                l, cls = gen_chol_line(rng, ctx.tier)
                extra.append(l)
                hist["chol:" + cls] = hist.get("chol:" + cls, 0) + 1
            for _ in range(napply):
                th, B = gen_theta(rng, "quick")
                extra.append("apply " + " ".join(hx(v) for v in th))
                hist["apply"] = hist.get("apply", 0) + 1
            extra += ["frob 1 2", "fwd 0000000000000000", "chol zz", ""]
        # ---- S: oracle on the implementation alone (numpy eigenvalues computed in the harness on the real outputs);
        # the oracle process runs concurrently with the differential pass (separate process, same inputs)
        olines = ["oracle" + l[3:] for l in lines]
        with concurrent.futures.ThreadPoolExecutor(max_workers=1) as ex:
            fut = ex.submit(ctx.run_lines, impl, olines)
            ctx.differential("model(Float) vs numpy model_modifier.py [%d..%d)" % (done, done + n), [drv], impl,
                             lines + extra, keyf=lambda l: l if len(l) > 40 else None, cmp=cmp)
            rc, outs, err = fut.result()
        if rc != 0 or len(outs) != len(olines):
            ctx.oracle_failure("c47:harness-crash", "oracle pass crashed rc=%s" % rc, {"stderr": err[-500:]})
            break
        for (th, _), l, o in zip(thetas, olines, outs):
            if not o.startswith("{"):
                nfail += 1
                if nfail <= 5:
                    ctx.oracle_failure("c47:exception", "real code raised: " + o[:200], {"line": l, "replay": replay_cmd(l)})
                continue
            fl, cls = oracle_theta(th, json.loads(o))
            if isinstance(cls, tuple):
                orc["judged"] += 1
                worst_rt = max(worst_rt, cls[1] / cls[2])
                if cls[1] <= 1e-8:
                    within_1e8 += 1
            else:
                orc[cls] = orc.get(cls, 0) + 1
            for key, what in fl:
                nfail += 1
                if nfail <= 8:
                    ctx.oracle_failure(key, what, {"theta": th, "line": l, "impl_output": json.loads(o), "replay": replay_cmd(l)})
        if first and len(outs) > 12:
            ctx.sample({"op": lines[11], "oracle": json.loads(outs[11])})
        done += n
        first = False

    phase["differential+oracle"] = round(time.time() - t0, 1)
    # ---- apply -> compile -> same mass properties (wheel's MjSpec as container)
    cl, cth = [], []
    for _ in range(ncompile):
        B = rng.choice((1.0, 2.0, 3.0))
        th = [rng.uniform(-B, B) for _ in range(10)]
        cth.append(th)
        cl.append("compile " + " ".join(hx(v) for v in th))
    rc, outs, err = ctx.run_lines(impl, cl)
    cdev = {}
    if rc != 0 or len(outs) != len(cl):
        ctx.oracle_failure("c47:harness-crash", "compile pass crashed rc=%s" % rc, {"stderr": err[-500:]})
    else:
        for th, l, o in zip(cth, cl, outs):
            ctx.count(l)
            if not o.startswith("{"):
                nfail += 1
                ctx.oracle_failure("c47:exception", "real code raised: " + o[:200], {"line": l, "replay": replay_cmd(l)})
                continue
            fl, dv = oracle_compile(th, json.loads(o))
            for k, v in (dv or {}).items():
                cdev[k] = max(cdev.get(k, 0.0), v)
            for key, what in fl:
                nfail += 1
                if nfail <= 8:
                    ctx.oracle_failure(key, what, {"theta": th, "line": l, "impl_output": json.loads(o), "replay": replay_cmd(l)})
        ctx.sample({"op": cl[0], "compile": json.loads(outs[0]) if outs[0].startswith("{") else outs[0]})

    phase["compile"] = round(time.time() - t0, 1)
    # ---- apply -> compile over the spec option / body / API-sequence space
    state = {"nfail": nfail}
    scene_pass(ctx, drv, impl, rng, nscene, naspec, cmp, state, stream=0)
    nfail = state["nfail"]
    phase["scenes"] = round(time.time() - t0, 1)

    def directed(ctx2):
        # a proof / tie obligation is broken and the oracle found nothing: look harder in the scene space
        st = {"nfail": 0, "collect": []}
        scene_pass(ctx2, None, impl, ctx2.rng, 4000, 0, None, st, stream=1)
        for key, what, replay in st["collect"]:
            if key not in (KEY_ALT, KEY_FUSED):
                return {"key": key, "what": what, "replay": replay}
        return None
    ctx.directed_search = directed
    ctx.extra["phase_cumulative_s"] = phase
    ctx.extra["input_distribution"] = hist
    ctx.extra["tolerances"] = {
        "forward (pi, J, body)": "|model-numpy| <= %g * scale; scale(J_ab)=sqrt(J_aa J_bb), scale(I_ii)=scale(Sigma_ii)=tr(Sigma), scale(m)=m, scale(h_i)=sqrt(J_ii m)" % REL,
        "inverse (theta', U)": "|dtheta| <= 1e-10 + %g*eps*kappa_F(U)^2; not judged when that exceeds %g" % (CHOL_C, JUDGE_MAX),
        "oracle round trip": "|theta'-theta| <= 1e-12 + %g*eps*cond_2(J); not judged above %g; LinAlgError accepted only if eps*cond > %g" % (RT_C, JUDGE_MAX, ERR_OK_COND),
        "oracle eigenvalues": "lambda_min >= -%g*eps*lambda_max always, > 0 strictly when eps*cond < 1e-3" % EIG_C,
        "compile": "mass 1e-12, ipos 1e-9, pi_from_body vs pi_from_theta %g relative to scale (mju_eig3 frame accuracy ~1e-6), theta_inertia_from_body 1e-9 + %g*cond, judged below %g" % (COMPILE_REL, COMPILE_REL, JUDGE_MAX),
    }
    ctx.extra["max_deviation_over_tolerance"] = {k: float("%.3g" % v) for k, v in sorted(dev.max.items())}
    ctx.extra["compared_values"] = dev.n
    ctx.extra["bitwise_equal_values"] = dev.bitwise
    ctx.extra["oracle_roundtrip_classes"] = orc
    ctx.extra["oracle_roundtrip_max_err_over_tol"] = float("%.3g" % worst_rt)
    ctx.extra["oracle_roundtrip_within_1e-8"] = within_1e8
    ctx.extra["oracle_failures"] = nfail
    ctx.extra["compile_max_deviation"] = {k: float("%.3g" % v) for k, v in cdev.items()}
    ctx.extra["compile_cases"] = ncompile
    if cmp_fail:
        ctx.extra["cmp_exceptions"] = cmp_fail[:5]
    if thorough:
        ctx.leanchecker(["MjProof.Props.C47"])


def replay_cmd(line):
    return "echo '%s' | OPENBLAS_NUM_THREADS=1 %s %s %s" % (line, PY, IMPL, common.REPO)
