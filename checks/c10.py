"""C10  Constraint solvers return the optimum of the documented problem (DESIGN.md §5.C10).

P  lean/MjProof/Props/C10.lean: certificate theorems over the reals (Mathlib: Matrix.PosDef, convexity):
   suboptimality_certificate (+ witness / infimum forms), distance_certificate, minimiser_unique,
   island_decomposition (+ block_cost_separates, unconstrained_block_minimiser), island_solve_is_global_minimiser
   (+ scalar-row form) for ANY labelling of dofs / rows that makes M, J block diagonal, island_partition_checker_sound,
   primalSearch_checked, primal_monotone_partial, warmstart_picks_cheaper.
T  (a) the SAME Lean checker (Model/SolverCert.lean: `certify`, built on the C11/C12 model of
   mj_constraintUpdate_impl) is compiled (drv_c10) and run on IEEE doubles on the real outputs of the engine; its
   constraint cost / forces are compared with what the engine's own mj_constraintUpdate returns at the same point;
   (b) the hand model of PrimalSearch / updateBracket / PrimalPrepare / PrimalEval (scalar rows) is compared BITWISE
   with the real static functions of engine_solver.c on synthetic one-dof line problems;
   (c) the Lean partition checker (Model/IslandSep.lean `partitionOk`, proved to decide the hypotheses of the island
   theorem) is run on the REAL output of mj_island (dof_island, efc_island) with the dense M and J of every solve that
   used islands: the partition handed to the per-island solvers must make the documented cost block separable;
   (d) the Lean impedance checker (Model/ConeImp.lean, built on the C12 model `impEll` of mj_makeImpedance) is run on the
   REAL efc_R / efc_D / contact.mu / contact.friction of every frictional contact of every solve: they must be the output
   of the documented impedance law (R[j] friction[j]^2 = const, mu = friction[0] sqrt(R[i+1]/R[i]), D = 1/R), which is the
   hypothesis under which the cone cost satisfies the certificate's GradIneq (cone_block_gradIneq_documented_impedance)
   and under which the primal (efc_D, mu, friction) and the dual (efc_R) solvers describe the same problem.
S  oracle on generated scenes (equality, friction loss, limits, pyramidal and elliptic contacts of every condim; plus
   coupled-tree scenes: several kinematic trees coupled only by joint / tendon equalities, tendon limits and friction
   loss, spatial tendons, connect / weld with body and site semantics, over adjacent and distant trees, first / last /
   inner dofs; plus explicit contact pairs with five different friction coefficients, condim 1 / 3 / 4 / 6, impratio
   0.5 .. 10, optional solreffriction, sticking and sliding states), for Newton / CG / PGS, dense / sparse, islands on / off, warm start on / off, tolerance 1e-12:
   converged primal solves have a certified sub-optimality <= BOUND_REL (scaled like the solver's own statistics);
   the solvers agree pairwise within the certified radii; the per-island and the monolithic solve of the same solver
   agree within ISLAND_AGREE (qacc in the M-norm, efc_force); a primal solver never ends above the cheaper of its two
   candidate starting points.
"""
import json
import math
import struct

from gen.enums import E
from gen.models import ModelGen

USES_GEN = False

META = {
    "technique": "verified certificate checker: Lean 4 theorems (Mathlib linear algebra / convexity) that for every point a "
                 "bound the sub-optimality and the M-distance to the minimiser of the documented objective by the gradient "
                 "norm in the M^-1 metric; the same Lean checker, compiled, is evaluated on the real outputs of the engine's "
                 "Newton / CG / PGS solvers (dense inertia, dense Jacobian, aref, D, R, frictionloss, contacts read from mjData); "
                 "hand model of the PrimalSearch exit logic and PrimalEval (scalar rows) tied BITWISE to the static C functions; "
                 "verified partition checker (Lean, proved to decide the hypotheses of the island theorem) evaluated on the real "
                 "dof_island / efc_island of mj_island with the dense M, J of every per-island solve; "
                 "verified impedance checker (Lean, the C12 model of mj_makeImpedance) evaluated on the real efc_R / efc_D / contact.mu "
                 "of every frictional contact (hypothesis of the certificate for cone blocks); "
                 "property oracle over generated scenes",
    "text": "Proved over the reals for every positive definite M, every J, a0, aref and every convex differentiable constraint "
            "cost s with force f = -grad s (a hypothesis in general; DISCHARGED here for every problem made of scalar rows - equality, friction "
            "loss, limits, frictionless and pyramidal contacts - with the row laws of the C11/C12 model and the parameter relations "
            "D >= 0, D R = 1, frictionloss >= 0; for elliptic cone blocks C12 proves it under the impedance relation): at EVERY point a "
            "and against EVERY x, cost(a) - cost(x) <= 1/2 g' M^-1 g with g the gradient (also against the infimum; witness "
            "form with M w = g for positive semidefinite M), the M-distance of a to the (unique) stationary point is "
            "<= sqrt(g' M^-1 g), a stationary point is the global minimiser; for block-separable costs (islands) the "
            "minimisers are exactly the tuples of block minimisers and block-diagonal M, J give such a cost, with a0 minimising "
            "a block without constraint rows; for ANY labelling of the dofs and rows (the engine's dof_island / efc_island, -1 = outside "
            "every island) under which M couples only equally labelled dofs, every row's Jacobian is supported on the dofs of the row's "
            "label, no row is outside every island and the rows of one cone block share a label, a point that solves every island's "
            "sub-problem and equals qacc_smooth outside the islands is the global minimiser (island_solve_is_global_minimiser), and the "
            "executable partition check returns true exactly when these hypotheses hold (island_partition_checker_sound); "
            "for an elliptic cone block whose regularisers follow the documented impedance law of mj_makeImpedance (any impratio, any "
            "positive, possibly anisotropic friction coefficients) the cone cost of the C11/C12 model satisfies the supporting-hyperplane "
            "inequality, i.e. the hypothesis of the certificates (cone_block_gradIneq_documented_impedance); "
            "for the modelled PrimalSearch, for every evaluation function, every exit either "
            "returns step 0, or a point whose evaluated cost difference is < 0, or is one of three exits the code does not "
            "cost-check (LSresult 3, 7, converged bracket candidate); for scalar rows the modelled PrimalPrepare + PrimalEval return exactly the "
            "change of the documented cost (Gauss term + row costs of the C11/C12 model) along the search line, so a cost-checked "
            "exit strictly decreases the documented cost; the modelled accept loop never increases the cost when "
            "all accepted steps are cost-checked (PARTIAL: the three unchecked exits are only sampled); the warm start takes the "
            "cheaper of qacc_warmstart and qacc_smooth. The theorem is unbounded; WHICH solver outputs get the certificate "
            "evaluated is sampled (level: proof of the certificate, sampled application).",
    "note": "the solver iterations (Newton Hessian / Cholesky updates, CG directions, PGS sweeps, QCQP) are not modelled: their "
            "results are judged by the certificate. Island DISCOVERY (engine_island.c: treeNext / treeIterInit / unionConstraintTrees) is "
            "not modelled either (C17 models the union-find and the index maps): its output is judged on every per-island solve by the "
            "verified partition checker, so which partitions get checked is sampled (flex contacts / flex equalities are not generated). The certificate reads efc_D / contact.mu from the engine; that these are what the documented impedance law gives from efc_R[i], "
            "impratio and contact.friction is checked on every frictional contact of every solve (relative 1e-10; observed bit-identical), "
            "which contacts is sampled (anisotropic friction only through explicit contact pairs); for pyramidal contacts R[i] is overwritten, "
            "so only the equality of the rows, D R = 1 and mu are checked there. Convexity of the elliptic cone cost is a hypothesis of the certificate "
            "theorems (proved separately in Props/C12 under the impedance relation). PrimalEval is modelled for scalar rows "
            "only (elliptic cone line evaluation: oracle only). PGS (dual method) is judged by the cost gap to the best other solve of the "
            "same rows, not by the primal upper bound. Observation recorded by the oracle: for the same state the dense and the sparse "
            "Jacobian can build different row sets (rows with an empty Jacobian are kept in dense mode only; same minimiser, cost "
            "shifted by a constant), so only solves with identical rows are compared. Floating point: the checker runs on doubles; its own residual "
            "|M w - g| is reported and bounded.",
}

THEOREMS = [
    "MjProof.C10.suboptimality_certificate",
    "MjProof.C10.suboptimality_certificate_witness",
    "MjProof.C10.suboptimality_vs_infimum",
    "MjProof.C10.distance_certificate",
    "MjProof.C10.distance_certificate_witness",
    "MjProof.C10.stationary_is_minimiser",
    "MjProof.C10.minimiser_unique",
    "MjProof.C10.gradIneq_scalar_rows",
    "MjProof.C10.suboptimality_certificate_scalar_rows",
    "MjProof.C10.island_decomposition",
    "MjProof.C10.block_cost_separates",
    "MjProof.C10.unconstrained_block_minimiser",
    "MjProof.C10.island_solve_is_global_minimiser",
    "MjProof.C10.island_solve_is_global_minimiser_scalar_rows",
    "MjProof.C10.island_partition_checker_sound",
    "MjProof.C10.cone_block_gradIneq_documented_impedance",
    "MjProof.C10.cone_block_model",
    "MjProof.C10.primalSearch_checked",
    "MjProof.C10.primalEval_is_cost_difference",
    "MjProof.C10.primalSearch_checked_decreases_cost",
    "MjProof.C10.primal_monotone_partial",
    "MjProof.C10.warmstart_picks_cheaper",
]

PROFILE = {
    "nbody": (1, 5), "free": 0.45, "ball": 0.15, "slide": 0.25, "plane": 0.9, "contacts": 1.0, "limits": 0.5,
    "damping": 0.4, "stiffness": 0.3, "frictionloss": 0.4, "actuators": (0, 2), "actuator_kinds": ("motor", "position", "velocity"),
    "tendons": 0.4, "equalities": 0.5, "sensors": (0, 0), "sleep": 0.0, "energy": 0.0, "keys": 0.0, "numeric": 0.0,
    "cameras": 0.0, "mocap": 0.05, "integrators": ("Euler", "implicitfast"), "islands": 1.0, "no_warmstart": 0.0,
    "gravity": 0.95, "condim": (1, 3, 4, 6), "timestep": (0.001, 0.004),
}

NEWTON, CG, PGS = E("mjSOL_NEWTON"), E("mjSOL_CG"), E("mjSOL_PGS")
SOLNAME = {NEWTON: "Newton", CG: "CG", PGS: "PGS"}
ITER = {NEWTON: 200, CG: 1000, PGS: 5000}
TOL = 1e-12
TOL_LOOSE = 1e-6

# thresholds (calibrated on the unmodified tree over 20 quick seeds + thorough runs, see ctx.extra["oracle_stats"]);
# scaled certified sub-optimality 1/2 g'M^-1 g / (meaninertia * nv) of a solve that left its loop through its own exit test
BOUND_REL = {             # observed maxima:
    "Newton": 1e-14,          # 7e-18
    "Newton/elliptic": 1e-8,  # 4e-11
    "CG": 1e-7,               # 1.5e-10
    "CG/elliptic": 1e-7,      # 4.4e-10
    "PGS": 1e-4,              # (reported only; PGS is judged by the cost gap GAP_PGS, see below)
    "PGS/elliptic": 1e-4,     # not met by the unmodified tree: PGS_ELLIPTIC_KEY
    "Newton@loose": 0.05, "Newton/elliptic@loose": 0.05, "CG@loose": 0.05, "CG/elliptic@loose": 0.05,   # tolerance 1e-6: observed 5e-4
}
NOISE_REL = 1e-11         # relative resolution granted to the engine's own cost evaluation (~5e4 ulp of the cost)
GAP_PGS = 1e-3            # scaled cost gap of a converged PGS solve to the best other solve of the same problem (observed <= 2e-6)
PGS_ELLIPTIC_KEY = "c10:pgs-elliptic-converges-off-optimum"
# deterministic witness of PGS_ELLIPTIC_KEY (a generated 2-dof scene: weld, limit, friction loss, one elliptic contact)
WITNESS = {
    "lines": [
    "option timestep 0.0022980724213741612",
    "option integrator 3",
    "option solver 0",
    "option cone 1",
    "option jacobian 2",
    "option enableflags 0",
    "option disableflags 0",
    "geom 1 0",
    "set 1 type 0",
    "set 1 size 5 5 0.1",
    "name 1 floor",
    "body 2 0",
    "name 2 b1",
    "set 2 pos 0.03022622575196532 -0.3515617992359751 0.878636014912821",
    "set 2 quat -0.30556402254297405 0.6553364238046105 -0.21413246477619463 -0.6567435475824734",
    "joint 3 2",
    "name 3 j1",
    "set 3 type 2",
    "set 3 pos -0.06631390102101703 0.17713199545086644 0.09210489662207594",
    "set 3 axis 0.5264570741870657 -0.566174380798807 -0.634262973509791",
    "set 3 damping 1.5217696839984038",
    "set 3 armature 0.17486690615217554",
    "geom 4 2",
    "name 4 g2",
    "set 4 type 5",
    "set 4 size 0.09207087917619522 0.18242425594956424",
    "set 4 pos -0.09685557010552315 0.03956801341762933 0.099327828722439",
    "set 4 contype 1",
    "set 4 conaffinity 2",
    "set 4 condim 3",
    "set 4 friction 1.2085043412358132 0.0053663389638451695 0.0047705882271204154",
    "set 4 margin 0.03482254957086525",
    "geom 5 2",
    "name 5 g3",
    "set 5 type 4",
    "set 5 size 0.24996041686808215 0.14273850048082398 0.18040945447979906",
    "set 5 pos -0.12191812757609544 -0.12103755781295113 0.07757484918804677",
    "set 5 condim 1",
    "set 5 margin 0.03772253019578227",
    "site 6 2",
    "name 6 s1",
    "set 6 pos 0.19879103146364802 -0.08839326812147111 0.13132710333147912",
    "body 7 2",
    "name 7 b2",
    "set 7 pos 0.1659047905813842 0.26503279498012855 0.061607241432729776",
    "set 7 quat 0.3863642519616356 -0.343158031155141 -0.7515999961344738 0.40995448072988794",
    "joint 8 7",
    "name 8 j2",
    "set 8 type 3",
    "set 8 pos -0.1381460389664787 0.05664645900807752 0.10311536123563808",
    "set 8 axis 0.7187557723925894 0.42907238082440285 0.5470713222844084",
    "set 8 limited 1",
    "set 8 range 0.09551026316070366 0.46755812333252444",
    "set 8 damping 0.435294516295352",
    "set 8 stiffness 6.978017955239907",
    "set 8 springref 0.41136862174868416",
    "set 8 armature 0.347033784208364",
    "set 8 frictionloss 0.6731777099127428",
    "geom 9 7",
    "name 9 g4",
    "set 9 type 4",
    "set 9 size 0.24469032493352444 0.14149323857936782 0.24130211451251674",
    "set 9 pos -0.012358824799190538 -0.0005521155285370949 -0.11003189431077998",
    "set 9 quat 0.7014612057214973 -0.5906083823076993 -0.2715882004914175 0.29218789326298084",
    "set 9 contype 1",
    "set 9 conaffinity 3",
    "set 9 condim 1",
    "set 9 priority 0",
    "geom 10 7",
    "name 10 g5",
    "set 10 type 5",
    "set 10 size 0.24345568113853272 0.057792630073839626",
    "set 10 pos -0.07675394015323052 0.02898028201874589 0.06162283937856297",
    "set 10 quat -0.09804298325925093 0.27877066162422814 -0.7920360374383533 0.5341848060832205",
    "set 10 condim 4",
    "set 10 friction 0.33424219508580266 0.02505478275898939 0.0041397136311263705",
    "set 10 group 1",
    "equality 11",
    "set 11 type 1",
    "set 11 objtype 1",
    "set 11 name1 b2",
    "set 11 name2 b1",
    "set 11 data 0 0 0 0 0 0 1 0 0 0 1",
    "name 11 eq1"
    ],
    "set": [
    "state qpos 0.7886914765987987 0.5175581233325245",
    "state qvel -0.41352027716172535 1.4379739726487208",
    "state qfrc_applied 0.0 0.0",
    "state xfrc_applied 0.0 0.0 0.0 0.47389352809997437 -0.27909916138535346 0.0 0.0 0.0 0.0 0.0 0.0 0.0 0.0 0.0 0.0 0.0 0.0 0.0"
    ]
    }
# per-island vs monolithic solve of the same problem by the same solver, both converged at tolerance 1e-12: (M-norm distance /
# (|qacc|_M + 1), max efc_force difference / max(1, |force|)); observed maxima on the unmodified tree in the comments
ISLAND_AGREE = {"Newton": (1e-8, 1e-7),            # 1.6e-12, 1.7e-11
                "Newton/elliptic": (1e-6, 1e-5),   # 2.3e-9, 2.7e-7
                "CG": (1e-5, 1e-4),                # 2.9e-7, 9.9e-7
                "CG/elliptic": (1e-4, 1e-3),       # 1.2e-7, 8.2e-7
                "PGS": (1e-5, 1e-3)}               # 1.0e-7, 1.1e-5   (PGS/elliptic: not judged, see PGS_ELLIPTIC_KEY)
IMP_REL = 1e-10           # efc_R / efc_D / contact.mu against the documented impedance law (observed: bit-identical up to 1 ulp)
COST_TIE_REL = 1e-9       # Lean constraint cost vs mj_constraintUpdate cost
FORCE_TIE_REL = 1e-9      # Lean forces vs mj_constraintUpdate forces
MONO_REL = 1e-9           # final cost may exceed the start cost by rounding only
RESID_REL = 1e-7          # |M w - g|_inf / |g|_2 of the checker's own Cholesky solve


def hexf(x):
    return "%016x" % struct.unpack("<Q", struct.pack("<d", float(x)))[0]


def unhex(s):
    return float("nan") if s == "nan" else struct.unpack("<d", struct.pack("<Q", int(s, 16)))[0]


def fmt(v):
    return " ".join(repr(float(x)) for x in v)


def gen_script(ctx, nmodels, ntrees, npairs):
    rng = ctx.rng
    script, meta = [], []
    for mi in range(-1, nmodels):
        if mi < 0:
            mlines = WITNESS["lines"]
        else:
            mdl = ModelGen(rng, PROFILE).make()
            if mdl.nv == 0 or mdl.nv > 26:
                continue
            mlines = mdl.lines
        script.append("model")
        script += mlines + ["end"]
        meta.append(("model", {"model": mi, "lines": mlines}))
        for si in range(1 if mi < 0 else 2):
            if mi < 0:
                setlines, nsettle = WITNESS["set"], 0
            else:
                st = mdl.random_state(rng, scale=rng.choice((0.3, 1.0)))
                # bring bodies with free joints close to the floor so that contacts are active
                for j in mdl.joints:
                    if j["type"] == "free" and rng.random() < 0.7:
                        st["qpos"][j["qposadr"] + 2] = rng.uniform(0.02, 0.3)
                setlines = []
                for f, key in (("qpos", "qpos"), ("qvel", "qvel"), ("act", "act"), ("ctrl", "ctrl"), ("qfrc_applied", "qfrc_applied"),
                               ("xfrc_applied", "xfrc_applied"), ("mocap_pos", "mocap_pos"), ("mocap_quat", "mocap_quat")):
                    if st[key]:
                        setlines.append("state %s %s" % (f, fmt(st[key])))
                nsettle = rng.choice((0, 0, 3, 10))
            info = {"model": mi, "state": si, "set": setlines, "settle": nsettle}
            for l in setlines:
                script.append(l)
                meta.append(("state", info))
            # qacc_warmstart of a fresh mjData is zero; after settling it is the previous acceleration
            script.append("settle %d" % nsettle)
            meta.append(("settle", info))
            cone = E("mjCONE_ELLIPTIC") if mi < 0 else rng.choice((E("mjCONE_PYRAMIDAL"), E("mjCONE_ELLIPTIC")))
            impratio = rng.choice((1.0, 1.0, 3.0)) if (cone == E("mjCONE_ELLIPTIC") and mi >= 0) else 1.0
            nowarm = 1 if (mi < 0 or rng.random() < 0.25) else 0
            lsit = 50
            cfgs = []
            for solver in (NEWTON, CG, PGS):
                for noisland in (1, 0):
                    jac = rng.choice((E("mjJAC_DENSE"), E("mjJAC_SPARSE")))
                    cfgs.append((solver, jac, noisland))
            cfgs = [(s_, j_, n_, ITER[s_], TOL) for s_, j_, n_ in cfgs]
            # the same problem at a loose tolerance: the exit tests decide where the solver stops, the certificate says how
            # far that is from the optimum (calibrated against the tolerance)
            cfgs += [(NEWTON, E("mjJAC_DENSE"), 1, ITER[NEWTON], TOL_LOOSE), (CG, E("mjJAC_DENSE"), 1, ITER[CG], TOL_LOOSE)]
            # truncated primal solves: 0 iterations returns the chosen starting point itself (warm-start choice), 2 iterations
            # exercise the accept rule far from convergence; only the monotonicity clause is judged on these
            cfgs += [(NEWTON, E("mjJAC_DENSE"), 1, 0, TOL), (CG, E("mjJAC_SPARSE"), rng.choice((0, 1)), 2, TOL), (NEWTON, E("mjJAC_SPARSE"), 0, 1, TOL)]
            for solver, jac, noisland, iters, tol in cfgs:
                op = "solve %d %d %d %d %d %r %d %d %r 0" % (solver, cone, jac, noisland, iters, tol, nowarm, lsit, impratio)
                script.append(op)
                meta.append(("solve", dict(info, op=op, solver=solver, noisland=noisland, jac=jac, cone=cone, nowarm=nowarm,
                                           truncated=iters < 10, loose=tol != TOL)))
    # coupled-tree scenes: every solver, monolithic and per island, with BOTH Jacobian layouts (mj_island finds the trees of a
    # row by a different scan in each layout)
    kinds = {}
    for ti in range(ntrees):
        mlines, joints, tinfo = gen_tree_scene(rng)
        if tinfo["nv"] == 0 or not tinfo["kinds"]:
            continue
        mi = 1000 + ti
        for k in tinfo["kinds"]:
            kinds[k] = kinds.get(k, 0) + 1
        script.append("model")
        script += mlines + ["end"]
        meta.append(("model", {"model": mi, "lines": mlines}))
        for si in range(2):
            setlines = tree_state(rng, joints, tinfo["nv"])
            nsettle = rng.choice((0, 0, 2))
            info = {"model": mi, "state": si, "set": setlines, "settle": nsettle, "family": "coupled-trees"}
            for l in setlines:
                script.append(l)
                meta.append(("state", info))
            script.append("settle %d" % nsettle)
            meta.append(("settle", info))
            cone = rng.choice((E("mjCONE_PYRAMIDAL"), E("mjCONE_ELLIPTIC")))
            nowarm = 1 if rng.random() < 0.25 else 0
            cfgs = [(s_, j_, n_, ITER[s_], TOL) for s_ in (NEWTON, CG, PGS) for j_ in (E("mjJAC_DENSE"), E("mjJAC_SPARSE")) for n_ in (1, 0)]
            cfgs += [(NEWTON, E("mjJAC_DENSE"), 0, 1, TOL), (CG, E("mjJAC_SPARSE"), 0, 2, TOL)]
            for solver, jac, noisland, iters, tol in cfgs:
                op = "solve %d %d %d %d %d %r %d %d %r 0" % (solver, cone, jac, noisland, iters, tol, nowarm, 50, 1.0)
                script.append(op)
                meta.append(("solve", dict(info, op=op, solver=solver, noisland=noisland, jac=jac, cone=cone, nowarm=nowarm,
                                           truncated=iters < 10, loose=False)))
    ctx.extra["coupled_tree_scene_constraints"] = kinds
    # explicit contact pairs with anisotropic friction, every condim, impratio != 1: primal and dual solvers must still describe
    # the same problem (regularisers of mj_makeImpedance)
    pstat = {"scenes": 0, "pairs_anisotropic": 0, "condim": {}}
    for pi in range(npairs):
        mlines, joints, pinfo = gen_pair_scene(rng)
        mi = 2000 + pi
        pstat["scenes"] += 1
        pstat["pairs_anisotropic"] += pinfo["anisotropic"]
        for c in pinfo["condims"]:
            pstat["condim"][str(c)] = pstat["condim"].get(str(c), 0) + 1
        script.append("model")
        script += mlines + ["end"]
        meta.append(("model", {"model": mi, "lines": mlines}))
        for si in range(2):
            setlines = pair_state(rng, joints, pinfo["nv"])
            nsettle = rng.choice((0, 0, 3))
            info = {"model": mi, "state": si, "set": setlines, "settle": nsettle, "family": "anisotropic-pairs"}
            for l in setlines:
                script.append(l)
                meta.append(("state", info))
            script.append("settle %d" % nsettle)
            meta.append(("settle", info))
            cone = rng.choice((E("mjCONE_ELLIPTIC"), E("mjCONE_ELLIPTIC"), E("mjCONE_PYRAMIDAL")))
            impratio = rng.choice((0.5, 1.0, 1.0, 2.0, 10.0))
            nowarm = 1 if rng.random() < 0.25 else 0
            cfgs = [(s_, rng.choice((E("mjJAC_DENSE"), E("mjJAC_SPARSE"))), n_, ITER[s_], TOL) for s_ in (NEWTON, CG, PGS) for n_ in (1, 0)]
            cfgs += [(NEWTON, E("mjJAC_DENSE"), 1, 1, TOL), (CG, E("mjJAC_SPARSE"), 0, 2, TOL)]
            for solver, jac, noisland, iters, tol in cfgs:
                op = "solve %d %d %d %d %d %r %d %d %r 0" % (solver, cone, jac, noisland, iters, tol, nowarm, 50, impratio)
                script.append(op)
                meta.append(("solve", dict(info, op=op, solver=solver, noisland=noisland, jac=jac, cone=cone, nowarm=nowarm,
                                           truncated=iters < 10, loose=False)))
    ctx.extra["anisotropic_pair_scenes"] = pstat
    return script, meta


# ---------------------------------------------------------------- coupled-tree scenes (island discovery feeds the solvers)
GENERIC_KINDS = ("jointeq", "tendoneq", "tendonlimit", "tendonfriction", "spatial", "connect", "weld", "siteconnect", "siteweld")


def gen_tree_scene(rng):
    """Several kinematic trees hanging off the world (single-dof trees, chains, two-joint bodies, ball roots) that interact ONLY
    through constraints spanning two or three trees: joint equalities, fixed tendons with an equality / an active limit / friction
    loss (rows whose trees mj_island finds by scanning the Jacobian row), spatial tendons, and connect / weld equalities with body
    or site semantics (trees looked up from the bodies).  Which dof of which tree takes part (first / last / any) and which trees
    (adjacent / far apart in dof order) is random.  Returns (lines, joints, info)."""
    L = []
    h = [0]

    def newh():
        h[0] += 1
        return h[0]
    contacts = rng.random() < 0.25
    L.append("option timestep %r" % rng.uniform(0.001, 0.004))
    L.append("option integrator %d" % E(rng.choice(("mjINT_EULER", "mjINT_IMPLICITFAST"))))
    L.append("option solver %d" % NEWTON)
    L.append("option cone %d" % E("mjCONE_PYRAMIDAL"))
    L.append("option jacobian %d" % E("mjJAC_AUTO"))
    if rng.random() < 0.1:
        L.append("option gravity 0 0 0")
    L.append("option enableflags 0")
    L.append("option disableflags 0")
    if contacts:
        g = newh()
        L += ["geom %d 0" % g, "set %d type %d" % (g, E("mjGEOM_PLANE")), "set %d size 5 5 0.1" % g, "name %d floor" % g]
    ntree = rng.choice((2, 2, 3, 3, 4, 5))
    joints, bodies, sites, trees = [], [], [], []
    nv = nq = 0
    for t in range(ntree):
        shape = rng.choice(("single", "single", "single", "chain2", "chain3", "twojoint", "ballroot"))
        if nv > 9:
            shape = "single"
        plan = {"single": [["s"]], "chain2": [["s"], ["s"]], "chain3": [["s"], ["s"], ["s"]], "twojoint": [["s", "s"]],
                "ballroot": [["b"], ["s"]]}[shape]
        parent = 0
        tj = []
        for bi, bj in enumerate(plan):
            bh = newh()
            bn = "t%db%d" % (t, bi)
            L.append("body %d %d" % (bh, parent))
            L.append("name %d %s" % (bh, bn))
            pos = [0.7 * t + rng.uniform(-0.1, 0.1), rng.uniform(-0.3, 0.3), rng.uniform(0.4, 1.0)] if bi == 0 else \
                [rng.uniform(-0.3, 0.3), rng.uniform(-0.3, 0.3), rng.uniform(-0.4, -0.1)]
            L.append("set %d pos %s" % (bh, fmt(pos)))
            for kind in bj:
                jh = newh()
                jn = "j%d" % (len(joints) + 1)
                jt = "ball" if kind == "b" else rng.choice(("slide", "hinge"))
                L.append("joint %d %d" % (jh, bh))
                L.append("name %d %s" % (jh, jn))
                L.append("set %d type %d" % (jh, E("mjJNT_" + jt.upper())))
                if jt != "ball":
                    ax = [rng.gauss(0, 1) for _ in range(3)]
                    nrm = math.sqrt(sum(x * x for x in ax)) or 1.0
                    L.append("set %d axis %s" % (jh, fmt([x / nrm for x in ax] if nrm > 1e-3 else [0, 0, 1])))
                    L.append("set %d pos %s" % (jh, fmt([rng.uniform(-0.1, 0.1) for _ in range(3)])))
                    if rng.random() < 0.25:
                        lo = rng.uniform(-0.6, 0.1)
                        L.append("set %d limited %d" % (jh, E("mjLIMITED_TRUE")))
                        L.append("set %d range %s" % (jh, fmt([lo, lo + rng.uniform(0.1, 0.6)])))
                    if rng.random() < 0.25:
                        L.append("set %d frictionloss %r" % (jh, rng.uniform(0.05, 1.0)))
                if rng.random() < 0.4:
                    L.append("set %d damping %r" % (jh, rng.uniform(0.05, 1.5)))
                if rng.random() < 0.4:
                    L.append("set %d armature %r" % (jh, rng.uniform(0.01, 0.3)))
                j = {"name": jn, "type": jt, "tree": t, "dofadr": nv, "qposadr": nq, "ndof": 3 if jt == "ball" else 1}
                joints.append(j)
                tj.append(j)
                nv += j["ndof"]
                nq += 4 if jt == "ball" else 1
            gh = newh()
            L.append("geom %d %d" % (gh, bh))
            L.append("name %d g%d" % (gh, gh))
            L.append("set %d type %d" % (gh, E(rng.choice(("mjGEOM_SPHERE", "mjGEOM_CAPSULE", "mjGEOM_BOX")))))
            L.append("set %d size %s" % (gh, fmt([rng.uniform(0.05, 0.15) for _ in range(3)])))
            L.append("set %d pos %s" % (gh, fmt([rng.uniform(-0.1, 0.1) for _ in range(3)])))
            L.append("set %d density %r" % (gh, rng.uniform(300, 3000)))
            if contacts:
                L.append("set %d condim %d" % (gh, rng.choice((1, 3, 4, 6))))
            else:
                L.append("set %d contype 0" % gh)
                L.append("set %d conaffinity 0" % gh)
            sh = newh()
            sn = "s%d" % (len(sites) + 1)
            L.append("site %d %d" % (sh, bh))
            L.append("name %d %s" % (sh, sn))
            L.append("set %d pos %s" % (sh, fmt([rng.uniform(-0.15, 0.15) for _ in range(3)])))
            sites.append({"name": sn, "tree": t, "body": bn})
            bodies.append({"name": bn, "tree": t})
            parent = bh
        trees.append(tj)
    kinds = []
    ntd = [0]

    def pick_trees(k):
        """k distinct trees: adjacent in dof order half of the time"""
        if rng.random() < 0.5 or ntree <= k:
            a = rng.randint(0, ntree - min(k, ntree))
            ts = list(range(a, a + min(k, ntree)))
        else:
            ts = sorted(rng.sample(range(ntree), k))
        if rng.random() < 0.5:
            ts.reverse()
        return ts

    def pick_joint(t, scalar=True):
        js = [j for j in trees[t] if j["type"] != "ball"] if scalar else trees[t]
        if not js:
            return None
        return rng.choice((js[0], js[-1], rng.choice(js)))

    def fixed_tendon(ts):
        js = [pick_joint(t) for t in ts]
        if any(j is None for j in js):
            return None
        th = newh()
        ntd[0] += 1
        tn = "td%d" % ntd[0]
        L.append("tendon %d" % th)
        L.append("name %d %s" % (th, tn))
        for j in js:
            L.append("wrap %d joint %s %r" % (th, j["name"], rng.choice((-1, 1)) * rng.uniform(0.3, 2.0)))
        return th, tn

    for _ in range(rng.choice((1, 1, 2, 2, 3))):
        kind = rng.choice(GENERIC_KINDS[:5] * 2 + GENERIC_KINDS[5:])
        if kind == "jointeq":
            ta, tb = pick_trees(2)
            a, b = pick_joint(ta), pick_joint(tb)
            if a is None or b is None:
                continue
            eh = newh()
            L += ["equality %d" % eh, "set %d type %d" % (eh, E("mjEQ_JOINT")), "set %d objtype %d" % (eh, E("mjOBJ_JOINT")),
                  "set %d name1 %s" % (eh, a["name"]), "set %d name2 %s" % (eh, b["name"]),
                  "set %d data %s" % (eh, fmt([rng.uniform(-0.2, 0.2), rng.choice((-1, 1)) * rng.uniform(0.5, 1.5), 0, 0, 0]))]
        elif kind in ("tendoneq", "tendonlimit", "tendonfriction"):
            td = fixed_tendon(pick_trees(rng.choice((2, 2, 3))))
            if td is None:
                continue
            th, tn = td
            if kind == "tendoneq":
                eh = newh()
                L += ["equality %d" % eh, "set %d type %d" % (eh, E("mjEQ_TENDON")), "set %d objtype %d" % (eh, E("mjOBJ_TENDON")),
                      "set %d name1 %s" % (eh, tn)]
                if rng.random() < 0.4:
                    td2 = fixed_tendon(pick_trees(2))
                    if td2 is not None:
                        L.append("set %d name2 %s" % (eh, td2[1]))
                L.append("set %d data %s" % (eh, fmt([rng.uniform(-0.2, 0.2), rng.uniform(0.5, 1.5), 0, 0, 0])))
            elif kind == "tendonlimit":
                L.append("set %d limited %d" % (th, E("mjLIMITED_TRUE")))
                c = rng.uniform(-0.3, 0.3)
                L.append("set %d range %s" % (th, fmt([c - 0.02, c + 0.02])))
                if rng.random() < 0.5:
                    L.append("set %d margin 5" % th)      # the limit row is present whatever the length
            else:
                L.append("set %d frictionloss %r" % (th, rng.uniform(0.05, 1.0)))
        elif kind == "spatial":
            ta, tb = pick_trees(2)
            sa = rng.choice([x for x in sites if x["tree"] == ta])
            sb = rng.choice([x for x in sites if x["tree"] == tb])
            th = newh()
            ntd[0] += 1
            L += ["tendon %d" % th, "name %d td%d" % (th, ntd[0]), "wrap %d site %s" % (th, sa["name"]), "wrap %d site %s" % (th, sb["name"])]
            if rng.random() < 0.5:
                L += ["set %d limited %d" % (th, E("mjLIMITED_TRUE")), "set %d range 0 0.05" % th]
            else:
                L.append("set %d frictionloss %r" % (th, rng.uniform(0.05, 1.0)))
        else:
            ta, tb = pick_trees(2)
            site = kind.startswith("site")
            pool = sites if site else bodies
            a = rng.choice([x for x in pool if x["tree"] == ta])
            b = rng.choice([x for x in pool if x["tree"] == tb])
            eh = newh()
            L += ["equality %d" % eh, "set %d type %d" % (eh, E("mjEQ_WELD") if kind.endswith("weld") else E("mjEQ_CONNECT")),
                  "set %d objtype %d" % (eh, E("mjOBJ_SITE") if site else E("mjOBJ_BODY")),
                  "set %d name1 %s" % (eh, a["name"]), "set %d name2 %s" % (eh, b["name"])]
            if not site:
                L.append("set %d data %s" % (eh, "0 0 0 0 0 0 1 0 0 0 1" if kind == "weld" else fmt([rng.uniform(-0.1, 0.1) for _ in range(3)])))
        kinds.append(kind)
    return L, joints, {"ntree": ntree, "nv": nv, "nq": nq, "kinds": kinds, "contacts": contacts}


def tree_state(rng, joints, nv):
    qpos = []
    for j in joints:
        if j["type"] == "ball":
            q = [rng.gauss(0, 1) for _ in range(4)]
            nrm = math.sqrt(sum(x * x for x in q)) or 1.0
            qpos += [x / nrm for x in q]
        else:
            qpos.append(rng.uniform(-0.5, 0.5))
    sc = rng.choice((0.2, 1.0))
    return ["state qpos " + fmt(qpos), "state qvel " + fmt([rng.gauss(0, 1) * sc for _ in range(nv)]),
            "state qfrc_applied " + fmt([rng.gauss(0, 2) if rng.random() < 0.5 else 0.0 for _ in range(nv)])]


# ---------------------------------------------------------------- explicit contact pairs with anisotropic friction
def gen_pair_scene(rng):
    """Bodies (free, or slide + hinge) whose geoms collide ONLY through explicit contact pairs (with the floor and with each
    other) carrying five different friction coefficients, condim 3 / 4 / 6 (1 rarely), optional solreffriction: the only way to
    reach contacts with friction[0] != friction[1].  Returns (lines, joints, info)."""
    L = []
    h = [0]

    def newh():
        h[0] += 1
        return h[0]
    L.append("option timestep %r" % rng.uniform(0.001, 0.004))
    L.append("option integrator %d" % E(rng.choice(("mjINT_EULER", "mjINT_IMPLICITFAST"))))
    L.append("option solver %d" % NEWTON)
    L.append("option cone %d" % E("mjCONE_ELLIPTIC"))
    L.append("option jacobian %d" % E("mjJAC_AUTO"))
    L.append("option enableflags 0")
    L.append("option disableflags 0")
    g = newh()
    L += ["geom %d 0" % g, "set %d type %d" % (g, E("mjGEOM_PLANE")), "set %d size 5 5 0.1" % g, "name %d floor" % g,
          "set %d contype 0" % g, "set %d conaffinity 0" % g]
    joints, geoms = [], []
    nv = nq = 0
    for b in range(rng.choice((1, 1, 2, 3))):
        bh = newh()
        r = rng.uniform(0.05, 0.15)
        L += ["body %d 0" % bh, "name %d pb%d" % (bh, b), "set %d pos %s" % (bh, fmt([0.25 * b, rng.uniform(-0.05, 0.05), r - 0.004]))]
        if rng.random() < 0.7:
            jh = newh()
            L += ["freejoint %d %d" % (jh, bh), "name %d pj%d" % (jh, len(joints))]
            joints.append({"type": "free", "pos": [0.25 * b, rng.uniform(-0.05, 0.05), r - rng.uniform(0.0, 0.008)]})
            nv += 6
            nq += 7
        else:
            for ax in ([1, 0, 0], [0, 1, 0], [0, 0, 1]):
                jh = newh()
                L += ["joint %d %d" % (jh, bh), "name %d pj%d" % (jh, len(joints)), "set %d type %d" % (jh, E("mjJNT_SLIDE")), "set %d axis %s" % (jh, fmt(ax))]
                joints.append({"type": "slide"})
                nv += 1
                nq += 1
            jh = newh()
            L += ["joint %d %d" % (jh, bh), "name %d pj%d" % (jh, len(joints)), "set %d type %d" % (jh, E("mjJNT_HINGE")),
                  "set %d axis %s" % (jh, fmt([rng.gauss(0, 1), rng.gauss(0, 1), 1.0]))]
            joints.append({"type": "hinge"})
            nv += 1
            nq += 1
        gh = newh()
        gt = rng.choice(("sphere", "sphere", "capsule", "ellipsoid", "box"))
        size = {"sphere": [r], "capsule": [r, r], "ellipsoid": [r, 1.3 * r, r], "box": [r, r, r]}[gt]
        L += ["geom %d %d" % (gh, bh), "name %d pg%d" % (gh, b), "set %d type %d" % (gh, E("mjGEOM_" + gt.upper())), "set %d size %s" % (gh, fmt(size)),
              "set %d contype 0" % gh, "set %d conaffinity 0" % gh, "set %d density %r" % (gh, rng.uniform(300, 3000))]
        geoms.append("pg%d" % b)
    condims, aniso = [], 0
    pairs = [(gname, "floor") for gname in geoms] + [(geoms[i], geoms[i + 1]) for i in range(len(geoms) - 1)]
    for a, b in pairs:
        ph = newh()
        f0 = rng.uniform(0.2, 1.5)
        f1 = f0 if rng.random() < 0.2 else f0 * rng.choice((rng.uniform(0.2, 0.9), rng.uniform(1.1, 3.0)))
        fr = [f0, f1, rng.uniform(0.001, 0.05), rng.uniform(0.0001, 0.01), rng.uniform(0.0001, 0.01)]
        cd = rng.choice((3, 3, 4, 4, 6, 6, 1))
        L += ["pair %d" % ph, "set %d geomname1 %s" % (ph, a), "set %d geomname2 %s" % (ph, b), "set %d condim %d" % (ph, cd),
              "set %d friction %s" % (ph, fmt(fr)), "set %d margin %r" % (ph, rng.choice((0.0, 0.02, 0.3)))]
        if rng.random() < 0.2:
            L.append("set %d solreffriction %s" % (ph, fmt([rng.uniform(0.01, 0.05), 1.0])))
        condims.append(cd)
        aniso += 1 if f1 != f0 else 0
    return L, joints, {"nv": nv, "nq": nq, "condims": condims, "anisotropic": aniso}


def pair_state(rng, joints, nv):
    qpos = []
    for j in joints:
        if j["type"] == "free":
            q = [1.0, 0.0, 0.0, 0.0] if rng.random() < 0.5 else [rng.gauss(0, 1) for _ in range(4)]
            nrm = math.sqrt(sum(x * x for x in q))
            qpos += j["pos"] + [x / nrm for x in q]
        else:
            qpos.append(rng.uniform(-0.01, 0.003) if j["type"] == "slide" else rng.uniform(-1, 1))
    sc = rng.choice((0.05, 0.5, 2.0))     # slow: sticking (bottom zone); fast: sliding (cone zone)
    return ["state qpos " + fmt(qpos), "state qvel " + fmt([rng.gauss(0, 1) * sc for _ in range(nv)]),
            "state qfrc_applied " + fmt([rng.gauss(0, 3) if rng.random() < 0.5 else 0.0 for _ in range(nv)])]


def cert_line(d, points):
    nv, nefc = d["nv"], d["nefc"]
    toks = ["cert", str(nv), str(nefc), str(d["ne"]), str(d["nf"]), str(d["ncon"]), str(len(points))]
    toks += [hexf(x) for x in d["M"]] + [hexf(x) for x in d["J"]] + [hexf(x) for x in d["qacc_smooth"]] + [hexf(x) for x in d["aref"]]
    ell = E("mjCNSTR_CONTACT_ELLIPTIC")
    for i in range(nefc):
        toks += [hexf(d["D"][i]), hexf(d["R"][i]), hexf(d["floss"][i]), str(d["type"][i]), str(d["id"][i] if d["type"][i] == ell else 0)]
    for c in d["contacts"]:
        toks += [str(c["dim"]), hexf(c["mu"])] + [hexf(x) for x in c["friction"]]
    for p in points:
        toks += [hexf(x) for x in p]
    return " ".join(toks)


def isl_line(d):
    """the engine's island partition of this solve for the Lean partition checker (`isl` op of drv_c10)"""
    nv, nefc = d["nv"], d["nefc"]
    ell = E("mjCNSTR_CONTACT_ELLIPTIC")
    grp = [(nefc + d["id"][i]) if d["type"][i] == ell else i for i in range(nefc)]
    toks = ["isl", str(nv), str(nefc), str(d["nisland"])]
    toks += [hexf(x) for x in d["M"]] + [hexf(x) for x in d["J"]]
    toks += [str(x) for x in d["dof_island"]] + [str(x) for x in d["efc_island"]] + [str(x) for x in grp]
    return " ".join(toks)


def imp_line(d, impratio):
    """the regularisers of the frictional contacts of this solve for the Lean impedance checker (`imp` op of drv_c10); None when
    the solve has no frictional contact"""
    ell, pyr = E("mjCNSTR_CONTACT_ELLIPTIC"), E("mjCNSTR_CONTACT_PYRAMIDAL")
    toks, n = [], 0
    for c in d["contacts"]:
        a = c["adr"]
        if a < 0 or a >= d["nefc"] or d["type"][a] not in (ell, pyr):
            continue
        e = d["type"][a] == ell
        nr = c["dim"] if e else 2 * (c["dim"] - 1)
        toks += ["1" if e else "0", str(c["dim"]), str(nr), hexf(c["mu"])]
        toks += [hexf(x) for x in d["R"][a:a + nr]] + [hexf(x) for x in d["D"][a:a + nr]] + [hexf(x) for x in c["friction"]]
        n += 1
    return ("imp %s %d " % (hexf(impratio), n) + " ".join(toks)) if n else None


def row_tree_stats(d, stats):
    """coverage: rows whose Jacobian spans several kinematic trees, by constraint type and Jacobian layout; and the sub-class
    'the next tree in dof order takes part through its first dof only'"""
    nv, tid = d["nv"], d["dof_treeid"]
    lay = "sparse" if d["sparse"] else "dense"
    first = {}
    for j, t in enumerate(tid):
        first.setdefault(t, j)
    prev = None
    for r in range(d["nefc"]):
        if prev == (d["type"][r], d["id"][r]):
            continue
        prev = (d["type"][r], d["id"][r])
        sup = [j for j in range(nv) if d["J"][r * nv + j] != 0.0]
        ts = sorted({tid[j] for j in sup})
        if len(ts) < 2:
            continue
        k = "type%d/%s/%dtrees" % (d["type"][r], lay, len(ts))
        stats["multi_tree_rows"][k] = stats["multi_tree_rows"].get(k, 0) + 1
        for a, b in zip(ts, ts[1:]):
            if b == a + 1 and [j for j in sup if tid[j] == b] == [first[b]]:
                k2 = "type%d/%s" % (d["type"][r], lay)
                stats["next_tree_first_dof_only"][k2] = stats["next_tree_first_dof_only"].get(k2, 0) + 1


def parse_cert(out):
    """-> (list of point dicts, list of pair distances) or None"""
    if not out.startswith("ok |"):
        return None
    parts = [p.strip() for p in out.split("|")]
    pts = []
    for p in parts[1:-1]:
        w = p.split()
        pts.append({"cost": unhex(w[1]), "gauss": unhex(w[3]), "s": unhex(w[5]), "gw": unhex(w[7]), "resid": unhex(w[9]),
                    "gnorm": unhex(w[11]), "force": [unhex(t) for t in w[13:]]})
    dist = [unhex(t) for t in parts[-1].split()[1:]]
    return pts, dist


def describe_partition(d, out):
    """human-readable account of the first offending entries reported by the Lean partition checker"""
    if not out.startswith("bad "):
        return None
    parts = [p.split() for p in out[4:].split("|")]
    if len(parts) != 4:
        return None
    nv, msgs = d["nv"], []
    pm, pj, pf, pg = (p[1:] for p in parts)
    for k in range(0, len(pj) - 1, 2):
        r, j = int(pj[k]), int(pj[k + 1])
        msgs.append("constraint row %d (efc_type %d, efc_id %d, efc_island %d) has J[%d][%d] = %r but dof %d (tree %d) has dof_island %d"
                    % (r, d["type"][r], d["id"][r], d["efc_island"][r], r, j, d["J"][r * nv + j], j, d["dof_treeid"][j], d["dof_island"][j]))
    for k in range(0, len(pm) - 1, 2):
        i, j = int(pm[k]), int(pm[k + 1])
        msgs.append("M[%d][%d] = %r couples dofs of islands %d and %d" % (i, j, d["M"][i * nv + j], d["dof_island"][i], d["dof_island"][j]))
    for r in pf:
        msgs.append("constraint row %d (efc_type %d) belongs to no island" % (int(r), d["type"][int(r)]))
    for k in range(0, len(pg) - 1, 2):
        msgs.append("rows %s and %s of one elliptic cone are in different islands" % (pg[k], pg[k + 1]))
    return "; ".join(msgs[:4]) if msgs else None


def converged(d):
    """the solver left its loop through one of its own exit tests on every recorded island (not by the iteration limit; for CG,
    whose tests are all visible in the statistics, also not by a failed line search `alpha == 0`)"""
    if d["nefc"] == 0:
        return False
    n = 1 if (d["noisland"] or d["nisland"] <= 0) else d["nisland"]
    if n > len(d["niter"]) or n > len(d["last"]):
        return False
    for i in range(n):
        if d["niter"][i] >= d["iterations"]:
            return False
        if d["solver"] == CG and d["niter"][i] > 0:
            imp, grad = d["last"][i]
            if not ((0 < imp < d["tolerance"]) or grad < d["tolerance"]):
                return False
    return True


def gen_ls(rng, style):
    nr = rng.randint(0, 8)
    ne = rng.randint(0, min(nr, 2))
    nf = rng.randint(0, min(nr - ne, 3))
    M = abs(rng.gauss(0, 1)) + 0.05
    a, a0 = rng.gauss(0, 2), rng.gauss(0, 2)
    rows, grad = [], M * (a - a0)
    for i in range(nr):
        D = 10 ** rng.uniform(-1, 4)
        fl = rng.uniform(0.01, 2) if ne <= i < ne + nf else 0.0
        J, aref = rng.gauss(0, 1), rng.gauss(0, 3)
        if style == "boundary" and rng.random() < 0.5:
            aref = J * a            # residual exactly on a kink
        rows += [D, 1 / D, fl, J * a - aref, J]
    v = rng.gauss(0, 1) * rng.choice((1, 1, 10, 1e-3, 1e-16))
    tol = rng.choice((1e-8, 1e-10, 1e-6, 0.01, 1e-14, 1e-18, 0.0))
    lsit = rng.choice((50, 50, 3, 5, 10, 2, 1, 0, 100))
    if style == "optimum":
        rows = []
        nr = ne = nf = 0
        a = a0 if rng.random() < 0.5 else a0 + 1e-9
    return "ls %s %d %s %s %s %s %s %d %d %d %s" % (hexf(tol), lsit, hexf(1 / M), hexf(v), hexf(M), hexf(M * a), hexf(M * a0),
                                                     ne, nf, nr, " ".join(hexf(x) for x in rows))


def run(ctx):
    ctx.rule = ("generated scenes (free/ball/slide/hinge trees on a plane, equalities, tendons, limits, friction loss, condim "
                "1/3/4/6), two states each (random, optionally settled for 3 or 10 steps), one cone type per state; per state the six "
                "solves Newton/CG/PGS x monolithic/islands with random dense/sparse Jacobian, tolerance 1e-12; coupled-tree scenes "
                "(2-5 trees of 1-4 dofs coupled only by 1-3 constraints spanning 2-3 trees: joint / tendon equality, tendon limit, "
                "tendon friction loss, spatial tendon, connect / weld by body or site; adjacent trees half of the time; first / last / any "
                "dof), two states each, all of Newton/CG/PGS x monolithic/islands x dense/sparse; contact-pair scenes (1-3 bodies, free or "
                "3 slides + hinge, colliding only through explicit pairs with the floor and each other: 5 different friction coefficients "
                "(isotropic 20%), condim 3/4/6 (1 rarely), margin, optional solreffriction; states at velocity scale 0.05/0.5/2; cone elliptic 2/3, "
                "impratio 0.5/1/2/10), the six solves Newton/CG/PGS x monolithic/islands; per solve with frictional contacts one impedance line; per solve one "
                "certificate line (points: final qacc, qacc_smooth, qacc_warmstart), per per-island solve one partition line "
                "(M, J, dof_island, efc_island) and per state one cross-solver line; plus "
                "synthetic one-dof line-search problems. A case is distinct by (model, state, solve op); non-trivial = nefc > 0")
    ctx.lean_props(THEOREMS)
    drv = ctx.driver("drv_c10")
    impl = ctx.harness("harness/c/c10_solvers.c", "c10_solvers", deps=["harness/mjbuild.h"])
    if not drv or not impl:
        return
    thorough = ctx.tier == "thorough"
    rng = ctx.rng
    # ---------------------------------------------------------------- T(b): line search, bitwise
    nls = 20000 if thorough else 3000
    lslines = [gen_ls(rng, rng.choice(("plain", "plain", "boundary", "optimum"))) for _ in range(nls)]
    lslines += ["ls zz 5 " + " ".join([hexf(1.0)] * 5) + " 0 0 0", "ls " + " ".join([hexf(1.0)] * 2), "frob",
                "ls %s 5 %s %s %s %s %s 1 1 1 %s" % tuple([hexf(1.0)] * 6 + [" ".join([hexf(1.0)] * 5)])]
    ctx.differential("PrimalSearch / updateBracket / PrimalPrepare / PrimalEval (scalar rows): Lean model vs the static C functions, bitwise",
                     [drv], [impl], lslines, keyf=lambda l: l if len(l.split()) > 11 else None)
    rc, lo, _ = ctx.run_lines([impl], lslines)
    hist = {}
    for o in lo:
        w = o.split()
        if len(w) == 5:
            hist[w[2]] = hist.get(w[2], 0) + 1
    ctx.extra["linesearch_exit_histogram"] = hist
    # ---------------------------------------------------------------- S / T(a): engine scenes
    nmodels = 200 if thorough else 24
    ntrees = 150 if thorough else 20
    npairs = 100 if thorough else 16
    script, meta = gen_script(ctx, nmodels, ntrees, npairs)
    rc, outs, err = ctx.run_lines([impl], script, timeout=3000)
    if rc != 0 or len(outs) != len(meta):
        # the command that produced no output, and the model it ran on
        at = min(len(outs), len(meta) - 1)
        mlines = next((i_["lines"] for k_, i_ in reversed(meta[:at + 1]) if k_ == "model"), None)
        kind_at, info_at = meta[at]
        ctx.oracle_failure("c10:harness-crash", "solver harness crashed or lost sync (rc=%s, %d outputs for %d commands) at the %s command %s"
                           % (rc, len(outs), len(meta), kind_at, info_at.get("op", "")),
                           {"stderr": err[-500:], "model_lines": mlines, "state_lines": info_at.get("set"), "settle": info_at.get("settle"),
                            "op": info_at.get("op"), "replay": "feed 'model' + model_lines + 'end', the state_lines, 'settle N', then the op to the c10_solvers harness"})
        return
    fails = {}

    def fail(key, what, replay):
        fails[key] = fails.get(key, 0) + 1
        if fails[key] <= 3:
            ctx.oracle_failure(key, what, replay)

    solves = []          # (info, dump)
    cur = None
    for (kind, info), o in zip(meta, outs):
        if kind == "model":
            cur = info["lines"] if o.startswith("ok") else None
            if cur is None:
                ctx.oracle_failure("c10:model-rejected", "generated model rejected: " + o[:200], {"model": info["lines"]})
            continue
        if cur is None or kind != "solve":
            continue
        rp = {"model_lines": cur, "state_lines": info["set"], "settle": info["settle"], "op": info["op"], "seed": ctx.seed, "tier": ctx.tier,
              "replay": "feed 'model' + model_lines + 'end', the state_lines, 'settle N', then the op to the c10_solvers harness"}
        if not o.startswith("{"):
            fail("c10:engine-error", "engine error in %s: %s" % (info["op"], o[:200]), rp)
            continue
        d = json.loads(o)
        solves.append((info, d, rp))
    # certificate lines
    lines, owners = [], []
    groups = {}
    for idx, (info, d, rp) in enumerate(solves):
        if d["nefc"] == 0 or d["warn"]:
            continue
        lines.append(cert_line(d, [d["qacc"], d["qacc_smooth"], d["qacc_warmstart"]]))
        owners.append(("solve", idx))
        # the regularisers of the frictional contacts: hypothesis of the certificate for cone blocks (documented impedance law)
        il = imp_line(d, float(info["op"].split()[9]))
        if il is not None:
            lines.append(il)
            owners.append(("imp", idx))
        # the partition mj_island handed to the per-island solvers: hypotheses of island_solve_is_global_minimiser
        if not d["noisland"] and d["nisland"] > 0 and "efc_island" in d and "dof_island" in d:
            lines.append(isl_line(d))
            owners.append(("isl", idx))
        # dense and sparse Jacobians can build different row sets for the same state (rows with an empty Jacobian are kept in
        # dense mode and dropped in sparse mode: same minimiser, cost shifted by a constant), so only solves with identical
        # rows are compared with each other
        groups.setdefault((info["model"], info["state"], d["nefc"], tuple(d["type"])), []).append(idx)
    for key, idxs in groups.items():
        d0 = solves[idxs[0]][1]
        same = [i for i in idxs if solves[i][1]["nefc"] == d0["nefc"] and solves[i][1]["type"] == d0["type"] and not solves[i][0]["truncated"] and not solves[i][0]["loose"]]
        if len(same) >= 2:
            lines.append(cert_line(d0, [solves[i][1]["qacc"] for i in same]))
            owners.append(("cross", same))
    rcl, certs, errl = ctx.run_lines([drv], lines, timeout=3000)
    if rcl != 0 or len(certs) != len(lines):
        raise RuntimeError("drv_c10 failed: rc=%s %s" % (rcl, errl[-300:]))
    stats = {"solves": len(solves), "certified": 0, "converged": {}, "not_converged": {}, "max_bound_rel": {}, "max_cost_tie": 0.0,
             "max_force_tie": 0.0, "max_resid_rel": 0.0, "max_mono_excess_rel": 0.0, "max_pair_violation": 0.0, "max_agree_rel": {},
             "cert_refused": 0, "rows": {}, "max_force_agree_rel": {}, "island_partitions_checked": 0, "multi_tree_rows": {},
             "next_tree_first_dof_only": {}, "max_island_vs_monolithic": {}, "island_pairs": 0, "impedance_contacts": 0,
             "impedance_anisotropic_elliptic": {}, "impedance_not_bitwise": 0, "max_impedance_dev": {}}
    cert_of = {}
    suspects = {}
    noisecost = {}       # what the engine's own cost evaluation in doubles cannot resolve (unscaled cost units), per converged solve
    for (kind, ref), line, out in zip(owners, lines, certs):
        if kind == "imp":
            info, d, rp = solves[ref]
            if not out.startswith("ok"):
                raise RuntimeError("drv_c10 refused an imp line: %s / %s" % (out[:100], line[:200]))
            ell, pyr = E("mjCNSTR_CONTACT_ELLIPTIC"), E("mjCNSTR_CONTACT_PYRAMIDAL")
            fcons = [c for c in d["contacts"] if 0 <= c["adr"] < d["nefc"] and d["type"][c["adr"]] in (ell, pyr)]
            for c, part in zip(fcons, out.split("|")[1:]):
                w = part.split()
                dev = {"R": unhex(w[0]), "mu": unhex(w[1]), "DR": unhex(w[2]), "cone_relation": unhex(w[3])}
                e = d["type"][c["adr"]] == ell
                stats["impedance_contacts"] += 1
                if e and c["friction"][0] != c["friction"][1]:
                    stats["impedance_anisotropic_elliptic"]["dim%d" % c["dim"]] = stats["impedance_anisotropic_elliptic"].get("dim%d" % c["dim"], 0) + 1
                stats["impedance_not_bitwise"] += int(w[4])
                for k, v in dev.items():
                    stats["max_impedance_dev"][k] = max(stats["max_impedance_dev"].get(k, 0.0), v if v == v else float("inf"))
                bad = {k: v for k, v in dev.items() if not v <= IMP_REL}
                if bad:
                    a, nr = c["adr"], (c["dim"] if e else 2 * (c["dim"] - 1))
                    fail("c10:contact-regularisers-off-documented-law", "%s contact at rows %d..%d (dim %d, friction %r, impratio %r): efc_R %r, efc_D %r, "
                         "contact.mu %r deviate from the documented impedance law R[i+1] = R[i]/impratio, R[i+j+1] = R[i+1] friction[0]^2/friction[j]^2, "
                         "mu = friction[0] sqrt(R[i+1]/R[i]), D = 1/R by %r (relative; cone_relation = defect of D[i+j] mu^2 = D[i] friction[j-1]^2): the primal "
                         "cone cost (efc_D[i], mu, friction) and the dual problem (efc_R) are no longer the same problem and the certificate hypothesis "
                         "(Props/C10 cone_block_gradIneq_documented_impedance) fails"
                         % ("elliptic" if e else "pyramidal", a, a + nr - 1, c["dim"], c["friction"], float(info["op"].split()[9]), d["R"][a:a + nr],
                            d["D"][a:a + nr], c["mu"], bad), rp)
            continue
        if kind == "isl":
            info, d, rp = solves[ref]
            stats["island_partitions_checked"] += 1
            row_tree_stats(d, stats)
            if out != "ok":
                name = SOLNAME[d["solver"]] + "+islands"
                what = describe_partition(d, out)
                if what is None:
                    raise RuntimeError("drv_c10 refused an isl line: %s / %s" % (out[:100], line[:200]))
                fail("c10:island-partition-not-separable", "%s (%s Jacobian, %d islands): %s: the per-island solve does not minimise the documented "
                     "objective (Props/C10 island_solve_is_global_minimiser needs this hypothesis)"
                     % (name, "sparse" if d["sparse"] else "dense", d["nisland"], what),
                     dict(rp, checker_output=out, dof_island=d["dof_island"], efc_island=d["efc_island"], dof_treeid=d["dof_treeid"],
                          efc_type=d["type"], efc_id=d["id"]))
            continue
        pc = parse_cert(out)
        if kind == "solve":
            info, d, rp = solves[ref]
            name = SOLNAME[d["solver"]] + ("" if d["noisland"] else "+islands")
            elliptic = any(t == E("mjCNSTR_CONTACT_ELLIPTIC") for t in d["type"])
            sname = name + ("/elliptic" if elliptic else "") + ("@loose" if info["loose"] else "")
            if pc is None:
                stats["cert_refused"] += 1
                fail("c10:certificate-refused", "the certificate checker refused the engine's data (%s): %s" % (name, out[:100]), dict(rp, cert_line=line[:2000]))
                continue
            (pf, ps, pw), _ = pc
            stats["certified"] += 1
            for t in d["type"]:
                stats["rows"][str(t)] = stats["rows"].get(str(t), 0) + 1
            ctx.count((info["model"], info["state"], info["op"], ctx.seed), nontrivial=True)
            scale = 1.0 / (d["meaninertia"] * max(1, d["nv"]))
            cscale = max(1.0, abs(pf["cost"]))
            # T(a): the Lean constraint cost / forces against the engine's own update at the same point
            tie = abs(pf["s"] - d["cost_constraint"]) / max(1.0, abs(d["cost_constraint"]))
            stats["max_cost_tie"] = max(stats["max_cost_tie"], tie)
            fsc = max([1.0] + [abs(x) for x in d["force_update"]])
            ftie = max([abs(a - b) for a, b in zip(pf["force"], d["force_update"])] + [0.0]) / fsc
            stats["max_force_tie"] = max(stats["max_force_tie"], ftie)
            if tie > COST_TIE_REL or ftie > FORCE_TIE_REL:
                ctx.disagreements.append({"stream": "certificate checker vs mj_constraintUpdate", "line": line[:300], "model": pf["s"], "impl": d["cost_constraint"]})
                ctx.oblige("correspondence: Lean constraint cost/forces == mj_constraintUpdate at the solver's output (%s)" % name, "correspondence", False,
                           "cost %r vs %r, force deviation %r" % (pf["s"], d["cost_constraint"], ftie))
            resid = pf["resid"] / max(pf["gnorm"], 1e-300) if pf["gnorm"] > 0 else 0.0
            stats["max_resid_rel"] = max(stats["max_resid_rel"], resid)
            ok_numerics = resid <= RESID_REL
            bound = 0.5 * max(pf["gw"], 0.0) * scale
            cert_of[ref] = (pf, ok_numerics)
            if info["truncated"]:
                stats["truncated"] = stats.get("truncated", 0) + 1
            elif converged(d):
                stats["converged"][sname] = stats["converged"].get(sname, 0) + 1
                stats["max_bound_rel"][sname] = max(stats["max_bound_rel"].get(sname, 0.0), bound)
                # the engine evaluates cost and gradient in doubles: what it can resolve is relative to the magnitude of the cost
                noise = NOISE_REL * (abs(pf["gauss"]) + abs(pf["s"])) * scale
                stats["noise_limited"] = stats.get("noise_limited", 0) + (1 if noise > BOUND_REL[SOLNAME[d["solver"]] + ("/elliptic" if elliptic else "") + ("@loose" if info["loose"] else "")] else 0)
                thr = max(noise, BOUND_REL[SOLNAME[d["solver"]] + ("/elliptic" if elliptic else "") + ("@loose" if info["loose"] else "")])
                noisecost[ref] = NOISE_REL * (abs(pf["gauss"]) + abs(pf["s"]))
                if ok_numerics and (bound > thr or d["solver"] == PGS):
                    suspects[ref] = (bound, thr, name, elliptic, noise)
            else:
                stats["not_converged"][name] = stats["not_converged"].get(name, 0) + 1
            # final cost <= cheaper start (primal solvers)
            if d["solver"] != PGS:
                start = ps["cost"] if d["nowarm"] else min(ps["cost"], pw["cost"])
                excess = (pf["cost"] - start) / cscale
                stats["max_mono_excess_rel"] = max(stats["max_mono_excess_rel"], excess)
                if excess > MONO_REL:
                    fail("c10:primal-cost-increased", "%s ended at cost %r above its starting cost %r (qacc_smooth %r, qacc_warmstart %r)"
                         % (name, pf["cost"], start, ps["cost"], pw["cost"]), dict(rp, cert=out[:300]))
        else:
            if pc is None:
                continue
            pts, dist = pc
            idxs = ref
            k = 0
            for a in range(len(idxs)):
                for b in range(a + 1, len(idxs)):
                    dab = math.sqrt(max(dist[k], 0.0))
                    k += 1
                    ia, ib = idxs[a], idxs[b]
                    da, db = solves[ia][1], solves[ib][1]
                    if not (converged(da) and converged(db)) or ia not in cert_of or ib not in cert_of:
                        continue
                    (ca, oka), (cb, okb) = cert_of[ia], cert_of[ib]
                    if not (oka and okb):
                        continue
                    ra, rb = math.sqrt(max(ca["gw"], 0.0)), math.sqrt(max(cb["gw"], 0.0))
                    na = SOLNAME[da["solver"]] + ("" if da["noisland"] else "+islands")
                    nb = SOLNAME[db["solver"]] + ("" if db["noisland"] else "+islands")
                    nrm = math.sqrt(max(sum(x * x for x in da["qacc"]) * da["meaninertia"], 1e-30))
                    # theorem-backed: both within their certified radius of the unique minimiser
                    viol = dab - (ra + rb) - 1e-9 * (nrm + 1.0)
                    stats["max_pair_violation"] = max(stats["max_pair_violation"], viol)
                    if viol > 0:
                        fail("c10:certified-radii-inconsistent", "%s and %s differ by %r in the M-norm, more than the sum of their certified radii %r + %r"
                             % (na, nb, dab, ra, rb), dict(solves[ia][2], other_op=solves[ib][0]["op"]))
                    rel = dab / (nrm + 1.0)
                    pk = "/".join(sorted((na, nb)))
                    stats["max_agree_rel"][pk] = max(stats["max_agree_rel"].get(pk, 0.0), rel)
                    fsc = max([1.0] + [abs(x) for x in da["force"]])
                    frel = max([abs(x - y) for x, y in zip(da["force"], db["force"])] + [0.0]) / fsc
                    stats["max_force_agree_rel"][pk] = max(stats["max_force_agree_rel"].get(pk, 0.0), frel)
                    # the property's own clause: solving per island agrees with the monolithic solve (same solver)
                    if da["solver"] == db["solver"] and da["noisland"] != db["noisland"] and ia in noisecost and ib in noisecost:
                        ell = any(t == E("mjCNSTR_CONTACT_ELLIPTIC") for t in da["type"])
                        sk = SOLNAME[da["solver"]] + ("/elliptic" if ell else "")
                        stats["island_pairs"] += 1
                        cur = stats["max_island_vs_monolithic"].get(sk, [0.0, 0.0])
                        stats["max_island_vs_monolithic"][sk] = [max(cur[0], rel), max(cur[1], frel)]
                        # a cost difference below the resolution of the cost moves the minimiser by up to sqrt(2 * resolution) in the M-norm
                        slack = 1.0 + 10.0 * math.sqrt(2.0 * (noisecost[ia] + noisecost[ib])) / (nrm + 1.0) / ISLAND_AGREE.get(sk, (1.0, 1.0))[0]
                        if sk in ISLAND_AGREE and (rel > ISLAND_AGREE[sk][0] * slack or frel > ISLAND_AGREE[sk][1] * slack):
                            isl, mono = (ia, ib) if not da["noisland"] else (ib, ia)
                            fail("c10:island-vs-monolithic-disagree", "%s: the per-island solve and the monolithic solve of the same problem (both left "
                                 "their loops through their own exit tests) differ by %r in the M-norm (relative, bound %g) and by %r in efc_force "
                                 "(relative, bound %g); qacc islands %r, monolithic %r"
                                 % (sk, rel, ISLAND_AGREE[sk][0] * slack, frel, ISLAND_AGREE[sk][1] * slack, solves[isl][1]["qacc"][:8], solves[mono][1]["qacc"][:8]),
                                 dict(solves[isl][2], other_op=solves[mono][0]["op"]))
    # a converged solve whose certificate is large: report it, with the cost gap to the best other solve of the same problem as
    # direct evidence (cost(a) - cost(b) > 0 for a concrete b: no theorem needed to see that a is not the minimiser)
    best_cost = {}
    for key, idxs in groups.items():
        cs = [cert_of[i][0]["cost"] for i in idxs if i in cert_of]
        if cs:
            best_cost[key] = min(cs)
    for ref, (bound, thr, name, elliptic, noise) in suspects.items():
        info, d, rp = solves[ref]
        pf = cert_of[ref][0]
        scale = 1.0 / (d["meaninertia"] * max(1, d["nv"]))
        gap = (pf["cost"] - best_cost.get((info["model"], info["state"], d["nefc"], tuple(d["type"])), pf["cost"])) * scale
        if d["solver"] == PGS:
            # PGS is a dual method: its primal gradient (hence the upper bound 1/2 g'M^-1 g) can be large in stiff directions while
            # the cost is essentially optimal; it is judged by the LOWER bound on its sub-optimality that another solve of the
            # same problem provides (cost(PGS) - cost(other) <= cost(PGS) - min)
            gk = "PGS/elliptic" if elliptic else "PGS"
            stats.setdefault("max_cost_gap", {})[gk] = max(stats.setdefault("max_cost_gap", {}).get(gk, 0.0), gap)
            if gap <= max(GAP_PGS, noise):
                continue
        key = PGS_ELLIPTIC_KEY if (d["solver"] == PGS and elliptic) else "c10:converged-but-suboptimal:" + SOLNAME[d["solver"]]
        fail(key, "%s left its loop through its own exit test (iterations %r of %d, tolerance %g) but the certified sub-optimality bound of its "
             "qacc is %r > %g (scaled); another solver's qacc for the same problem has a cost lower by %r (scaled): the returned "
             "acceleration is not the minimiser of the documented objective" % (name, d["niter"][:max(1, d["nisland"])][:6], d["iterations"], TOL,
                                                                                 bound, thr, gap), rp)
    ctx.oblige("correspondence: Lean constraint cost and forces == mj_constraintUpdate at every solver output (%d solves, max deviation cost %.2e force %.2e)"
               % (stats["certified"], stats["max_cost_tie"], stats["max_force_tie"]), "correspondence",
               stats["max_cost_tie"] <= COST_TIE_REL and stats["max_force_tie"] <= FORCE_TIE_REL)
    ctx.extra["oracle_stats"] = stats
    ctx.extra["oracle_failures"] = fails
    ctx.extra["thresholds"] = {"bound_rel": BOUND_REL, "cost_tie_rel": COST_TIE_REL, "force_tie_rel": FORCE_TIE_REL,
                               "mono_rel": MONO_REL, "resid_rel": RESID_REL, "island_agree": ISLAND_AGREE, "imp_rel": IMP_REL}
    ctx.oblige("correspondence: every partition mj_island handed to a per-island solve satisfies the hypotheses of island_solve_is_global_minimiser "
               "(Lean partition checker on dof_island / efc_island / dense M, J of %d solves)" % stats["island_partitions_checked"], "correspondence",
               "c10:island-partition-not-separable" not in fails)
    ctx.oblige("correspondence: efc_R / efc_D / contact.mu of every frictional contact == documented impedance law (Lean model impEll; %d contacts, "
               "max relative deviation %.1e)" % (stats["impedance_contacts"], max([0.0] + list(stats["max_impedance_dev"].values()))), "correspondence",
               "c10:contact-regularisers-off-documented-law" not in fails)
    ctx.assumptions.append("C10: which solver outputs get the verified certificate evaluated is sampled; convexity of the elliptic cone cost is a "
                           "hypothesis of the certificate theorems (proved in Props/C12 under the impedance relation)")
    if lines:
        ctx.sample({"cert_line": lines[0][:200] + " ...", "checker_output": certs[0][:200]})
    ctx.sample({"converged": stats["converged"], "max_scaled_bound": stats["max_bound_rel"]})
