"""C31  Binary model files round-trip exactly; corrupt files are rejected (DESIGN.md §5.C31)."""
import json
import os
import struct
import subprocess
import sys

from . import common

sys.path.insert(0, common.VERIF)
from gen.enums import E  # noqa: E402
from gen.models import ModelGen  # noqa: E402

build = common.build

META = {
    "technique": "Lean 4 proof over a layout-generic model of mj_sizeModel/mj_saveModel/mj_loadModelBuffer/mj_makeModel/"
                 "mj_validateReferences (byte level, C integer widths, undefined behaviour as an explicit outcome) + "
                 "translator-regenerated layout (X-macros through the tree's preprocessor, sizeof/enum probe, strict "
                 "template match of every function body) + byte-exact differential correspondence on mjSpec-built "
                 "models (images, truncations, size/reference/type corruptions, warnings, allocation sizes) + "
                 "fork/ASan/independent-bounds-checker oracle on the real loader followed by mj_makeData/mj_forward",
    "text": "For EVERY layout (header ints, MJMODEL_SIZES, struct blobs, MJMODEL_POINTERS with element size/nr/nc, "
            "MJMODEL_REFERENCES) and every model value consistent with its sizes: load(save m) = m (all sizes, blobs, "
            "arrays); mj_sizeModel = length of the image; every strict prefix of an image is rejected with a warning; an "
            "accepted model has every reference of the table within [-1, target) incl. adr+num (exact integers); for "
            "layouts whose pointers are all dimensioned by checked mj_makeModel parameters the loader's copying is memory "
            "safe on EVERY buffer (no read past the buffer, no write past an allocated array); the tree's layout has "
            "exactly one pointer (names_map) outside that class (kernel-evaluated on the generated layout), and for it the "
            "exact statement is proved: copying is safe on every buffer whose nnames_map field equals the value "
            "mj_makeModel computes - nnames_map itself is unchecked (witness theorems; reproduced on the real loader as "
            "heap overflow / negative memcpy length); the 84 positional arguments of mj_makeModel are sizes[0..84) in order. The generated layout is proved well-formed, its reference rows "
            "are proved to span exactly their arrays. The hand-modelled parts (load/save/makeModel/validate bodies, "
            "special logic) are tied by a token-exact template match in the translator and by exact agreement of "
            "result, warning text and allocation size on every differential op.",
    "note": "The special logic of mj_validateReferences is hand-modelled (theorems hold for any special logic; its "
            "model is tied by template + differential only). Models have no flex/mesh/skin/hfield/texture/plugin/tuple "
            "objects (src/xml and asset decoders are not built), so those pointers are empty in every differential "
            "case. Allocation failure and buffers longer than INT_MAX are outside the model. Completeness of "
            "MJMODEL_REFERENCES w.r.t. all index-valued arrays is NOT a theorem: it is a finite comparison against the "
            "hand-written list INDEX_FIELDS below; gaps are reported in evidence and searched for failing inputs.",
}

THEOREMS = [
    "MjProof.C31.load_save_id",
    "MjProof.C31.size_eq_save_length",
    "MjProof.C31.truncation_rejected",
    "MjProof.C31.load_reads_within_buffer",
    "MjProof.C31.load_reads_within_buffer_partial",
    "MjProof.C31.load_copy_safe_of_rows",
    "MjProof.C31.validate_sound",
    "MjProof.C31.load_ok_refs_in_bounds",
    "MjProof.C31.toy_consistent",
    "MjProof.C31.overread_witness",
    "MjProof.C31.overflow_witness",
    "MjProof.C31Gen.generated_layout_wf",
    "MjProof.C31Gen.makeModel_args_match_sizes",
    "MjProof.C31Gen.generated_unchecked_dims",
    "MjProof.C31Gen.generated_refs_shape",
    "MjProof.C31Gen.generated_nc_checked",
    "MjProof.C31Gen.load_copy_safe",
    "MjProof.Mjb.specialOf_noCopy",
    "MjProof.C31Gen.load_save_id",
    "MjProof.C31Gen.truncation_rejected",
    "MjProof.C31Gen.validate_sound",
    "MjProof.Mjb.consistentB_sound",
]

GEN_DIR = os.path.join(common.LEAN, "MjProof", "Gen")
GEN_LEAN = os.path.join(GEN_DIR, "MjbLayout.lean")
GEN_JSON = os.path.join(GEN_DIR, "MjbLayout.json")
ALLOC_CAP = 256 << 20  # harness/c/c31_mjb.c: alloc_cap
QUICK_SAMPLED_PER_MODEL = 260
THOROUGH_SAMPLED_PER_MODEL = 1500

# ------------------------------------------------------------------------------------------ hand-written list
# Index-valued int arrays of mjModel (include/mujoco/mjmodel.h), written by hand from the field comments:
#   (array, count size, k, stride, off, target size, min, count array, [(condition array, [values])...])
# entry e = i*stride+off for i < count*k must satisfy  min <= v  and  v + num <= target  (num = count array[i] or 1);
# v = -1 ("none") is legal only where min = -1 and then only with an empty range.
# This list is independent of MJMODEL_REFERENCES; it drives the independent bounds checker of the harness
# and the finite comparison "which index arrays are not validated".


def _obj_sizes():
    return {"mjOBJ_BODY": "nbody", "mjOBJ_XBODY": "nbody", "mjOBJ_JOINT": "njnt", "mjOBJ_DOF": "nv", "mjOBJ_GEOM": "ngeom",
            "mjOBJ_SITE": "nsite", "mjOBJ_CAMERA": "ncam", "mjOBJ_LIGHT": "nlight", "mjOBJ_FLEX": "nflex", "mjOBJ_MESH": "nmesh",
            "mjOBJ_SKIN": "nskin", "mjOBJ_HFIELD": "nhfield", "mjOBJ_TEXTURE": "ntex", "mjOBJ_MATERIAL": "nmat",
            "mjOBJ_PAIR": "npair", "mjOBJ_EXCLUDE": "nexclude", "mjOBJ_EQUALITY": "neq", "mjOBJ_TENDON": "ntendon",
            "mjOBJ_ACTUATOR": "nactuator", "mjOBJ_SENSOR": "nsensor", "mjOBJ_NUMERIC": "nnumeric", "mjOBJ_TEXT": "ntext",
            "mjOBJ_TUPLE": "ntuple", "mjOBJ_KEY": "nkey", "mjOBJ_PLUGIN": "nplugin"}


def index_fields():
    F = []

    def add(arr, n, target, mn=0, num=None, k=1, stride=1, off=0, when=()):
        F.append({"arr": arr, "n": n, "k": k, "stride": stride, "off": off, "target": target, "min": mn, "num": num,
                  "when": [(a, list(v)) for a, v in when]})
    # bodies
    add("body_parentid", "nbody", "nbody"); add("body_rootid", "nbody", "nbody"); add("body_weldid", "nbody", "nbody")
    add("body_mocapid", "nbody", "nmocap", -1)
    add("body_jntadr", "nbody", "njnt", -1, "body_jntnum"); add("body_dofadr", "nbody", "nv", -1, "body_dofnum")
    add("body_treeid", "nbody", "ntree", -1)
    add("body_geomadr", "nbody", "ngeom", -1, "body_geomnum"); add("body_plugin", "nbody", "nplugin", -1)
    add("body_bvhadr", "nbody", "nbvh", -1, "body_bvhnum")
    add("bvh_child", "nbvh", "nbvh", -1, k=2); add("oct_child", "noct", "noct", -1, k=8)
    # joints / dofs / trees
    add("jnt_qposadr", "njnt", "nq"); add("jnt_dofadr", "njnt", "nv"); add("jnt_bodyid", "njnt", "nbody")
    add("jnt_actuatorid", "njnt", "nactuator", -1)
    add("dof_bodyid", "nv", "nbody"); add("dof_jntid", "nv", "njnt"); add("dof_parentid", "nv", "nv", -1)
    add("dof_treeid", "nv", "ntree"); add("dof_Madr", "nv", "nM")
    add("tree_bodyadr", "ntree", "nbody", 0, "tree_bodynum"); add("tree_dofadr", "ntree", "nv", -1, "tree_dofnum")
    # geoms / sites / cameras / lights
    add("geom_bodyid", "ngeom", "nbody"); add("geom_matid", "ngeom", "nmat", -1); add("geom_plugin", "ngeom", "nplugin", -1)
    add("geom_dataid", "ngeom", "nhfield", -1, when=[("geom_type", [E("mjGEOM_HFIELD")])])
    add("geom_dataid", "ngeom", "nmesh", -1, when=[("geom_type", [E("mjGEOM_MESH"), E("mjGEOM_SDF")])])
    add("site_bodyid", "nsite", "nbody"); add("site_matid", "nsite", "nmat", -1)
    add("cam_bodyid", "ncam", "nbody"); add("cam_targetbodyid", "ncam", "nbody", -1)
    add("light_bodyid", "nlight", "nbody"); add("light_targetbodyid", "nlight", "nbody", -1); add("light_texid", "nlight", "ntex", -1)
    # flexes
    add("flex_matid", "nflex", "nmat", -1); add("flex_nodeadr", "nflex", "nflexnode", -1, "flex_nodenum")
    add("flex_vertadr", "nflex", "nflexvert", -1, "flex_vertnum"); add("flex_edgeadr", "nflex", "nflexedge", -1, "flex_edgenum")
    add("flex_elemadr", "nflex", "nflexelem", -1, "flex_elemnum"); add("flex_evpairadr", "nflex", "nflexevpair", -1, "flex_evpairnum")
    add("flex_elemdataadr", "nflex", "nflexelemdata", -1); add("flex_elemedgeadr", "nflex", "nflexelemedge", -1)
    add("flex_shelldataadr", "nflex", "nflexshelldata", -1); add("flex_texcoordadr", "nflex", "nflextexcoord", -1)
    add("flex_stiffnessadr", "nflex", "nflexstiffness", -1); add("flex_bendingadr", "nflex", "nflexbending", -1)
    add("flex_bvhadr", "nflex", "nbvh", -1, "flex_bvhnum")
    add("flex_nodebodyid", "nflexnode", "nbody"); add("flex_vertbodyid", "nflexvert", "nbody", -1)
    add("flex_edge", "nflexedge", "nflexvert", 0, k=2); add("flex_elem", "nflexelemdata", "nflexvert")
    add("flex_elemedge", "nflexelemedge", "nflexedge"); add("flex_shell", "nflexshelldata", "nflexvert")
    add("flex_evpair", "nflexevpair", "nflexvert", 0, k=2)
    # meshes / skins / hfields / textures / materials
    add("mesh_vertadr", "nmesh", "nmeshvert", -1, "mesh_vertnum"); add("mesh_normaladr", "nmesh", "nmeshnormal", -1, "mesh_normalnum")
    add("mesh_texcoordadr", "nmesh", "nmeshtexcoord", -1, "mesh_texcoordnum"); add("mesh_faceadr", "nmesh", "nmeshface", -1, "mesh_facenum")
    add("mesh_bvhadr", "nmesh", "nbvh", -1, "mesh_bvhnum"); add("mesh_octadr", "nmesh", "noct", -1, "mesh_octnum")
    add("mesh_graphadr", "nmesh", "nmeshgraph", -1); add("mesh_polyadr", "nmesh", "nmeshpoly", -1, "mesh_polynum")
    add("mesh_polyvertadr", "nmeshpoly", "nmeshpolyvert", -1, "mesh_polyvertnum")
    add("mesh_polymapadr", "nmeshvert", "nmeshpolymap", -1, "mesh_polymapnum"); add("mesh_pathadr", "nmesh", "npaths", -1)
    add("skin_matid", "nskin", "nmat", -1); add("skin_vertadr", "nskin", "nskinvert", -1, "skin_vertnum")
    add("skin_texcoordadr", "nskin", "nskintexvert", -1); add("skin_faceadr", "nskin", "nskinface", -1, "skin_facenum")
    add("skin_boneadr", "nskin", "nskinbone", -1, "skin_bonenum"); add("skin_bonevertadr", "nskinbone", "nskinbonevert", -1, "skin_bonevertnum")
    add("skin_bonebodyid", "nskinbone", "nbody"); add("skin_bonevertid", "nskinbonevert", "nskinvert"); add("skin_pathadr", "nskin", "npaths", -1)
    # (hfield_adr / tex_adr have data-dependent extents nrow*ncol, nchannel*height*width: left to the special logic)
    add("hfield_pathadr", "nhfield", "npaths", -1); add("tex_pathadr", "ntex", "npaths", -1)
    add("mat_texid", "nmat", "ntex", -1, k=10)
    # pairs / equalities / tendons / wraps
    add("pair_geom1", "npair", "ngeom"); add("pair_geom2", "npair", "ngeom")
    for tps, tgt in (([E("mjEQ_JOINT")], "njnt"), ([E("mjEQ_TENDON")], "ntendon"),
                     ([E("mjEQ_FLEX"), E("mjEQ_FLEXVERT"), E("mjEQ_FLEXSTRAIN")], "nflex")):
        add("eq_obj1id", "neq", tgt, 0, when=[("eq_type", tps)])
    for tps, tgt in (([E("mjEQ_JOINT")], "njnt"), ([E("mjEQ_TENDON")], "ntendon")):
        add("eq_obj2id", "neq", tgt, -1, when=[("eq_type", tps)])
    for ot, tgt in ((E("mjOBJ_BODY"), "nbody"), (E("mjOBJ_SITE"), "nsite")):
        for a in ("eq_obj1id", "eq_obj2id"):
            add(a, "neq", tgt, 0, when=[("eq_type", [E("mjEQ_CONNECT"), E("mjEQ_WELD")]), ("eq_objtype", [ot])])
    add("tendon_adr", "ntendon", "nwrap", -1, "tendon_num"); add("tendon_matid", "ntendon", "nmat", -1)
    add("tendon_actuatorid", "ntendon", "nactuator", -1); add("tendon_treeid", "ntendon", "ntree", -1, k=2)
    add("ten_J_rowadr", "ntendon", "nJten", 0, "ten_J_rownnz"); add("ten_J_colind", "nJten", "nv")
    add("wrap_objid", "nwrap", "njnt", 0, when=[("wrap_type", [E("mjWRAP_JOINT")])])
    add("wrap_objid", "nwrap", "nsite", 0, when=[("wrap_type", [E("mjWRAP_SITE")])])
    add("wrap_objid", "nwrap", "ngeom", 0, when=[("wrap_type", [E("mjWRAP_SPHERE"), E("mjWRAP_CYLINDER")])])
    # actuators
    add("actuator_trnid", "nactuator", "njnt", 0, stride=2, when=[("actuator_trntype", [E("mjTRN_JOINT"), E("mjTRN_JOINTINPARENT")])])
    add("actuator_trnid", "nactuator", "ntendon", 0, stride=2, when=[("actuator_trntype", [E("mjTRN_TENDON")])])
    add("actuator_trnid", "nactuator", "nsite", 0, stride=2, when=[("actuator_trntype", [E("mjTRN_SITE"), E("mjTRN_SLIDERCRANK")])])
    add("actuator_trnid", "nactuator", "nsite", 0, stride=2, off=1, when=[("actuator_trntype", [E("mjTRN_SLIDERCRANK")])])
    add("actuator_trnid", "nactuator", "nbody", 0, stride=2, when=[("actuator_trntype", [E("mjTRN_BODY")])])
    add("actuator_ctrladr", "nactuator", "nu", -1, "actuator_ctrlnum"); add("actuator_outadr", "nactuator", "nout", -1, "actuator_outnum")
    add("actuator_actadr", "nactuator", "na", -1, "actuator_actnum"); add("actuator_historyadr", "nactuator", "nhistory", -1)
    add("actuator_plugin", "nactuator", "nplugin", -1)
    # sensors
    for on, sz in sorted(_obj_sizes().items()):
        add("sensor_objid", "nsensor", sz, 0, when=[("sensor_objtype", [E(on)])])
        add("sensor_refid", "nsensor", sz, -1, when=[("sensor_reftype", [E(on)])])
        add("tuple_objid", "ntupledata", sz, 0, when=[("tuple_objtype", [E(on)])])
    add("sensor_adr", "nsensor", "nsensordata", 0, "sensor_dim"); add("sensor_historyadr", "nsensor", "nhistory", -1)
    add("sensor_plugin", "nsensor", "nplugin", -1)
    add("plugin_stateadr", "nplugin", "npluginstate", -1, "plugin_statenum"); add("plugin_attradr", "nplugin", "npluginattr", -1)
    # custom / names
    add("numeric_adr", "nnumeric", "nnumericdata", 0, "numeric_size"); add("text_adr", "ntext", "ntextdata", 0, "text_size")
    add("tuple_adr", "ntuple", "ntupledata", 0, "tuple_size")
    for o in ("body", "jnt", "geom", "site", "cam", "light", "flex", "mesh", "skin", "hfield", "tex", "mat", "pair", "exclude", "eq",
              "tendon", "actuator", "sensor", "numeric", "text", "tuple", "key", "plugin"):
        nn = {"body": "nbody", "jnt": "njnt", "geom": "ngeom", "site": "nsite", "cam": "ncam", "light": "nlight", "flex": "nflex",
              "mesh": "nmesh", "skin": "nskin", "hfield": "nhfield", "tex": "ntex", "mat": "nmat", "pair": "npair",
              "exclude": "nexclude", "eq": "neq", "tendon": "ntendon", "actuator": "nactuator", "sensor": "nsensor",
              "numeric": "nnumeric", "text": "ntext", "tuple": "ntuple", "key": "nkey", "plugin": "nplugin"}[o]
        add("name_%sadr" % o, nn, "nnames")
    # sparse structures
    add("B_rowadr", "nbody", "nB", 0, "B_rownnz"); add("B_colind", "nB", "nv")
    add("M_rowadr", "nv", "nC", 0, "M_rownnz"); add("M_colind", "nC", "nv"); add("mapM2M", "nC", "nM")
    add("D_rowadr", "nv", "nD", 0, "D_rownnz"); add("D_colind", "nD", "nv"); add("mapM2D", "nD", "nC", -1); add("mapD2M", "nC", "nD")
    return F


# arrays whose bounds are enforced by the hand-written special logic of mj_validateReferences rather than by the table
SPECIAL_COVERED = {"geom_dataid", "eq_obj1id", "eq_obj2id", "wrap_objid", "actuator_trnid", "sensor_objid", "sensor_refid",
                   "tuple_objid", "hfield_adr", "sensor_adr"}
# count arrays whose value the engine uses while the loader validates the address with a size derived elsewhere
COUNT_ARRAYS = {"sensor_dim"}
# type / selector arrays the special logic switches on (corrupted by the "type" class)
TYPE_ARRAYS = ["jnt_type", "geom_type", "geom_condim", "eq_type", "eq_objtype", "wrap_type", "actuator_trntype", "sensor_type",
               "sensor_objtype", "sensor_reftype", "sensor_dim", "pair_signature", "exclude_signature", "tuple_objtype"]


# ------------------------------------------------------------------------------------------ image geometry
class Image:
    """byte offsets of one model's image, from the generated layout and the model's own sizes"""

    def __init__(self, info, dump):
        s, b, a = dump.split(" | ")
        self.info = info
        self.sizes = [int(x) for x in s.split()[1:]]
        self.S = dict(zip(info["sizes"], self.sizes))
        self.blob_len = [0 if x == "-" else len(x) // 2 for x in b.split()[1:]]
        self.arr_hex = a.split()[1:]
        self.arr_len = [0 if x == "-" else len(x) // 2 for x in self.arr_hex]
        self.hdr = info["intSz"] * len(info["header"])
        self.size_off = {n: self.hdr + info["sizeSz"] * i for i, n in enumerate(info["sizes"])}
        off = self.hdr + info["sizeSz"] * len(self.sizes)
        self.blob_off = []
        for n in self.blob_len:
            self.blob_off.append(off)
            off += n
        self.arr_off = {}
        self.arr_n = {}
        for p, n in zip(info["ptrs"], self.arr_len):
            self.arr_off[p["name"]] = off
            self.arr_n[p["name"]] = n
            off += n
        self.total = off
        self.ptr = {p["name"]: p for p in info["ptrs"]}

    def region(self, off):
        """name of the header / size / blob / array containing byte `off`"""
        if off < self.hdr:
            return "header"
        if off < self.blob_off[0]:
            return self.info["sizes"][(off - self.hdr) // self.info["sizeSz"]]
        for (n, _), o, ln in zip(self.info["blobs"], self.blob_off, self.blob_len):
            if o <= off < o + ln:
                return n
        for n, o in self.arr_off.items():
            if o <= off < o + self.arr_n[n]:
                return n
        return "end"

    def ints(self, name):
        i = [p["name"] for p in self.info["ptrs"]].index(name)
        h = self.arr_hex[i]
        if h == "-":
            return []
        raw = bytes.fromhex(h)
        return list(struct.unpack("<%di" % (len(raw) // 4), raw))

    def nbytes(self, p, S):
        nc = p["ncK"] * (S[p["ncS"]] if p["ncS"] else 1)
        return p["esz"] * S[p["nr"]] * nc

    def nbuffer(self, S):
        """what mj_makeModel computes (independent re-implementation, used to craft consistent resizes;
        checked against the compiled model's own nbuffer before use)"""
        S = dict(S)
        S[self.info["sizes"][self.info["sizes"].index("nnames_map")]] = self.info["mapMul"] * sum(S[t] for t in self.info["mapTerms"])
        off = 0
        al = self.info["align"]
        for p in self.info["ptrs"]:
            off += (al - off % al) % al + self.nbytes(p, S)
        return off


def i64(v):
    return struct.pack("<q", v).hex()


def i32(v):
    return struct.pack("<i", v).hex()


# ------------------------------------------------------------------------------------------ models
PROFILES = [
    {"nbody": (3, 6), "sensors": (2, 5), "tendons": 1.0, "keys": 1.0, "equalities": 1.0, "actuators": (1, 3), "pairs": 1.0,
     "excludes": 1.0, "numeric": 1.0, "mocap": 0.5, "sites": 1.0, "cameras": 0.6},
    {"nbody": (1, 3), "sensors": (0, 2), "actuators": (0, 2)},
    {"nbody": (4, 8), "sensors": (3, 6), "tendons": 0.8, "keys": 0.8, "equalities": 0.8, "actuators": (2, 4), "free": 0.6,
     "ball": 0.3, "sites": 0.9},
    {"nbody": (1, 1), "sensors": (0, 0), "actuators": (0, 0), "tendons": 0.0, "equalities": 0.0, "keys": 0.0, "plane": 0.0,
     "sites": 0.0, "cameras": 0.0, "pairs": 0.0, "excludes": 0.0, "numeric": 0.0, "mocap": 0.0},
]


def gen_model(rng, k):
    prof = PROFILES[k % len(PROFILES)]
    g = ModelGen(rng, dict(prof, memory=1 << 20))
    mdl = g.make()
    L = list(mdl.lines)
    # exercise the MJ_M(...) column sizes and the text arrays (post-processing of the generator's lines)
    if k % len(PROFILES) != 3:
        for kind in ("body", "jnt", "geom", "site", "cam", "tendon", "actuator", "sensor"):
            if rng.random() < 0.5:
                L.insert(0, "spec nuser_%s %d" % (kind, rng.randint(1, 3)))
        if rng.random() < 0.6:
            h = g.h + 1
            L += ["text %d" % h, "name %d txt1" % h, "set %d data hello%d" % (h, rng.randint(0, 999))]
        if rng.random() < 0.5:
            L.insert(0, "spec nuserdata %d" % rng.randint(1, 5))
    return ";".join(L)


# ------------------------------------------------------------------------------------------ corruption cases
def sample_entries(rng, n, k):
    if n <= 0:
        return []
    c = {0, n - 1}
    while len(c) < min(n, k):
        c.add(rng.randrange(n))
    return sorted(c)


def corruption_cases(ctx, info, img, thorough, fields, table_rows, canonical_resize=False):
    """-> list of dicts: cls, field, edits, note"""
    rng = ctx.rng
    S = img.S
    out = []

    def case(cls, field, edits, note="", canonical=False):
        out.append({"cls": cls, "field": field, "edits": edits, "note": note, "canonical": canonical or cls in ("header", "nnames_map")})
    # header ints, every byte
    for i, h in enumerate(info["header"]):
        hb = struct.pack("<i", h)
        for b in range(info["intSz"]):
            case("header", "header[%d]" % i, "w%d:%02x" % (i * info["intSz"] + b, hb[b] ^ (rng.randrange(255) + 1)))
    # every size field, blind overwrite
    nargs = info["nargs"]
    for i, name in enumerate(info["sizes"]):
        v = S[name]
        cand = [-1, 0, v + 1, max(v - 1, 0), 2147483647, 2147483648, 1 << 40, -(1 << 63), rng.randint(0, 50)]
        vals = cand if thorough else rng.sample(cand, 3)
        for nv in vals:
            if nv != v:
                case("size", name, "w%d:%s" % (img.size_off[name], i64(nv)), "=%d" % nv)
    # consistent resizes: one size changed by +-1, the arrays it dimensions resized, nnames_map and nbuffer recomputed
    resizable = sorted({p["nr"] for p in info["ptrs"]} | {p["ncS"] for p in info["ptrs"] if p["ncS"]})
    resizable = [n for n in resizable if info["sizes"].index(n) < nargs]
    pick = resizable if (thorough or canonical_resize) else rng.sample(resizable, min(len(resizable), 24))
    for name in pick:
        for d in (-1, 1):
            nv = S[name] + d
            if nv < 0:
                continue
            S2 = dict(S)
            S2[name] = nv
            S2["nnames_map"] = info["mapMul"] * sum(S2[t] for t in info["mapTerms"])
            S2["nbuffer"] = img.nbuffer(S2)
            edits = []
            for p in info["ptrs"]:
                old, new = img.nbytes(p, S), img.nbytes(p, S2)
                o = img.arr_off[p["name"]]
                if new > old:
                    edits.append((o + old, "z%d:%d" % (o + old, new - old)))
                elif new < old:
                    edits.append((o + new, "d%d:%d" % (o + new, old - new)))
            # apply from the end of the image backwards so that earlier offsets stay valid
            ed = [e for _, e in sorted(edits, key=lambda t: -t[0])]
            for sn in (name, "nnames_map", "nbuffer"):
                if S2[sn] != S[sn]:
                    ed.append("w%d:%s" % (img.size_off[sn], i64(S2[sn])))
            case("resize", name, " ".join(ed), "%+d" % d, canonical=canonical_resize and d == 1)
    # crafted: nnames_map disagreeing with what mj_makeModel allocates
    K = S["nnames_map"]
    o_map = img.arr_off["names_map"] + img.arr_n["names_map"]
    tail = img.total - o_map
    case("nnames_map", "nnames_map", "w%d:%s" % (img.size_off["nnames_map"], i64(-1)), "negative")
    case("nnames_map", "nnames_map", "w%d:%s d%d:%d" % (img.size_off["nnames_map"], i64(K - 2), o_map - 8, 8), "smaller, data removed")
    for extra in (2, (tail // 4) + 64, 25000):
        case("nnames_map", "nnames_map", "z%d:%d w%d:%s" % (o_map, 4 * extra, img.size_off["nnames_map"], i64(K + extra)),
             "larger by %d entries, data inserted" % extra)
    if S["nkey"] == 0:
        # MJ_M(nmocap)*3 is evaluated in `int` by the read loop: overflow, multiplied by nkey = 0 rows
        case("nnames_map", "nmocap", "w%d:%s" % (img.size_off["nmocap"], i64(1000000000)), "nc int overflow")
    # reference / index arrays: every array of the table, of the hand list and of the special logic
    names = []
    for f in fields:
        if f["arr"] not in names:
            names.append(f["arr"])
    for r in table_rows:
        for n in (r["name"], r["num"]):
            if n and n not in names:
                names.append(n)
    tgt = {}
    for f in fields:
        tgt.setdefault(f["arr"], set()).add(S.get(f["target"], 0))
    for r in table_rows:
        tgt.setdefault(r["name"], set()).add(S[r["target"]])
    for name in names:
        if name not in img.arr_n or img.ptr[name]["esz"] != 4 or img.arr_n[name] == 0:
            continue
        n = img.arr_n[name] // 4
        cur = img.ints(name)
        # canonical probes, run for every array on every run (the set of reported keys does not depend on sampling)
        e0 = n - 1
        for v in (0x40000000, -2):
            case("ref", name, "w%d:%s" % (img.arr_off[name] + 4 * e0, i32(v)), "[%d]=%d" % (e0, v), canonical=True)
        for e in sample_entries(rng, n, 4 if thorough else 2):
            T = sorted(tgt.get(name, {0}))
            cand = {-1, 2147483647, -2147483648, 0x7fffff00}
            for t in T:
                cand |= {t, t + 1, t - 1, max(t - 2, 0)}
            cand.add(rng.randint(0, max(T[-1], 1)))
            vals = sorted(cand) if thorough else rng.sample(sorted(cand), 4)
            for v in vals:
                if -2147483648 <= v <= 2147483647 and v != cur[e]:
                    case("ref", name, "w%d:%s" % (img.arr_off[name] + 4 * e, i32(v)), "[%d]=%d" % (e, v))
    # canonical probes of the suspicions of DESIGN.md §6 (each only where the model has the object)
    if img.arr_n.get("geom_bodyid"):
        case("ref", "geom_bodyid", "w%d:%s" % (img.arr_off["geom_bodyid"], i32(2147483647)), "[0]=2147483647", canonical=True)
    for r in table_rows:
        if r["num"] and img.arr_n.get(r["name"]):
            nums = img.ints(r["num"])
            hit = [i for i, v in enumerate(nums) if v > 0]
            if hit:
                case("ref", r["name"], "w%d:%s" % (img.arr_off[r["name"]] + 4 * hit[-1], i32(-1)), "[%d]=-1 with %s=%d" % (hit[-1], r["num"], nums[hit[-1]]), canonical=True)
                break
    if img.arr_n.get("sensor_type"):
        case("type", "sensor_type", "w%d:%s" % (img.arr_off["sensor_type"], i32(info["enums"]["mjSENS_PLUGIN"])), "[0]=mjSENS_PLUGIN", canonical=True)
        o = img.arr_off["sensor_type"]
        case("type", "sensor_type", "w%d:%s w%d:%s" % (o, i32(info["enums"]["mjSENS_TACTILE"]), img.arr_off["sensor_refid"], i32(-1)),
             "[0]=mjSENS_TACTILE, sensor_refid[0]=-1", canonical=True)
    if img.arr_n.get("eq_type"):
        case("type", "eq_type", "w%d:%s" % (img.arr_off["eq_type"], i32(99)), "[0]=99", canonical=True)
    # type / selector arrays
    enum_vals = sorted({v for k, v in info["enums"].items()}) + [-1, 4, 7, 99, 1000, 2147483647, -2147483648]
    for name in TYPE_ARRAYS:
        if name not in img.arr_n or img.arr_n[name] == 0:
            continue
        n = img.arr_n[name] // 4
        cur = img.ints(name)
        for e in sample_entries(rng, n, 3 if thorough else 1):
            vals = enum_vals if thorough else rng.sample(enum_vals, 6)
            for v in vals:
                if v != cur[e]:
                    case("type", name, "w%d:%s" % (img.arr_off[name] + 4 * e, i32(v)), "[%d]=%d" % (e, v))
    # random single- and multi-byte corruptions anywhere
    for _ in range(300 if thorough else 60):
        k = rng.choice((1, 1, 2, 4, 8))
        o = rng.randrange(0, img.total - k)
        # a multi-byte write can straddle two arrays: name both, so that the oracle attributes an accepted corruption to the
        # array that was really changed (e.g. the last byte landing in sensor_dim) and not only to the one holding the first byte
        ra, rb = img.region(o), img.region(o + k - 1)
        case("random", ra if ra == rb else ra + "+" + rb, "w%d:%s" % (o, "".join("%02x" % rng.randrange(256) for _ in range(k))), "@%d" % o)
    # insertions / deletions
    for _ in range(20 if thorough else 6):
        o = rng.randrange(img.hdr, img.total)
        case("random", "ins@%d" % o, "z%d:%d" % (o, rng.choice((1, 4, 8, 64))))
        case("random", "del@%d" % o, "d%d:%d" % (o, min(rng.choice((1, 4, 8)), img.total - o)))
    return out


def trunc_lines(ctx, img, thorough, exhaustive):
    rng = ctx.rng
    L = []
    if exhaustive:
        return ["sweep 0 %d 1" % img.total]
    step = max(1, img.total // (400 if thorough else 150))
    L.append("sweep %d %d %d" % (rng.randrange(step), img.total, step))
    # structural boundaries +-1
    bounds = {0, 1, img.hdr - 1, img.hdr, img.hdr + 1, img.blob_off[0] - 1, img.blob_off[0], img.blob_off[0] + 1, img.total - 1}
    for o in img.blob_off:
        bounds |= {o, o + 1}
    offs = sorted(set(img.arr_off.values()))
    for o in (offs if thorough else rng.sample(offs, min(len(offs), 40))):
        bounds |= {o - 1, o, o + 1}
    for b in sorted(x for x in bounds if 0 <= x < img.total):
        L.append("load t%d" % b)
    return L


# ------------------------------------------------------------------------------------------ comparison / oracle
def split_out(o):
    parts = o.split(" ;", 1)
    return parts[0].strip(), (parts[1].strip() if len(parts) > 1 else "")


def nbuf_of(s):
    for t in s.split():
        if t.startswith("nbuf="):
            return t[5:]
    return None


class Run:
    def __init__(self):
        self.pairs = []
        self.hazards = 0
        self.allocfail = 0

    def cmp(self, a, b):
        self.pairs.append((a, b))
        res, _ = split_out(b)
        if a == res:
            return True
        if a.startswith("hazard "):
            # the model says the C code has undefined behaviour here: any implementation outcome is consistent
            # with the model; the property oracle judges the implementation's outcome on its own
            self.hazards += 1
            return True
        if res.startswith("fatal Could not allocate memory"):
            nb = nbuf_of(res)
            if nb and nb.isdigit() and int(nb) > ALLOC_CAP and nbuf_of(a) == nb:
                self.allocfail += 1
                return True
        return False


def run_translator(ctx):
    r = subprocess.run([sys.executable, os.path.join(common.VERIF, "translate", "c31_layout.py")],
                       capture_output=True, text=True, env=dict(os.environ, VERIF_REPO=common.REPO))
    ok = r.returncode == 0
    ctx.oblige("translator c31_layout (X-macros via cpp, sizeof/enum probe, template match of engine_io.c bodies, MJMODEL_REFERENCES)",
               "translator", ok, (r.stdout + r.stderr)[-2500:])
    if not ok:
        if os.path.exists(GEN_JSON):
            # keep the previous layout for the differential/oracle run (so that a failing input can still be searched for),
            # the broken obligation already forces a non-zero verdict
            return json.load(open(GEN_JSON)), False
        return None, False
    return json.load(open(GEN_JSON)), True


def asan_variant():
    """the tree's mjsan.h uses a clang-only attribute placement when __SANITIZE_ADDRESS__ is defined: gcc needs -U"""
    if "-U__SANITIZE_ADDRESS__" in build.VARIANTS["asan"]:
        return "asan"
    build.VARIANTS.setdefault("asan_gcc", build.VARIANTS["asan"] + ["-U__SANITIZE_ADDRESS__"])
    return "asan_gcc"


def rule_lines(info, fields):
    have = {p["name"]: p for p in info["ptrs"]}
    L = []
    for f in fields:
        if f["arr"] not in have or have[f["arr"]]["esz"] != 4 or f["n"] not in info["sizes"] or f["target"] not in info["sizes"]:
            continue
        if f["num"] and f["num"] not in have:
            continue
        if any(a not in have for a, _ in f["when"]):
            continue
        s = "rule arr=%s n=%s*%d stride=%d off=%d target=%s min=%d" % (f["arr"], f["n"], f["k"], f["stride"], f["off"], f["target"], f["min"])
        if f["num"]:
            s += " num=" + f["num"]
        for a, vs in f["when"]:
            s += " when=%s:%s" % (a, ",".join(str(v) for v in vs))
        L.append(s)
    return L


def classify(ctx, case, model_out, impl_out, covered, mdl_idx, desc, fails, notes):
    """property oracle on the implementation's output alone (the model's output is only quoted in the replay).
    `fails`: key -> [(what, replay)] (violations); `notes`: label -> [text] (observations that are not violations of C31)"""
    res, orc = split_out(impl_out)
    cls, field_all = case["cls"], case["field"]
    field = field_all.split("+")[0]        # keys and messages name the array holding the first byte, as before
    replay = {"model": mdl_idx, "op": "load " + case["edits"], "class": cls, "field": field, "note": case["note"], "impl_output": impl_out[:600],
              "model_output": model_out[:300],
              "replay": "printf 'model <description>\\n<rule lines of checks/c31.py rule_lines()>\\noracle 1\\nload %s\\n' | <c31_mjb harness>"
                        % case["edits"][:300], "description": desc}

    def fail(key, what):
        fails.setdefault(key, []).append((what, replay))
    san = ""
    for t in impl_out.split():
        if t.startswith("san=") or t.startswith("at="):
            san += " " + t
    if "canary=overwritten" in res or res.startswith("crash") or " crash " in (" " + res + " "):
        # died inside mj_loadModelBuffer, or wrote past the end of the model buffer it allocated
        if "signed_integer_overflow" in san:
            if field == "nmocap":
                fail("c31:loader-nc-int-overflow", "UBSan: `MJ_M(nmocap)*3` overflows `int` in the read loop of mj_loadModelBuffer (%s):%s" % (case["note"], san))
            else:
                fail("c31:validate-int-overflow", "UBSan: `adr + num` overflows `int` in mj_validateReferences for a corrupted %s (%s):%s" % (field, case["note"], san))
        elif cls in ("nnames_map", "size", "resize"):
            fail("c31:loader-memory-unsafe:%s" % field, "mj_loadModelBuffer crashed / wrote past the model buffer with a corrupted %s (%s):%s %s"
                 % (field, case["note"], san, res[:160]))
        else:
            fail("c31:loader-crash:%s:%s" % (cls, field), "mj_loadModelBuffer crashed on a corrupted %s (%s):%s %s" % (field, case["note"], san, res[:160]))
        return "crash"
    if res.startswith("fatal"):
        if "Could not allocate memory" in res:
            return "allocfail"
        fail("c31:corrupt-file-aborts:%s" % res[6:].split(" nbuf")[0][:80],
             "a corrupted %s (%s) ends in mju_error (by default the process exits) instead of a warning and NULL: %s" % (field, case["note"], res[:160]))
        return "fatal"
    if res.startswith("reject"):
        if "leak=1" in impl_out:
            fail("c31:leak-on-reject:%s" % res[7:].split(" nbuf")[0][:60], "rejected load leaks the model allocated by mj_makeModel: %s" % impl_out[:400])
        return "reject"
    if not res.startswith("ok"):
        fail("c31:harness-output", "unparseable harness output: " + impl_out[:200])
        return "other"
    # accepted: independent bounds check, then mj_makeData / mj_forward
    kv = dict(t.split("=", 1) for t in orc.split() if "=" in t)
    oob = kv.get("oob", "?")
    crashed = "crash" in orc.split() or "timeout" in orc.split() or "canary=overwritten" in orc
    stage = kv.get("stage", "")
    tail = (" and mj_%s then crashed" % stage) if crashed else ""
    if oob not in ("-", "?"):
        arr = oob.split("[")[0].split(":")[0]
        v = num = None
        try:
            v = int(oob.split("=")[1].split(",")[0])
            num = int(oob.split("num=")[1].split(",")[0])
        except Exception:
            pass
        if arr in covered and v is not None and num is not None and v + num > 2147483647:
            fail("c31:validate-int-overflow", "the loader accepted %s: `adr + num` overflows `int` in mj_validateReferences and wraps%s%s"
                 % (oob, tail, san))
        elif arr in covered and v == -1:
            fail("c31:minus-one-with-count-accepted", "the loader accepted %s (address -1 with a non-empty range; every row of the table accepts -1)%s"
                 % (oob, tail))
        elif arr in covered and cls in ("ref", "type", "random") and any(f != arr and f in COUNT_ARRAYS for f in field_all.split("+")):
            field = [f for f in field_all.split("+") if f != arr and f in COUNT_ARRAYS][0]
            fail("c31:unvalidated-count-array:%s" % field, "the loader accepted %s %s, which makes %s: %s is validated with a size derived elsewhere, "
                 "the engine uses %s%s" % (field, case["note"], oob, arr, field, tail))
        elif arr in covered:
            fail("c31:accepted-oob-reference:%s" % arr, "the loader accepted a model with %s although %s is validated (%s %s)%s%s"
                 % (oob, arr, field, case["note"], tail, san))
        else:
            fail("c31:unvalidated-index-array:%s" % arr, "the loader accepted a model with %s: %s is not validated by mj_validateReferences%s%s"
                 % (oob, arr, tail, san))
        return "accepted-oob"
    if crashed:
        # every hand-listed index is in bounds, yet the model is inconsistent enough to crash the engine: beyond what C31
        # states (cross-references in bounds), recorded as an observation
        notes.setdefault("accepted_inbounds_models_that_crash", []).append(
            "%s %s %s -> %s %s" % (cls, field, case["note"], stage, san.strip()[:160]))
        return "accepted-crash"
    if "leak=1" in orc:
        fail("c31:leak-after-accept", "leak after an accepted load: " + orc[:300])
    return "accepted"


# ------------------------------------------------------------------------------------------ run
def run(ctx):
    thorough = ctx.tier == "thorough"
    ctx.rule = ("models: seeded random mjSpec-built kinematic trees (4 profiles: rich / small / large / single body; joints of all "
                "types, mocap, actuators, tendons, equalities, sensors, pairs, excludes, keys, numeric, text, nuser_* columns); ops per "
                "model: size, save (length + FNV-1a of the image), load, truncation sweep + every structural boundary +-1 (thorough: "
                "every length for 5 models), corruptions of every header byte, every size field (blind and consistent +-1 resizes "
                "with recomputed nbuffer), crafted nnames_map, entries of every reference/index/type array (boundary, -1, -2, INT_MAX, "
                "INT_MIN, large), random byte writes/insertions/deletions; a case is distinct by (model, op line); non-trivial = any "
                "load/sweep op")
    import time
    T = {}
    t0 = time.time()
    info, tr_ok = run_translator(ctx)
    T["translator"] = round(time.time() - t0, 1)
    t0 = time.time()
    ctx.lean_props(THEOREMS, extra_modules=("MjProof.Props.C31Gen",))
    T["lean_props"] = round(time.time() - t0, 1)
    ctx.extra["phase_seconds"] = T
    if not tr_ok:
        # the theorems about the generated layout were checked against the layout of the last accepted translation,
        # not against the current source: they do not count
        ctx.oblige("theorems of MjProof.C31Gen are about the layout of the current source", "translator", False,
                   "translator refused: MjProof/Gen/MjbLayout.lean is stale")
    ctx.assumptions += [
        "C31: allocation succeeds (the harness refuses requests above 256 MB and the comparison then only checks the requested size)",
        "C31: buffer_sz is a non-negative int: images longer than INT_MAX are outside the model",
        "C31: the special logic of mj_validateReferences is hand-modelled (tied by a token-exact template and by the differential run)",
        "C31: plugin sensors are outside the model (mjp_getPluginAtSlot is reported as a hazard)",
    ]
    if info is None:
        ctx.oblige("correspondence MJB vs Lean model", "correspondence", False, "no generated layout (translator refused)")
    drv = ctx.driver("drv_c31") if info else None
    impl = ctx.harness("harness/c/c31_mjb.c", "c31_mjb", deps=["harness/mjbuild.h"])
    if not impl or info is None:
        return
    fields = index_fields()
    table = {r["name"] for r in info["refs"]}
    covered = table | SPECIAL_COVERED | {"jnt_qposadr", "jnt_dofadr"}
    hand = []
    for f in fields:
        if f["arr"] not in hand:
            hand.append(f["arr"])
    have = {p["name"] for p in info["ptrs"]}
    gaps = [a for a in hand if a in have and a not in covered]
    ctx.extra["index_arrays_hand_list"] = len(hand)
    ctx.extra["index_arrays_not_validated"] = gaps
    ctx.extra["index_arrays_validated_only_by_special_logic"] = sorted(a for a in hand if a in SPECIAL_COVERED)
    ctx.extra["hand_listed_arrays_missing_from_mjmodel"] = [a for a in hand if a not in have]
    ctx.extra["unchecked_dimension_pointers"] = [p["name"] for p in info["ptrs"]
                                                 if info["sizes"].index(p["nr"]) >= info["nargs"] or p["nr"] == "nnames_map"]
    ctx.extra["sizes_not_checked_by_loader"] = info["sizes"][info["nargs"]:]
    ctx.extra["table_rows_allow_minus_one"] = "all %d rows of MJMODEL_REFERENCES accept -1 (adrsmin < -1 is the only lower test)" % len(info["refs"])

    # ---- models, first pass: compile + dump with the real code
    nmodels = 6 if thorough else 4
    descs = [gen_model(ctx.rng, k) for k in range(nmodels)]
    first = []
    for d in descs:
        first += ["model " + d, "dump"]
    rc, outs, err = ctx.run_lines([impl], first)
    if rc != 0 or len(outs) != len(first):
        ctx.oracle_failure("c31:crash", "harness crashed while compiling/dumping generated models (rc=%s)" % rc, {"stderr": err[-800:]})
        return
    models = []
    for k, d in enumerate(descs):
        o, dump = outs[2 * k], outs[2 * k + 1]
        if o != "ok" or not dump.startswith("S "):
            ctx.oblige("generated model %d compiles" % k, "impl-build", False, o[:300])
            continue
        img = Image(info, dump)
        if img.nbuffer(img.S) != img.S["nbuffer"]:
            # the check's own re-implementation of the buffer size disagrees with the compiler: do not craft resizes from it
            ctx.oblige("nbuffer formula of the check (model %d)" % k, "correspondence", False,
                       "python %d vs compiled %d" % (img.nbuffer(img.S), img.S["nbuffer"]))
        models.append((k, d, dump, img))
    ctx.extra["models"] = [{"id": k, "image_bytes": img.total, "nonzero_sizes": {n: v for n, v in img.S.items() if v}} for k, _, _, img in models]

    # ---- lines
    rules = rule_lines(info, fields)
    lines = list(rules) + ["oracle 1"]
    meta = [None] * len(lines)
    hist = {}
    nexh = 0
    for k, d, dump, img in models:
        lines += ["model %s | %s" % (d, dump), "size", "save", "load"]
        meta += [("model", k), ("size", k), ("save", k), ("load", k)]
        exhaustive = thorough and nexh < 5 and img.total < 14000
        nexh += exhaustive
        for l in trunc_lines(ctx, img, thorough, exhaustive):
            lines.append(l)
            meta.append(("trunc", k))
        cases = corruption_cases(ctx, info, img, thorough, fields, info["refs"], canonical_resize=(k == models[0][0]))
        # bound the number of loads per model: all canonical probes + a seeded sample of the rest
        keep = [c for c in cases if c["canonical"]]
        rest = [c for c in cases if not c["canonical"]]
        ctx.rng.shuffle(rest)
        cases = keep + rest[:(THOROUGH_SAMPLED_PER_MODEL if thorough else QUICK_SAMPLED_PER_MODEL)]
        for c in cases:
            lines.append("load " + c["edits"])
            meta.append(("corrupt", k, c))
            hist[c["cls"]] = hist.get(c["cls"], 0) + 1
    lines.append("frob 1 2")
    meta.append(None)
    ctx.extra["corruption_classes"] = hist
    ctx.extra["exhaustive_scopes"] = ("every truncation length of %d models" % nexh) if nexh else \
        "quick tier: sweep at ~150 lengths + structural boundaries per model"
    ctx.extra["differential_ops"] = len(lines)

    # ---- T: differential correspondence; S: oracle on the implementation's own outputs
    if os.environ.get("C31_DUMP_LINES"):
        with open(os.environ["C31_DUMP_LINES"], "w") as f:
            f.write("".join(l + "\n" for l in lines))
    run1 = Run()
    t0 = time.time()
    if drv:
        ctx.differential("mj_sizeModel/mj_saveModel/mj_loadModelBuffer vs Lean model on the generated layout, %d models" % len(models),
                         [drv], [impl], lines, keyf=lambda l: l[:200] if l.split()[0] in ("load", "sweep", "save", "size") else None,
                         cmp=run1.cmp)
        pairs = run1.pairs
        if len(pairs) != len(lines):
            # the implementation died: re-run it alone to get its outputs up to the crash
            rc, outs, err = ctx.run_lines([impl], lines)
            pairs = [("", o) for o in outs] + [("", "")] * (len(lines) - len(outs))
            ctx.oracle_failure("c31:crash", "MJB harness itself crashed (rc=%s after %d of %d ops)" % (rc, len(outs), len(lines)),
                               {"stderr": err[-600:], "op": lines[min(len(outs), len(lines) - 1)][:400]})
    else:
        ctx.oblige("correspondence MJB vs Lean model", "correspondence", False, "driver did not build")
        rc, outs, err = ctx.run_lines([impl], lines)
        pairs = [("", o) for o in outs] + [("", "")] * (len(lines) - len(outs))
    T["differential"] = round(time.time() - t0, 1)
    ctx.extra["model_hazard_cases_skipped_in_comparison"] = run1.hazards
    ctx.extra["allocation_cap_cases"] = run1.allocfail

    fails = {}
    notes = {}
    saved, sized = {}, {}
    outcome_hist = {}
    desc_of = {k: d for k, d, _, _ in models}
    for l, mt, (a, b) in zip(lines, meta, pairs):
        if mt is None:
            continue
        kind = mt[0]
        if kind == "save":
            saved[mt[1]] = b
        elif kind == "size":
            sized[mt[1]] = b
        if kind == "load":
            sv = dict(t.split("=", 1) for t in saved.get(mt[1], "").split() if "=" in t)
            ld = dict(t.split("=", 1) for t in split_out(b)[0].split() if "=" in t)
            if b.startswith("ok") and (sv.get("fnv") != ld.get("fnv") or sv.get("len") != ld.get("len")):
                fails.setdefault("c31:roundtrip-differs", []).append(
                    ("load(save m) re-saved is not byte-identical to save m: saved %s, reloaded %s" % (saved.get(mt[1]), b[:120]),
                     {"model": mt[1], "description": desc_of[mt[1]]}))
            if sized.get(mt[1]) != sv.get("len"):
                fails.setdefault("c31:size-ne-length", []).append(
                    ("mj_sizeModel = %s but the image written by mj_saveModel has %s bytes" % (sized.get(mt[1]), sv.get("len")),
                     {"model": mt[1], "description": desc_of[mt[1]]}))
            if not b.startswith("ok"):
                fails.setdefault("c31:roundtrip-rejected", []).append(("loading an unmodified saved image failed: " + b[:200], {"model": mt[1], "description": desc_of[mt[1]]}))
        elif kind == "trunc":
            res, _ = split_out(b)
            bad = None
            if l.startswith("sweep"):
                kv = dict(t.split("=", 1) for t in b.split(" ", 2) if "=" in t)
                if kv.get("n") != kv.get("reject") or not b.startswith("n="):
                    bad = b
            elif not res.startswith("reject ") or "crash" in b or "leak=1" in b:
                bad = b
            if bad is not None:
                key = "c31:leak-on-truncated-structs" if ("leak=1" in bad and "crash" not in bad) else "c31:truncation-not-rejected"
                fails.setdefault(key, []).append(("truncated image not cleanly rejected: %s -> %s" % (l, bad[:300]),
                                                  {"model": mt[1], "op": l, "impl_output": bad[:600], "description": desc_of[mt[1]]}))
        elif kind == "corrupt":
            oc = classify(ctx, mt[2], a, b, covered, mt[1], desc_of[mt[1]], fails, notes)
            outcome_hist[mt[2]["cls"] + ":" + oc] = outcome_hist.get(mt[2]["cls"] + ":" + oc, 0) + 1
    ctx.extra["corruption_outcomes"] = outcome_hist

    # ---- the hypotheses of the theorems hold on the generated models (Lean side only)
    if drv:
        cl = []
        for k, d, dump, img in models:
            cl += ["model x | " + dump, "consistent"]
        rc, outs, err = ctx.run_lines([drv], cl)
        okc = rc == 0 and len(outs) == len(cl) and all(outs[2 * i + 1] == "true" for i in range(len(models)))
        ctx.oblige("hypothesis `Consistent` of the C31 theorems holds on every generated model (consistentB, %d models)" % len(models),
                   "correspondence", okc, " ".join(outs[1::2])[:300] + err[-300:])

    # ---- thorough: the same crafted and sampled loads under AddressSanitizer/UBSan/LeakSanitizer
    if thorough:
        av = asan_variant()
        aimpl = ctx.harness("harness/c/c31_mjb.c", "c31_mjb", variant=av, extra=("-DC31_SANITIZE",), deps=["harness/mjbuild.h"])
        if aimpl:
            al, am = list(rules) + ["oracle 1"], [None] * (len(rules) + 1)
            for k, d, dump, img in models[:3]:
                al.append("model %s | %s" % (d, dump))
                am.append(None)
                idx = [i for i, mt in enumerate(meta) if mt and mt[0] in ("corrupt", "trunc") and mt[1] == k]
                crafted = [i for i in idx if meta[i][0] == "corrupt" and meta[i][2]["cls"] in ("nnames_map", "header")]
                rest = [i for i in idx if i not in set(crafted) and not lines[i].startswith("sweep")]
                ctx.rng.shuffle(rest)
                for i in crafted + rest[:250]:
                    al.append(lines[i])
                    am.append(meta[i])
                step = max(1, img.total // 150)
                al.append("sweep 0 %d %d" % (img.total, step))
                am.append(("trunc", k))
            env = dict(os.environ, ASAN_OPTIONS="detect_leaks=1:exitcode=77:allocator_may_return_null=1:symbolize=0", UBSAN_OPTIONS="print_stacktrace=0")
            rc, outs, err = ctx.run_lines([aimpl], al, env=env, timeout=3000)
            ctx.extra["asan_ops"] = len(al)
            if rc != 0 or len(outs) != len(al):
                ctx.oracle_failure("c31:crash", "ASan harness itself died (rc=%s after %d of %d ops)" % (rc, len(outs), len(al)),
                                   {"stderr": err[-800:], "op": al[min(len(outs), len(al) - 1)][:400]})
            ah = {}
            for l, mt, b in zip(al, am, outs):
                if mt is None:
                    continue
                if mt[0] == "trunc":
                    res, _ = split_out(b)
                    bad = None
                    if l.startswith("sweep"):
                        kv = dict(t.split("=", 1) for t in b.split(" ", 2) if "=" in t)
                        if kv.get("n") != kv.get("reject"):
                            bad = b
                    elif not res.startswith("reject ") or "crash" in b or "leak=1" in b:
                        bad = b
                    if bad is not None:
                        key = "c31:leak-on-truncated-structs" if ("leak=1" in bad and "crash" not in bad) else "c31:truncation-not-rejected"
                        fails.setdefault(key, []).append(("[asan] truncated image not cleanly rejected: %s -> %s" % (l, bad[:400]),
                                                          {"model": mt[1], "op": l, "impl_output": bad[:600], "variant": av,
                                                           "description": desc_of[mt[1]]}))
                else:
                    oc = classify(ctx, mt[2], "", b, covered, mt[1], desc_of[mt[1]], fails, notes)
                    ah[mt[2]["cls"] + ":" + oc] = ah.get(mt[2]["cls"] + ":" + oc, 0) + 1
            ctx.extra["asan_outcomes"] = ah
        ctx.leanchecker(["MjProof.Props.C31", "MjProof.Props.C31Gen"])

    # ---- report
    for key in sorted(fails):
        what, replay = fails[key][0]
        replay = dict(replay, occurrences=len(fails[key]), other_instances=[w[:160] for w, _ in fails[key][1:4]])
        ctx.oracle_failure(key, what, replay)
    ctx.extra["oracle_failure_keys"] = {k: len(v) for k, v in sorted(fails.items())}
    ctx.extra["observations_not_violations"] = {k: {"count": len(v), "examples": v[:8]} for k, v in notes.items()}
    ctx.extra["oracle_checked"] = sum(1 for m in meta if m)
    for i, (l, mt) in enumerate(zip(lines, meta)):
        if mt and mt[0] == "save":
            ctx.sample({"op": "save (model %d)" % mt[1], "model_and_impl_output": pairs[i][1]})
            break
    for i, (l, mt) in enumerate(zip(lines, meta)):
        if mt and mt[0] == "corrupt" and mt[2]["cls"] == "ref" and pairs[i][1].startswith("reject"):
            ctx.sample({"op": l[:120], "model_output": pairs[i][0][:160], "impl_output": pairs[i][1][:160]})
            break

    def directed(ctx2):
        # a proof/tie obligation broke and the sampled oracle saw nothing: every truncation length and the full corruption
        # set on up to three models
        fl = {}
        for k, d, dump, img in models[:3]:
            L2 = list(rules) + ["oracle 1", "model %s | %s" % (d, dump), "load", "sweep 0 %d 1" % img.total]
            cs = corruption_cases(ctx2, info, img, True, fields, info["refs"])
            L2 += ["load " + c["edits"] for c in cs]
            rc, outs, err = ctx2.run_lines([impl], L2)
            base = len(rules) + 2
            if rc != 0 or len(outs) != len(L2):
                return {"key": "c31:crash", "what": "harness died in the directed search", "replay": {"stderr": err[-500:]}}
            if not outs[base].startswith("ok"):
                return {"key": "c31:roundtrip-rejected", "what": "unmodified image rejected: " + outs[base][:200], "replay": {"description": d}}
            sw = outs[base + 1]
            kv = dict(t.split("=", 1) for t in sw.split(" ", 2) if "=" in t)
            if kv.get("n") != kv.get("reject"):
                return {"key": "c31:truncation-not-rejected", "what": "truncation not rejected: " + sw[:300], "replay": {"description": d, "op": "sweep 0 %d 1" % img.total}}
            for c, o in zip(cs, outs[base + 2:]):
                classify(ctx2, c, "", o, covered, k, d, fl, {})
        known = {kf["key"] for kf in ctx2.known()}
        for key in sorted(fl):
            if key not in known and key not in fails:
                what, replay = fl[key][0]
                return {"key": key, "what": what, "replay": replay}
        return None
    ctx.directed_search = directed
