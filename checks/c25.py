"""C25  Analytic derivatives match finite differences (DESIGN.md §5.C25).

P  Lean theorems (lean/MjProof/Props/C25.lean) over the reals about the *generated* scalar kernels (mju_polyForce /
   mjd_xPolyForce for dampers, inRange; regenerated from the working tree by translate/c2lean.py on every run) and about
   the hand model lean/MjProof/Model/FDBook.lean of the finite-difference drivers' save / nudge / step / restore
   bookkeeping (mjd_stepFD as called by mjd_transitionFD, mjd_inverseFD) and of diff / clampedDiff / clampedStateDiff.
T  translator regeneration + bitwise translation validation of the kernels; differential of the modelled drivers
   (lean/Drivers/C25.lean, with an observing stand-in for mj_stepSkip / inverseSkip) against the *unmodified*
   mjd_transitionFD / mjd_inverseFD, whose internal evaluations are observed through engine callbacks
   (harness/c/c25_deriv.c): same sequence of (skip stage, perturbed input, direction) events and same restored fields.
S  property oracle on the real engine over generated models with damping (incl. polynomial), every actuator
   gain/bias/dynamics type the generator knows, tendons, fluid forces (inertia-box and ellipsoid): analytic
   mjd_smooth_vel (and its actuator / passive / bias parts, and the qDeriv the implicit integrators leave behind) vs
   central differences of the smooth forces w.r.t. qvel; mjd_transitionFD / mjd_inverseFD vs direct perturbation of
   mj_step / mj_inverse on copies; forward vs centred agreement on smooth models; bitwise state preservation.
"""
import json
import math
import os

from checks import common, kernelval
from gen import enums
from gen.models import ModelGen, fmt

E = enums.E

META = {
    "technique": "c2lean translation of the scalar derivative kernels (regenerated every run) + hand model of the FD drivers' bookkeeping + Lean 4 proofs over the reals (HasDerivAt of the damper / affine-actuator force laws as coded; frame argument over the op sequence of the modelled mjd_stepFD / mjd_inverseFD for every opaque step function; exactness of the differencing helpers on affine maps) + bitwise translation validation + trace differential of the modelled drivers against the unmodified mjd_transitionFD / mjd_inverseFD observed through engine callbacks + property oracle on generated models (qDeriv vs central differences, FD Jacobians vs direct perturbation, forward vs centred, state hashes)",
    "text": "Proved over the reals: the dof/tendon damper force as coded, -v*mju_polyForce(b, poly, v, 2, 1) = -(b v + p0 v|v| + p1 v^3), is differentiable at EVERY v (including 0) with derivative -mjd_xPolyForce(b, poly, v, 2, 1), the term mjd_passive_vel puts on qDeriv; the affine actuator force (g0 + g1 l + g2 v) u + b0 + b1 l + b2 v has velocity derivative b2 + g2 u, the term mjd_actuator_vel adds; the generated mjd_muscleGain_vel is the velocity derivative of the generated mju_muscleGain at every velocity that is not a breakpoint (-1, 0, fvmax-1 in normalised units) of the force-velocity curve, for all parameters (mjMINVAL clamps and the force<0 scaling branch included).  For the modelled mjd_stepFD (as called by mjd_transitionFD) and EVERY stand-in for mj_stepSkip and mj_integratePos (arbitrary functions on mjData), every configuration (requested outputs, centred or not, eps, control limits / ranges / values, warmstart flag, any nv, na, nu): the mjData it leaves behind agrees with the input on every field of restore_spec (time, qpos, qvel, act, history, plugin state, ctrl, and qacc_warmstart unless warmstart is disabled); fields outside restore_spec that the step stand-in does not modify (qfrc_applied, xfrc_applied, mocap, userdata, eq_active) are unchanged too.  For the modelled mjd_inverseFD and every stand-in for inverseSkip that leaves qpos, qvel, qacc alone (the frame condition of inverse dynamics; its necessity is shown by a counterexample) the result agrees with the input on qpos, qvel, qacc (element-wise save/nudge/restore and the full-copy restore of qpos).  diff, clampedStateDiff (state rows) and clampedDiff (sensor rows of the control Jacobian) are exact on affine maps in forward, backward and centred mode, and the two clamped helpers are the same function on plain vectors.",
    "note": "`_partial`: mjd_rne_vel, the fluid derivatives (mjd_inertiaBoxFluid, mjd_ellipsoidFluid), the sparse J'BJ accumulation and the numerical content of the FD Jacobians are decided by the oracle only.  GENUINE DEFECTS of the tree reported by the oracle under stable keys: (1) c25:transitionFD:D-centered-sign -- FIXED in /repo by 8c58e7e22 (the centred branch of clampedDiff was diff(dx, x_plus, x_minus, 2h); mjd_transitionFD with flg_centered returned D = d sensor / d ctrl with the wrong sign); model and theorem clampedDiff_affine_exact follow the fixed code, the oracle keeps the key as a regression probe (centred D equal to minus the direct perturbation); the remaining four are known findings and each key is assigned only when a second evaluation of the real code confirms the specific mechanism (a different failure of the same routine keeps its generic key): (2) c25:qderiv:actuator:ctrl-outside-ctrlrange: mjd_actuator_vel multiplies the velocity gain by the raw d->ctrl although mj_fwdActuation clamps ctrl to ctrlrange, so for a control outside its range the analytic derivative differs from the derivative of the force that is applied (theorem affine_actuator_vel_deriv is about the input the force law uses) [confirmation: mjd_actuator_vel re-evaluated with d->ctrl clamped agrees with the finite differences]; (3) c25:transitionFD:euler-polydamping-stale-factorization: velocity nudges are stepped with skipstage POS, mj_EulerSkip then reuses the factorisation of M + h diag(d damper/d v), which with polynomial damping depends on the nudged velocity: velocity columns of A differ from direct perturbation of mj_step by O(1) relative amounts [confirmation: the same columns agree when the computation is repeated with the integrator option set to implicit]; (4) c25:transitionFD:implicit-stale-qDeriv-for-ctrl-act: ctrl / act nudges are stepped with skipstage VEL, mj_implicitSkip then reuses qDeriv and its factorisation, which depend on ctrl / act through velocity-dependent actuator gains (affine kv, muscle): B and the act columns of A differ from direct perturbation [confirmation: they agree when repeated with the integrator option set to Euler];  (5) c25:qderiv:passive:ellipsoid-drag-minval-guard: mjd_viscous_drag divides by max(mjMINVAL, sqrt(proj_num^3 proj_denom)), a quantity of order size^12 speed^4 that is below 1e-15 for centimetre-sized non-spherical geoms at centimetres per second, so the d(A_proj)/dv term is lost there and the analytic derivative of the ellipsoid drag is off by percents [confirmation: at the same state with all velocities scaled by 1000 the guard is inactive and analytic = finite differences].  Comparison conventions: qDeriv is compared on the sparsity pattern of M only (documented restriction, computation/index.rst) and the analytic derivative is evaluated with the integrator option set to implicit (implicitfast symmetrises the fluid blocks: documented approximation).  Oracle tolerances: qDeriv vs central differences 3e-5 x scale (eps 1e-6; observed <= 4e-6); FD Jacobians vs direct perturbation 1e-6 x scale / eps-free (same arithmetic on copies); forward vs centred on smooth models (no contacts, limits, friction loss, equalities, cutoffs) 2e-3 x scale; state hashes bitwise.  The trace differential observes the real drivers through mjcb_control (inside every mj_stepSkip) and mjcb_act_gain (inside inverseSkip's mj_fwdActuation) on hinge/slide chains built by the harness; skip stages are observed through sentinels in light_xpos / cdof_dot that only mj_fwdPosition / mj_fwdVelocity rewrite.  Reals, not doubles: rounding is outside the proofs.",
}

P = "MjProof.C25."
THEOREMS = [P + t for t in (
    "hasDerivAt_mul_abs", "polyForce_deriv", "affine_actuator_vel_deriv", "muscleGain_vel_deriv",
    "setState_getState_of_mem", "setState_of_not_mem", "fd_restores_state", "fd_preserves_untouched_inputs",
    "fd_restores_state_inverse", "fd_inverse_frame_needed",
    "fd_affine_exact", "clampedStateDiff_affine_exact", "clampedDiff_affine_exact", "clampedDiff_eq_clampedStateDiff",
)]

KERNELS = ["mju_polyForce_damper", "mjd_xPolyForce_damper", "mjd_muscleGain_vel", "mju_muscleGain", "inRange", "mju_max"]

DEFECT_D_SIGN = "c25:transitionFD:D-centered-sign"
DEFECT_EULER = "c25:transitionFD:euler-polydamping-stale-factorization"
DEFECT_IMPLICIT = "c25:transitionFD:implicit-stale-qDeriv-for-ctrl-act"
DEFECT_CTRL = "c25:qderiv:actuator:ctrl-outside-ctrlrange"
DEFECT_GUARD = "c25:qderiv:passive:ellipsoid-drag-minval-guard"
TOL_QDERIV = 3e-5
TOL_DIRECT = 1e-6
TOL_FWD_CEN = 2e-3


def fb(x):
    return kernelval.fbits(float(x))


# ------------------------------------------------------------------------------------------ trace differential
def gen_trace_lines(ctx, n):
    rng = ctx.rng
    lines, hist = [], {}
    for k in range(n):
        nv = rng.randint(0, 6)
        nu = rng.randint(0, 5) if nv else 0
        na = rng.randint(0, nu)
        eps = rng.choice((1e-6, 1e-6, 1e-3, 1e-8, 0.5, 1e-20))
        acts = []
        for i in range(nu):
            lo = rng.uniform(-1, 0)
            hi = lo + rng.uniform(0.1, 2)
            c = rng.choice((lo, hi, lo + eps, hi - eps, hi - eps / 2, lo + eps / 2, rng.uniform(lo, hi), rng.uniform(lo, hi), hi + 1, lo - 1))
            acts.append("%d %s %s %s" % (rng.randint(0, 1), fb(lo), fb(hi), fb(c)))
        if k < 64:      # every combination of (centered, A, B, C, D, warmstart) once
            fl = [(k >> b) & 1 for b in range(6)]
        else:
            fl = [rng.randint(0, 1) for _ in range(6)]
        lines.append(("trace_step %d %d %d %d %d %d %s %d %d %d " % (*fl, fb(eps), nv, na, nu) + " ".join(acts)).strip())
        hist["trace_step:nv=%d" % min(nv, 3)] = hist.get("trace_step:nv=%d" % min(nv, 3), 0) + 1
    for k in range(max(32, n // 3)):
        fl = [(k >> b) & 1 for b in range(5)] if k < 32 else [rng.randint(0, 1) for _ in range(5)]
        lines.append("trace_inv %d %d %d %d %d %s %d" % (*fl, fb(rng.choice((1e-6, 1e-3, 0.5))), rng.randint(1, 6)))
    hist["trace_inv"] = max(32, n // 3)
    lines += ["trace_inv 1 1 1 1 1 %s 0" % fb(1e-6), "trace_step 1 1 1 1 1 0 %s 1 1 0" % fb(1e-6), "frob 1"]
    ctx.extra.setdefault("differential_input_classes", {}).update(hist)
    return lines


# ------------------------------------------------------------------------------------------ oracle: models
BASE = {"nbody": (1, 5), "damping": 0.8, "actuators": (1, 4), "tendons": 0.7, "sensors": (2, 5), "sites": 0.8,
        "integrators": ("Euler", "implicit", "implicitfast"), "sleep": 0.0, "keys": 0.0, "mocap": 0.05,
        "free": 0.35, "ball": 0.2, "energy": 0.0}
SMOOTH = dict(BASE, contacts=0.0, limits=0.0, frictionloss=0.0, equalities=0.0, plane=0.0, pairs=0.0)


class Scene:
    def __init__(self, rng, smooth):
        g = ModelGen(rng, SMOOTH if smooth else BASE)
        mdl = g.make()
        self.mdl, self.smooth = mdl, smooth
        L = mdl.lines.append
        h = {}
        kinds = {}
        for ln in list(mdl.lines):
            w = ln.split()
            if w[0] in ("tendon", "geom", "joint", "actuator"):
                kinds[w[1]] = w[0]
            if w[0] == "name":
                h[w[2]] = (int(w[1]), kinds.get(w[1]))
        self.feat = []
        # polynomial damping on some joints / tendons, actuator damping
        for j in mdl.joints:
            if j["type"] != "free" and rng.random() < 0.5:
                L("set %d damping %s" % (j["handle"], fmt([rng.uniform(0.05, 2), rng.uniform(0, 1.5), rng.uniform(0, 1.0)])))
                self.feat.append("polydamping")
        for nm, (hh, kd) in h.items():
            if kd == "tendon" and rng.random() < 0.6:
                L("set %d damping %s" % (hh, fmt([rng.uniform(0.05, 1), rng.uniform(0, 1.0), rng.uniform(0, 0.5)])))
                self.feat.append("tendon-polydamping")
        # fluid
        r = rng.random()
        if r < 0.6:
            L("option density %r" % rng.choice((1.2, 50.0, 1000.0)))
            L("option viscosity %r" % rng.choice((0.0, 0.00002, 0.1, 2.0)))
            if rng.random() < 0.5:
                L("option wind %s" % fmt([rng.gauss(0, 1) for _ in range(3)]))
            self.feat.append("fluid")
            for nm, (hh, kd) in h.items():
                if kd == "geom" and nm != "floor" and rng.random() < 0.4:
                    L("set %d fluid_ellipsoid 1" % hh)
                    L("set %d fluid_coefs %s" % (hh, fmt([0.5, 0.25, 1.5, 1.0, 1.0])))
                    self.feat.append("fluid-ellipsoid")
        if smooth:
            mdl.lines[:] = [ln for ln in mdl.lines if " cutoff " not in ln]
        for a in mdl.actuators:
            self.feat.append("act:" + a["kind"])

    def state_lines(self, rng):
        st = self.mdl.random_state(rng, perturb=False)
        if self.smooth:
            st["qvel"] = [0.5 * v for v in st["qvel"]]
        if rng.random() < 0.75:
            # keep the controls inside every declared ctrlrange (the regime in which the derivative is specified);
            # the remaining states leave them outside on purpose
            rg = {}
            for ln in self.mdl.lines:
                w = ln.split()
                if w[0] == "set" and w[2] == "ctrlrange":
                    rg[int(w[1])] = (float(w[3]), float(w[4]))
            k = 0
            for ln in self.mdl.lines:
                w = ln.split()
                if w[0] == "actuator":
                    if int(w[1]) in rg and k < len(st["ctrl"]):
                        lo, hi = rg[int(w[1])]
                        st["ctrl"][k] = lo + (hi - lo) * rng.uniform(0.05, 0.95)
                    k += 1
        lines = []
        for k in ("qpos", "qvel", "act", "ctrl", "mocap_pos", "mocap_quat"):
            if st[k]:
                lines.append("state %s %s" % (k, fmt(st[k])))
        return lines


def parse_block(out, pos):
    rec = {"mat": {}, "error": None}
    while pos < len(out):
        w = out[pos].split()
        pos += 1
        if not w:
            continue
        if w[0] == "done":
            return rec, pos
        if w[0] == "error":
            rec["error"] = " ".join(w[1:])
        elif w[0] == "sizes":
            rec["sizes"] = [int(x) for x in w[1:]]
        elif w[0] == "hash":
            rec["hash"] = w[1:]
        elif w[0] == "mat":
            rec["mat"][w[1]] = [float(x) for x in w[3:]]
    rec["error"] = rec["error"] or "truncated output"
    return rec, pos


def amax(x):
    return max([abs(v) for v in x] + [0.0])


def mdiff(a, b):
    return max([abs(x - y) for x, y in zip(a, b)] + [0.0])


def finite(xs):
    return all(x == x and abs(x) != float("inf") for x in xs)


class Dev:
    def __init__(self):
        self.m = {}

    def see(self, key, dev, allowed):
        r = dev / allowed if allowed > 0 else (0.0 if dev == 0 else float("inf"))
        if not (r <= self.m.get(key, 0.0)):
            self.m[key] = r
        return dev <= allowed


def dev_ok(a, b, allowed):
    return mdiff(a, b) <= allowed


def masked(M, k):
    return [x * mk for x, mk in zip(M[k], M["mask"])]


def judge_qderiv(rec, dev, probe=None):
    """probe: the record of the same state with all velocities (and the wind) scaled by 1000, or None"""
    fails = []
    M = rec["mat"]
    nv = rec["sizes"][0]
    if nv == 0:
        return fails
    for k, v in M.items():
        if not finite(v):
            return [("c25:qderiv:nonfinite", "non-finite derivative or force (%s)" % k, {})]
    frc = max(1.0, amax(M["qfrc_actuator"]), amax(M["qfrc_passive"]), amax(M["qfrc_bias"]))
    # D is restricted to the sparsity pattern of M (documented: computation/index.rst, "we restrict D to have the same
    # sparsity pattern as M ... will exclude damping in tendons which connect bodies on different branches"):
    # the comparison is made on the pattern only
    mask = M["mask"]
    Fact, Fpas, Fbias = masked(M, "F_act"), masked(M, "F_pas"), masked(M, "F_bias")
    ci = M["ctrlinfo"]
    ctrl_out = any(ci[4 * i] and not (ci[4 * i + 1] <= ci[4 * i + 3] <= ci[4 * i + 2]) for i in range(len(ci) // 4))
    Abias = [x - y for x, y in zip(M["A_smooth1"], M["A_smooth0"])]

    def tol(A, F):
        return TOL_QDERIV * max(1.0, amax(A), amax(F), frc)

    def report(name, key, what, A, F, extra=None):
        i = max(range(len(A)), key=lambda k: abs(A[k] - F[k]))
        d = {"row": i // nv, "col": i % nv, "analytic": A[i], "finite_difference": F[i], "ctrlinfo(limited,lo,hi,ctrl)": ci}
        d.update(extra or {})
        fails.append((key, what + " (deviation %.3g > allowed %.3g)" % (mdiff(A, F), tol(A, F)), d))

    # ---- actuator term
    A = M["A_act"]
    if mdiff(A, Fact) <= tol(A, Fact):
        dev.see("qderiv:actuator", mdiff(A, Fact), tol(A, Fact))
    else:
        # KNOWN FINDING, kept narrow: some limited control is outside its range AND the same engine routine evaluated with
        # the controls clamped the way mj_fwdActuation clamps them agrees with the finite differences.  Anything else that
        # goes wrong in mjd_actuator_vel keeps the generic key.
        Ac = M["A_act_clampedctrl"]
        if ctrl_out and mdiff(Ac, Fact) <= tol(Ac, Fact):
            dev.m["count:" + DEFECT_CTRL] = dev.m.get("count:" + DEFECT_CTRL, 0) + 1
            report("actuator", DEFECT_CTRL, "mjd_actuator_vel uses the raw d->ctrl although mj_fwdActuation clamps ctrl to ctrlrange: for a "
                   "control outside its range the analytic d(actuator force)/d(qvel) differs from central differences (and agrees "
                   "with them once d->ctrl is clamped)", A, Fact)
        else:
            dev.see("qderiv:actuator", mdiff(A, Fact), tol(A, Fact))
            report("actuator", "c25:qderiv:actuator", "analytic d(actuator force)/d(qvel) differs from central differences", A, Fact)
    # ---- passive term
    A = M["A_pas"]
    if mdiff(A, Fpas) <= tol(A, Fpas):
        dev.see("qderiv:passive", mdiff(A, Fpas), tol(A, Fpas))
    else:
        # KNOWN FINDING, kept narrow: the mjMINVAL guard of mjd_viscous_drag is active for some non-spherical ellipsoid-fluid
        # geom at this state AND at the same state with every velocity scaled by 1000 the guard is inactive and the analytic
        # passive derivative agrees with the finite differences.
        explained = False
        if M.get("fluidguard", [0])[0] > 0 and probe is not None and not probe["error"]:
            P = probe["mat"]
            if finite(P["A_pas"]) and finite(P["F_pas"]) and P.get("fluidguard", [1])[0] == 0:
                pf = max(1.0, amax(P["qfrc_actuator"]), amax(P["qfrc_passive"]), amax(P["qfrc_bias"]))
                PF = masked(P, "F_pas")
                explained = mdiff(P["A_pas"], PF) <= TOL_QDERIV * max(1.0, amax(P["A_pas"]), amax(PF), pf)
        if explained:
            dev.m["count:" + DEFECT_GUARD] = dev.m.get("count:" + DEFECT_GUARD, 0) + 1
            report("passive", DEFECT_GUARD, "mjd_viscous_drag clamps sqrt(proj_num^3 proj_denom) (of order size^12 speed^4) from below by "
                   "mjMINVAL = 1e-15; for centimetre-sized non-spherical ellipsoid-fluid geoms moving at centimetres per second the "
                   "clamp is active and the d(A_proj)/d(v) term of the drag derivative is lost: analytic d(passive force)/d(qvel) "
                   "differs from central differences (and agrees with them when all velocities are scaled by 1000)", A, Fpas,
                   {"geoms_with_active_guard": M["fluidguard"][0]})
        else:
            dev.see("qderiv:passive", mdiff(A, Fpas), tol(A, Fpas))
            report("passive", "c25:qderiv:passive", "analytic d(passive force)/d(qvel) differs from central differences", A, Fpas)
    # ---- bias term (mjd_rne_vel): qDeriv -= d(qfrc_bias)/d(qvel)
    Fb = [-x for x in Fbias]
    if not dev.see("qderiv:bias", mdiff(Abias, Fb), tol(Abias, Fb)):
        report("bias", "c25:qderiv:bias", "analytic -d(bias force)/d(qvel) (mjd_rne_vel) differs from central differences", Abias, Fb)
    # ---- assembly: mjd_smooth_vel without the bias term is the sum of its two parts
    S = [a + b for a, b in zip(M["A_act"], M["A_pas"])]
    if not dev.see("qderiv:assembly", mdiff(M["A_smooth0"], S), 1e-9 * max(1.0, amax(S))):
        report("assembly", "c25:qderiv:assembly", "mjd_smooth_vel(flg_bias=0) differs from mjd_actuator_vel + mjd_passive_vel", M["A_smooth0"], S)
    out = [abs(a + p - b) for a, p, b, mk in zip(M["F_act"], M["F_pas"], M["F_bias"], mask) if mk == 0]
    if out and max(out) > TOL_QDERIV * frc:
        dev.m["info:derivative-outside-the-pattern-of-M(count)"] = dev.m.get("info:derivative-outside-the-pattern-of-M(count)", 0) + 1
    return fails


def judge_implicit(rec, dev):
    M = rec["mat"]
    if not finite(M["A_direct"] + M["A_step"]):
        return [("c25:implicit:nonfinite", "non-finite qDeriv", {})]
    scale = max(1.0, amax(M["A_direct"]))
    d = mdiff(M["A_direct"], M["A_step"])
    if not dev.see("implicit:qDeriv", d, 1e-9 * scale):
        return [("c25:implicit:qDeriv", "qDeriv left by mj_step of the implicit integrator differs from mjd_smooth_vel at the same state "
                 "(deviation %.3g)" % d, {"integrator": rec["sizes"][1]})]
    return []


def cols_off(M, k, nv, na, nu, which):
    """does Jacobian k differ from direct perturbation in a column of the given classes?"""
    ndx = 2 * nv + na
    ncol = ndx if k in ("A", "C") else nu
    scale = max(1.0, amax(M[k]), amax(M[k + "_direct"]))
    for t, (x, y) in enumerate(zip(M[k], M[k + "_direct"])):
        if abs(x - y) > TOL_DIRECT * scale:
            c = t % ncol
            cls = ("q" if c < nv else "v" if c < 2 * nv else "a") if k in ("A", "C") else "u"
            if cls in which:
                return True
    return False


def judge_transfd(rec, dev, centered, smooth, other, scene=None, probe=None):
    """other: the record of the same state with the opposite differencing mode (or None);
    probe: the forward-mode record of the same state with the integrator option overridden (Euler <-> implicit)"""
    fails = []
    probe_ok = probe is not None and not probe["error"] and all(finite(probe["mat"][q]) for q in ("A", "B", "A_direct", "B_direct"))
    integ = scene.mdl.options["integrator"] if scene else None
    poly = scene is not None and any(f in scene.feat for f in ("polydamping", "actuator-damping"))
    velgain = scene is not None and any(f in scene.feat for f in ("act:damper", "act:general", "act:muscle"))
    M = rec["mat"]
    nv, na, nu, ns, nq, wdis = rec["sizes"]
    h0, h1, w0, w1 = rec["hash"]
    if h0 != h1:
        fails.append(("c25:transitionFD:state-changed", "mjd_transitionFD changed the state (time/qpos/qvel/act/plugin/ctrl/applied forces/mocap/userdata)", {}))
    if w0 != w1 and not wdis:
        fails.append(("c25:transitionFD:warmstart-changed", "mjd_transitionFD changed qacc_warmstart although warmstart is enabled", {}))
    for k in ("A", "B", "C", "D"):
        if not finite(M[k]) or not finite(M[k + "_direct"]):
            fails.append(("c25:transitionFD:nonfinite", "non-finite Jacobian " + k, {}))
            return fails
        scale = max(1.0, amax(M[k]), amax(M[k + "_direct"]))
        d = mdiff(M[k], M[k + "_direct"])
        if d <= TOL_DIRECT * scale:
            dev.see("transfd:%s:direct" % k, d, TOL_DIRECT * scale)
        else:
            key = "c25:transitionFD:%s-vs-direct" % k
            what = "Jacobian %s of mjd_transitionFD differs from direct perturbation of mj_step" % k
            ndx = 2 * nv + na
            ncol = ndx if k in ("A", "C") else nu
            cols = set()
            for t, (x, y) in enumerate(zip(M[k], M[k + "_direct"])):
                if abs(x - y) > TOL_DIRECT * scale:
                    c = t % ncol
                    cols.add(("q" if c < nv else "v" if c < 2 * nv else "a") if k in ("A", "C") else "u")
            if k == "D" and centered and mdiff(M[k], [-x for x in M[k + "_direct"]]) <= TOL_DIRECT * scale * 10 + 0.5 * d:
                key = DEFECT_D_SIGN
                what = "centred mjd_transitionFD returns D = d(sensor)/d(ctrl) with the opposite sign (clampedDiff: diff(x_plus, x_minus))"
            # KNOWN FINDINGS, kept narrow: besides the configuration (integrator, feature) and the affected columns, the same
            # columns must AGREE with direct perturbation when the very same computation is repeated with the other
            # integrator, whose factorisation does not depend on the nudged input; any other failure of the perturbation
            # loops shows up under both integrators and keeps the generic key.
            elif (k in ("A", "C") and cols <= {"v"} and integ == "Euler" and poly and probe_ok and
                  not cols_off(probe["mat"], k, nv, na, nu, {"v"})):
                key = DEFECT_EULER
                what = ("mjd_transitionFD perturbs qvel with skipstage POS, so mj_EulerSkip reuses the factorisation of M + h*diag(damping "
                        "derivative); with polynomial damping that derivative depends on qvel: velocity columns differ from direct "
                        "perturbation of mj_step")
            elif (((k in ("A", "C") and cols <= {"a"}) or k in ("B", "D")) and integ in ("implicit", "implicitfast") and velgain and
                  probe_ok and not cols_off(probe["mat"], k, nv, na, nu, {"a", "u"})):
                key = DEFECT_IMPLICIT
                what = ("mjd_transitionFD perturbs ctrl / act with skipstage VEL, so mj_implicitSkip reuses qDeriv and its factorisation; "
                        "with a velocity-dependent actuator gain qDeriv depends on ctrl / act: those columns differ from direct "
                        "perturbation of mj_step")
            i = max(range(len(M[k])), key=lambda t: abs(M[k][t] - M[k + "_direct"][t]))
            if key in (DEFECT_D_SIGN, DEFECT_EULER, DEFECT_IMPLICIT):
                dev.m["count:" + key] = dev.m.get("count:" + key, 0) + 1
            else:
                dev.see("transfd:%s:direct" % k, d, TOL_DIRECT * scale)
            fails.append((key, what + " (deviation %.3g > allowed %.3g)" % (d, TOL_DIRECT * scale),
                          {"matrix": k, "index": i, "transitionFD": M[k][i], "direct": M[k + "_direct"][i], "centered": centered}))
    if smooth and other is not None and not other["error"]:
        for k in ("A", "B", "C", "D"):
            a, b = M[k], other["mat"][k]
            scale = max(1.0, amax(a), amax(b))
            d = mdiff(a, b)
            if d <= TOL_FWD_CEN * scale:
                dev.see("transfd:%s:fwd-vs-centered" % k, d, TOL_FWD_CEN * scale)
            else:
                key = "c25:transitionFD:%s-fwd-vs-centered" % k
                if k == "D" and mdiff(a, [-x for x in b]) <= TOL_FWD_CEN * scale:
                    key = DEFECT_D_SIGN
                else:
                    dev.see("transfd:%s:fwd-vs-centered" % k, d, TOL_FWD_CEN * scale)
                fails.append((key, "forward and centred Jacobian %s of mjd_transitionFD disagree beyond differencing accuracy "
                              "(deviation %.3g > allowed %.3g)" % (k, d, TOL_FWD_CEN * scale), {"matrix": k}))
    return fails


def judge_invfd(rec, dev):
    fails = []
    M = rec["mat"]
    h0, h1 = rec["hash"]
    if h0 != h1:
        fails.append(("c25:inverseFD:state-changed", "mjd_inverseFD changed qpos / qvel / qacc / act / time / ctrl", {}))
    for k in ("DfDq", "DfDv", "DfDa"):
        if not finite(M[k]) or not finite(M[k + "_direct"]):
            fails.append(("c25:inverseFD:nonfinite", "non-finite Jacobian " + k, {}))
            return fails
        scale = max(1.0, amax(M[k]), amax(M[k + "_direct"]), amax(M["qfrc_inverse"]))
        d = mdiff(M[k], M[k + "_direct"])
        if not dev.see("invfd:%s:direct" % k, d, TOL_DIRECT * scale):
            fails.append(("c25:inverseFD:%s-vs-direct" % k, "Jacobian %s of mjd_inverseFD differs from direct perturbation of mj_inverse "
                          "(deviation %.3g > allowed %.3g)" % (k, d, TOL_DIRECT * scale), {}))
    return fails


def run_models(ctx, impl, nmodels, nstates, dev, hist, max_report=8):
    rng = ctx.rng
    found, nfail, nevals = [], 0, 0
    for k in range(nmodels):
        smooth = k % 2 == 0
        scene = Scene(rng, smooth)
        integ = scene.mdl.options["integrator"]
        lines = ["model"] + scene.mdl.lines + ["end"]
        plan = []
        for _ in range(nstates):
            sl = scene.state_lines(rng)
            alt = "implicit" if integ == "Euler" else "euler"
            ops = ["qderiv 1e-6", "qderiv 1e-6 1000"]
            if integ in ("implicit", "implicitfast"):
                ops.append("implicit")
            ops += ["transfd 0 1e-6", "transfd 1 1e-6", "transfd 0 1e-6 " + alt, "invfd 1e-6 %d" % rng.randint(0, 1)]
            lines += sl + ops
            plan.append((sl, ops))
        rc, out, err = ctx.run_lines([impl], lines)
        if rc != 0:
            found.append({"key": "c25:crash", "what": "derivative harness crashed (rc=%s)" % rc,
                          "replay": {"harness_input": lines, "stderr": err[-300:]}})
            nfail += 1
            continue
        if not out or not out[0].startswith("ok"):
            hist["model-rejected"] = hist.get("model-rejected", 0) + 1
            ctx.extra.setdefault("rejected_models", []).append((out[0] if out else "")[:200])
            continue
        for f in set(scene.feat):
            hist[f] = hist.get(f, 0) + nstates
        hist["integrator:" + integ] = hist.get("integrator:" + integ, 0) + nstates
        hist["smooth" if smooth else "contact"] = hist.get("smooth" if smooth else "contact", 0) + nstates
        pos = 1
        for sl, ops in plan:
            pos += len(sl)
            recs = {}
            fs = []
            for op in ops:
                rec, pos = parse_block(out, pos)
                recs[op] = rec
                if rec["error"]:
                    hist["error:" + rec["error"][:60]] = hist.get("error:" + rec["error"][:60], 0) + 1
                    continue
                if op in ("qderiv 1e-6 1000", "transfd 0 1e-6 " + alt):
                    continue        # probes: only consulted to classify a failure of the primary evaluation
                nevals += 1
                if op == "implicit":
                    fs += judge_implicit(rec, dev)
                elif op.startswith("invfd"):
                    fs += judge_invfd(rec, dev)
            if not recs["qderiv 1e-6"]["error"]:
                fs += judge_qderiv(recs["qderiv 1e-6"], dev, recs["qderiv 1e-6 1000"])
            for op, oth in (("transfd 0 1e-6", "transfd 1 1e-6"), ("transfd 1 1e-6", "transfd 0 1e-6")):
                if not recs[op]["error"]:
                    fs += judge_transfd(recs[op], dev, op.split()[1] == "1", smooth, recs.get(oth) if op.split()[1] == "0" else None, scene,
                                        recs["transfd 0 1e-6 " + alt])
            ctx.count(("model", k, tuple(sl)))
            if fs:
                nfail += 1
                for key, what, detail in fs[:6]:
                    if len(found) < max_report or key not in {f["key"] for f in found}:
                        found.append({"key": key, "what": what,
                                      "replay": dict(detail, features=sorted(set(scene.feat)), integrator=integ,
                                                     harness_input=lines[:len(scene.mdl.lines) + 2] + sl + ops,
                                                     how="feed harness_input to the c25_deriv harness built by checks/c25.py")})
    return found, nfail, nevals


# ------------------------------------------------------------------------------------------ entry point
def run(ctx):
    ctx.rule = ("trace op lines (every combination of requested outputs / centred / warmstart flag, random sizes, controls at and "
                "around their range limits, eps from 1e-20 to 0.5); oracle: generated models (gen/models.py + polynomial damping, "
                "tendon damping, fluid options, ellipsoid fluid geoms added by this module; alternately smooth and contact-rich) x "
                "random states; a case is distinct by its op line / (model, state)")
    thorough = ctx.tier == "thorough"
    m = kernelval.regen(ctx)
    ctx.lean_props(THEOREMS)
    kernelval.validate(ctx, m, KERNELS, 2000 if thorough else 150, label="C25 derivative kernels")
    ctx.extra["kernel_body_sha256"] = {n: m.get("kernels", {}).get(n, {}).get("sha256", "")[:16] for n in KERNELS}
    ctx.oblige("mjNPOLY == 2 (the specialisation of the polynomial kernels)", "translator",
               "#define mjNPOLY         2" in open(os.path.join(common.REPO, "include/mujoco/mjmodel.h")).read())
    drv = ctx.driver("drv_c25")
    impl = ctx.harness("harness/c/c25_deriv.c", "c25_deriv", deps=["harness/mjbuild.h"])
    dev = Dev()
    if drv and impl:
        lines = gen_trace_lines(ctx, 1500 if thorough else 160)
        ctx.differential("mjd_transitionFD / mjd_inverseFD perturb-step-restore trace (observed through engine callbacks) vs Lean model",
                         [drv], [impl], lines, keyf=lambda l: l if len(l.split()) > 8 else None)
        ctx.sample({"op": lines[5][:300]})
    if impl:
        hist = {}

        def oracle(c, nmodels, nstates, mr=8):
            return run_models(c, impl, nmodels, nstates, dev, hist, mr)
        found, nfail, nevals = oracle(ctx, 300 if thorough else 30, 3 if thorough else 2)
        for f in found:
            ctx.oracle_failure(f["key"], f["what"], f["replay"])
        ctx.extra["oracle_evaluations"] = nevals
        ctx.extra["oracle_failing_states"] = nfail
        ctx.extra["oracle_feature_histogram"] = dict(sorted(hist.items()))
        ctx.extra["oracle_max_deviation_over_allowed"] = {k: float("%.3g" % v) for k, v in sorted(dev.m.items()) if ":" in k and not k.startswith(("count:", "info:"))}
        ctx.extra["oracle_defect_occurrences"] = {k[6:]: v for k, v in sorted(dev.m.items()) if k.startswith("count:")}
        ctx.extra["oracle_info"] = {k[5:]: v for k, v in sorted(dev.m.items()) if k.startswith("info:")}
        ctx.sample({"oracle": "qderiv / implicit / transfd fwd+centred / invfd on %d evaluations" % nevals})

        def directed(c):
            for _ in range(4):
                fnd, _, _ = oracle(c, 40, 3, 1)
                if fnd:
                    return fnd[0]
            return None
        ctx.directed_search = directed
    if thorough:
        ctx.leanchecker(["MjProof.Props.C25"])
