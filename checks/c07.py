"""C07  Kinematics and Jacobians are consistent with positions (DESIGN.md §5.C07).

P  Lean theorems over the reals (lean/MjProof/Props/C07.lean) about the executable forward-kinematics model
   (lean/MjProof/Model/Kinematics.lean), assembled from the quaternion kernels generated from the C sources.
T  translator regeneration + bitwise translation validation of those kernels; bitwise correspondence of the Lean model
   (Float) with mj_kinematics (+ mj_local2Global frames, fixed cameras), mj_integratePos and mj_differentiatePos of the
   tree build on generated kinematic trees.
   mj_local2Global is modelled with both mjtSameFrame switches (position and orientation) and proved exact in every class
   (local2Global_shortcut_exact); the generator produces bodies with explicit rotated inertial frames carrying geoms and
   sites of all five classes (none / body / bodyrot / inertia / inertiarot, incl. the quaternion double cover), cameras and
   fixed lights, so the bitwise tie and the oracle (frame = matrix of xquat * local quaternion in EVERY class, class
   assignment legitimate) exercise every branch; the histogram of the classes the compiler assigned is in the evidence.
   The sparse dof chains (lean/MjProof/Model/DofChain.lean: mj_mergeChain with and without flg_skipcommon) are proved to
   hold exactly the dofs moving either / exactly one of the two bodies, and tied to the C function by exact integer
   correspondence on every generated tree.
S  property oracle on the real engine alone (harness/c/c07_oracle.c): orthonormality and matrix<->quaternion agreement
   of all frames; every Jacobian entry point (mj_jac at random body points, mj_jacBody, mj_jacBodyCom, mj_jacSubtreeCom,
   mj_jacGeom, mj_jacSite, mj_jacSparse) against central differences of the engine's own kinematics along
   mj_integratePos perturbations; object velocities and cvel = J qvel; mj_jacDot against central differences of J along
   the velocity; mj_differentiatePos o mj_integratePos = id and back.
   Constraint rows: the generated trees carry connect / weld (body and site semantic) / joint / tendon equalities, joint
   (slide, hinge, ball) and tendon limits, dof and tendon friction loss, fixed and spatial tendons (pulleys, wrapping
   geoms) and contacts of every condim; efc_J is dumped after mj_fwdPosition in dense AND sparse storage and for the
   pyramidal AND elliptic cone and judged: d(efc_pos)/dq along mj_integratePos = efc_J for every position-type row
   (equalities, limits), ten_J = d(ten_length)/dq, contact rows = contact frame x (mj_jac(body2, pos) - mj_jac(body1,
   pos)) with the normal row = d(dist)/dq for smooth geometries, friction rows = dof unit vector / ten_J, dense = sparse
   row by row, sparse layout (rownnz / rowadr / colind / nJ) consistent.  The two-body / multi-body entry points behind
   those rows (mj_jacDifPair in all four dense / sparse x flg_skipcommon modes incl. the simple-body fast path,
   mj_mergeChain, mj_jacSum, mj_jacPointAxis, mj_jacDotSparse) are also called directly and compared with mj_jac / mj_jacDot.
"""
import json
import math

from checks import common, kernelval
from checks import c06 as G          # shared tree generator / parsing helpers (same owner)
from gen.enums import E
from gen.models import unit_quat, fmt

META = {
    "technique": "Lean 4 proofs over the reals about a hand-written executable model of mj_kinematics assembled from c2lean-translated quaternion kernels (induction over the topologically ordered body list with the invariant 'unit quaternion, matrix = matrix of the quaternion'; HasDerivAt for the single-joint Jacobian columns via closed forms of the kernels, ring / linear_combination with the unit-norm hypotheses) + bitwise differential correspondence of the model (Float) with the compiled engine + finite-difference property oracle on the real engine",
    "text": "Proved for every kinematic tree given as a topologically ordered body list, every joint stack (slide / hinge / ball, or a lone free joint), mocap bodies and every configuration with unit joint / body quaternions and unit hinge axes: every body frame computed by the model of mj_kinematics1 has a unit quaternion, its matrix is mju_quat2Mat of that quaternion, and that matrix is a proper rotation (R R^T = R^T R = I, det R = 1); inertial, geom, site and fixed-camera frames of mj_local2Global are proper rotations in every mjtSameFrame case, and in each of the five classes the position / orientation shortcut returns exactly xpos + xmat * pos and the matrix of xquat * quat whenever the class is legitimate for the object (null local pose / null local rotation / local pose = inertial pose / local rotation = inertial rotation). Single-joint Jacobian columns: for a hinge, d/dtheta of the world position of any body-fixed point (computed by the model's joint step) is xaxis x (point - xanchor) with exactly the xaxis / xanchor that mj_kinematics stores (HasDerivAt, any pose before the joint with a unit quaternion, unit joint axis); for a slide it is xaxis. Sparse dof chains: for every dof parent map with parent index < dof index, the model of mj_mergeChain returns a strictly increasing chain that contains exactly the dofs moving the first or the second body and, with flg_skipcommon, exactly the dofs moving one body but not the other (bodyChain: exactly the dofs moving the body); on a dof shared by both bodies the two translational point-Jacobian columns differ by w x (pos2 - pos1), so dropping shared dofs is lossless iff the points coincide or the dof is translational. mj_differentiatePos inverts mj_integratePos: exactly for slide and hinge joints (any dt != 0); for ball and free joints under the no-wrap conditions of C24.subQuat_quatIntegrate (unit quaternion, |w| >= mjMINVAL, |dt||w| <= the mjPI literal, |sin(dt|w|/2)| >= mjMINVAL) [_partial].",
    "note": "NOT proved, decided by the finite-difference oracle on the real engine only: the whole-tree chain rule (that every Jacobian entry point, dense or sparse, equals the derivative of the corresponding position / orientation along mj_integratePos), cvel = J qvel / mj_objectVelocity, mj_jacDot, mj_comPos (subtree_com, cdof). Constraint rows (efc_J dense and sparse, pyramidal and elliptic; equalities connect / weld / joint / tendon, joint and tendon limits, friction loss, contacts, ten_J) are decided by the same kind of oracle: central differences of efc_pos / ten_length / contact distance along mj_integratePos, contact rows against the contact frame applied to mj_jac differences, dense against sparse storage; that the call sites of the engine pass the right flg_skipcommon / points to the proved chain routines is NOT proved, only decided by this oracle. Not generated: flex constraints (mjEQ_FLEX / FLEXVERT / FLEXSTRAIN, flex contacts through mj_jacSum are only reached by calling mj_jacSum directly), tendon side sites, jacobian=auto (sparse is forced instead), sleeping. The model uses the mju_ quaternion kernels where mj_kinematics calls the textually identical mji_ inline copies (listing the mji_ copies as kernels would change the generated shape other properties' proofs rely on); a divergence of an inline copy is caught by the bitwise FK correspondence. That the compiler assigns only legitimate sameframe classes is decided by the oracle (class validity is re-derived from the model arrays), not proved. Tracking / targeting camera and light modes, sleeping are not modelled (fixed lights are). Reals vs doubles: rounding is outside the proofs.",
}

P = "MjProof.C07."
THEOREMS = [P + t for t in (
    "quat2Mat_proper", "mulQuat_normSq", "normalize4_unit", "axisAngle2Quat_unit",
    "fk_frames_proper", "local2Global_proper", "local2Global_shortcut_exact",
    "rot_eq_mat", "cross_mat", "uvec_hasDerivAt", "hinge_column_is_derivative", "slide_column_is_derivative",
    "differentiate_integrate_slide", "differentiate_integrate_hinge",
    "differentiate_integrate_ball_partial", "differentiate_integrate_free_partial",
    "mergeChain_sorted", "mergeChain_mem", "mergeChain_skipcommon_mem", "bodyChain_mem",
    "common_dof_column_difference", "common_dof_column_cancels",
)]

KERNELS = ["mju_quat2Mat", "mju_mulQuat", "mju_rotVecQuat", "mju_axisAngle2Quat", "mju_normalize4", "mju_mulMatVec3",
           "mju_quatIntegrate", "mju_subQuat", "mju_normalize3"]

fb = kernelval.fbits
frombits = kernelval.frombits
parse_groups, F, I = G.parse_groups, G.F, G.I

EPS = 1e-6       # finite-difference step (DESIGN.md)
FDTOL = 2e-6     # allowed |FD - J| relative to the scale of the scene (measured: <= ~1e-9, see evidence)


# ------------------------------------------------------------------------------------------------ small math (spec side)
def qmat(q):
    q0, q1, q2, q3 = q
    return [q0 * q0 + q1 * q1 - q2 * q2 - q3 * q3, 2 * (q1 * q2 - q0 * q3), 2 * (q1 * q3 + q0 * q2),
            2 * (q1 * q2 + q0 * q3), q0 * q0 - q1 * q1 + q2 * q2 - q3 * q3, 2 * (q2 * q3 - q0 * q1),
            2 * (q1 * q3 - q0 * q2), 2 * (q2 * q3 + q0 * q1), q0 * q0 - q1 * q1 - q2 * q2 + q3 * q3]


def qmul(a, b):
    return [a[0] * b[0] - a[1] * b[1] - a[2] * b[2] - a[3] * b[3],
            a[0] * b[1] + a[1] * b[0] + a[2] * b[3] - a[3] * b[2],
            a[0] * b[2] - a[1] * b[3] + a[2] * b[0] + a[3] * b[1],
            a[0] * b[3] + a[1] * b[2] - a[2] * b[1] + a[3] * b[0]]


def mmul(a, b):
    return [sum(a[3 * i + k] * b[3 * k + j] for k in range(3)) for i in range(3) for j in range(3)]


def mT(a):
    return [a[3 * j + i] for i in range(3) for j in range(3)]


def mdet(a):
    return a[0] * (a[4] * a[8] - a[5] * a[7]) - a[1] * (a[3] * a[8] - a[5] * a[6]) + a[2] * (a[3] * a[7] - a[4] * a[6])


def mvec(a, v):
    return [sum(a[3 * i + k] * v[k] for k in range(3)) for i in range(3)]


def cross(a, b):
    return [a[1] * b[2] - a[2] * b[1], a[2] * b[0] - a[0] * b[2], a[0] * b[1] - a[1] * b[0]]


def maxdiff(a, b):
    return max([abs(x - y) for x, y in zip(a, b)] + [0.0])


EYE = [1.0, 0, 0, 0, 1.0, 0, 0, 0, 1.0]


def rot_fd(Rp, Rm, eps):
    """angular velocity column from R(+eps), R(-eps): vee(R+ R-^T - R- R+^T) / (4 eps)"""
    A = mmul(Rp, mT(Rm))
    return [(A[7] - A[5]) / (4 * eps), (A[2] - A[6]) / (4 * eps), (A[3] - A[1]) / (4 * eps)]



# ------------------------------------------------------------------------------------------------ sameframe classes
SF_NAME = {0: "none", 1: "body", 2: "inertia", 3: "bodyrot", 4: "inertiarot"}


def add_frame_classes(rng, t, hist, force=False):
    """mj_local2Global takes a shortcut per mjtSameFrame class (position and orientation switch); the compiler assigns the
    class by comparing the local pose of a geom / site with the null pose and with the body's inertial frame.  The c06
    generator only ever produces none / body / bodyrot (and inertia for the single geom of a body with inferred inertia), so
    bodies with an explicit, rotated inertial frame get geoms and sites that coincide with that frame (inertia), share only
    its orientation (inertiarot, also through the quaternion double cover and an unnormalised copy), sit at the inertial
    position with another orientation (none), plus null-pose and rotation-free ones; lights are attached to random bodies.
    The classes actually assigned by the compiler are read back from the model and recorded by the caller."""
    L = t.lines.append
    hmax, bodies = 0, {}
    order = []
    for l in t.lines:
        w = l.split()
        if w[0] in ("body", "joint", "freejoint", "geom", "site", "camera", "tendon", "actuator", "equality", "light"):
            hmax = max(hmax, int(w[1]))
        if w[0] == "body":
            bodies[int(w[1])] = {"explicit": False, "ipos": ["0", "0", "0"], "iquat": None, "geoms": []}
            order.append(int(w[1]))
        elif w[0] == "geom" and int(w[2]) in bodies:
            bodies[int(w[2])]["geoms"].append(int(w[1]))
        elif w[0] == "set" and int(w[1]) in bodies:
            b = bodies[int(w[1])]
            if w[2] == "explicitinertial":
                b["explicit"] = w[3] == "1"
            elif w[2] in ("ipos", "iquat"):
                b[w[2]] = w[3:]
    h = [hmax]

    def newh():
        h[0] += 1
        return h[0]

    def bump(k):
        hist[k] = hist.get(k, 0) + 1

    def obj(kind, bh, pos, quat, tag):
        oh = newh()
        L("%s %d %d" % (kind, oh, bh))
        name = "%s%d" % ("fg" if kind == "geom" else "fs", oh)
        L("name %d %s" % (oh, name))
        if kind == "geom":
            L("set %d type %d" % (oh, E("mjGEOM_BOX")))
            L("set %d size 0.03 0.05 0.07" % oh)
            L("set %d contype 0" % oh)
            L("set %d conaffinity 0" % oh)
            t.geoms.append({"name": name, "body": None})
        else:
            t.sites.append({"name": name, "body": order.index(bh) + 1})
        if pos is not None:
            L("set %d pos %s" % (oh, " ".join(pos)))
        if quat is not None:
            L("set %d quat %s" % (oh, " ".join(quat)))
        bump("requested:%s:%s" % (kind, tag))
    rp = lambda: [repr(rng.uniform(-0.3, 0.3)) for _ in range(3)]
    forced = False
    for bh in order:
        b = bodies[bh]
        if not b["explicit"]:
            continue
        all_ = force and not forced          # one body of a forced tree gets an object of every class (coverage by construction)
        if b["iquat"] is None and (all_ or rng.random() < 0.5):
            b["iquat"] = [repr(x) for x in unit_quat(rng)]
            L("set %d iquat %s" % (bh, " ".join(b["iquat"])))
        iq = b["iquat"]
        if iq is None or (not all_ and rng.random() < 0.25):
            continue
        forced = forced or all_
        neg = [repr(-float(x)) for x in iq]
        scaled = [repr(2.0 * float(x)) for x in iq]
        for kind in ("geom", "site"):
            if all_ or rng.random() < 0.6:
                obj(kind, bh, b["ipos"], rng.choice((iq, iq, neg, scaled)), "inertia")
            if all_ or rng.random() < 0.8:
                obj(kind, bh, rp(), rng.choice((iq, iq, neg, scaled)), "inertiarot")
            if all_ or rng.random() < 0.3:
                obj(kind, bh, b["ipos"], [repr(x) for x in unit_quat(rng)], "none(inertial position)")
            if all_ or rng.random() < 0.2:
                obj(kind, bh, None, None, "body")
            if all_ or rng.random() < 0.2:
                obj(kind, bh, rp(), None, "bodyrot")
    # lights (fixed mode): position through the NONE case of the position switch, direction through the body quaternion
    t.nlight = 0
    for bh in [0] + order:
        if rng.random() < 0.25:
            lh = newh()
            L("light %d %d" % (lh, bh))
            L("name %d lt%d" % (lh, lh))
            L("set %d pos %s" % (lh, " ".join(rp())))
            if rng.random() < 0.8:
                L("set %d dir %s" % (lh, " ".join(repr(x) for x in G.unit_vec(rng))))
            t.nlight += 1
    return forced

# ------------------------------------------------------------------------------------------------ constraint scenes
# The property quantifies over "constraint rows, sparse or dense" as well: the generated trees are completed with every
# constraint kind that can be built through harness/mjbuild.h (no flex): connect / weld (body and site semantic) / joint /
# tendon equalities, joint (slide, hinge, ball) and tendon limits, dof and tendon friction loss, fixed and spatial tendons
# (sites, pulleys, wrapping spheres / cylinders) and contacts of every condim between primitive geoms.
CN = {k: E("mjCNSTR_" + k) for k in ("EQUALITY", "FRICTION_DOF", "FRICTION_TENDON", "LIMIT_JOINT", "LIMIT_TENDON",
                                     "CONTACT_FRICTIONLESS", "CONTACT_PYRAMIDAL", "CONTACT_ELLIPTIC")}
CN_NAME = {v: k for k, v in CN.items()}


def body_relation(t, a, b):
    """how the dof chains of bodies a, b (indices into t.bodies + 1, 0 = world) relate"""
    def moving_ancestors(x):
        out = []
        while x:
            if any(j["body"] == t.bodies[x - 1]["name"] for j in t.joints):
                out.append(x)
            x = t.bodies[x - 1]["parent"]
        return out
    A, B = moving_ancestors(a), moving_ancestors(b)
    if not A or not B:
        return "one-side-fixed" if (A or B) else "both-fixed"
    common = set(A) & set(B)
    if not common:
        return "different-trees"
    if set(A) <= set(B) or set(B) <= set(A):
        return "ancestor-descendant"
    return "shared-moving-ancestor"


def add_constraints(rng, t, hist):
    """post-processes the lines of a c06 tree: enables constraints and appends constraint elements; returns the number added"""
    L = t.lines.append
    t.lines[:] = [l for l in t.lines if not l.startswith("option disableflags")]
    hmax = 0
    bh = {0: 0}
    for l in t.lines:
        w = l.split()
        if w[0] in ("body", "joint", "freejoint", "geom", "site", "camera", "tendon", "actuator", "equality", "light"):
            hmax = max(hmax, int(w[1]))
        if w[0] == "name" and w[2].startswith("b") and w[2][1:].isdigit():
            bh[int(w[2][1:])] = int(w[1])
    h = [hmax]

    def newh():
        h[0] += 1
        return h[0]

    def bump(k, n=1):
        hist[k] = hist.get(k, 0) + n
    nb = len(t.bodies)
    n_added = 0
    margin_choice = lambda: rng.choice((100.0, 100.0, 0.4, 0.0))
    # ---- joint limits and friction loss
    for j in t.joints:
        if j["type"] in ("hinge", "slide") and rng.random() < 0.3:
            lo = rng.uniform(-2.0, 0.5)
            L("set %d limited 1" % j["handle"])
            L("set %d range %r %r" % (j["handle"], lo, lo + rng.uniform(0.2, 2.5)))
            L("set %d margin %r" % (j["handle"], margin_choice()))
            bump("limit:" + j["type"])
            n_added += 1
        elif j["type"] == "ball" and rng.random() < 0.5:
            L("set %d limited 1" % j["handle"])
            L("set %d range 0 %r" % (j["handle"], rng.uniform(0.3, 2.5)))
            L("set %d margin %r" % (j["handle"], margin_choice()))
            bump("limit:ball")
            n_added += 1
        if rng.random() < 0.15:
            L("set %d frictionloss %r" % (j["handle"], rng.uniform(0.01, 2.0)))
            bump("frictionloss:" + j["type"])
            n_added += 1
    # ---- tendons (fixed, spatial with sites / pulleys / wrapping geoms), with limits and friction loss
    sj = [j for j in t.joints if j["type"] in ("hinge", "slide")]
    tendons = []

    def finish_tendon(th, kind):
        name = "ct%d" % (len(tendons) + 1)
        L("name %d %s" % (th, name))
        if rng.random() < 0.6:
            lo = rng.uniform(-1.0, 1.0)
            L("set %d limited 1" % th)
            L("set %d range %r %r" % (th, lo, lo + rng.uniform(0.1, 2.0)))
            L("set %d margin %r" % (th, margin_choice()))
            bump("limit:tendon-" + kind)
        if rng.random() < 0.4:
            L("set %d frictionloss %r" % (th, rng.uniform(0.01, 2.0)))
            bump("frictionloss:tendon-" + kind)
        tendons.append(name)
        bump("tendon:" + kind)
    if len(sj) >= 1:
        for _ in range(rng.choice((0, 1, 1, 2))):
            th = newh()
            L("tendon %d" % th)
            for j in rng.sample(sj, min(len(sj), rng.choice((1, 2, 2, 3)))):
                L("wrap %d joint %s %r" % (th, j["name"], rng.choice((1.0, -1.0, rng.uniform(-2, 2) or 0.5))))
            finish_tendon(th, "fixed")
            n_added += 1
    if len(t.sites) >= 2:
        for _ in range(rng.choice((0, 1, 1, 2))):
            th = newh()
            L("tendon %d" % th)
            ss = rng.sample(t.sites, min(len(t.sites), rng.choice((2, 2, 3, 4))))
            kind = "spatial"
            # a pulley splits the tendon into branches; every branch starts and ends with a site
            pulley_at = 2 if (len(ss) == 4 and rng.random() < 0.5) else None
            for k, s in enumerate(ss):
                if k == pulley_at:
                    L("wrap %d pulley %r" % (th, rng.choice((1.0, 2.0, 0.5))))
                    kind += "+pulley"
                L("wrap %d site %s" % (th, s["name"]))
                if k + 1 < len(ss) and k + 1 != pulley_at and rng.random() < 0.3:
                    # wrapping sphere / cylinder on a random body between two sites (no side site)
                    gh = newh()
                    gn = "wg%d" % gh
                    bi = rng.randint(0, nb)
                    gt = rng.choice(("SPHERE", "CYLINDER"))
                    L("geom %d %d" % (gh, bh[bi]))
                    L("name %d %s" % (gh, gn))
                    L("set %d type %d" % (gh, E("mjGEOM_" + gt)))
                    L("set %d size %s" % (gh, fmt([rng.uniform(0.03, 0.15)] + ([rng.uniform(0.1, 0.3)] if gt == "CYLINDER" else []))))
                    L("set %d pos %s" % (gh, fmt([rng.uniform(-0.2, 0.2) for _ in range(3)])))
                    L("set %d quat %s" % (gh, fmt(unit_quat(rng))))
                    L("set %d contype 0" % gh)
                    L("set %d conaffinity 0" % gh)
                    L("set %d density 10" % gh)
                    t.geoms.append({"name": gn, "body": bi})
                    L("wrap %d geom %s ~" % (th, gn))
                    if "wrap" not in kind:
                        kind += "-wrap"
            finish_tendon(th, kind)
            n_added += 1
    # ---- equalities
    def pick_relation(cands):
        # the relations differ in which dofs the two chains share; shared moving ancestors are the rarest in random trees
        w = {"shared-moving-ancestor": 5, "ancestor-descendant": 2, "different-trees": 2, "one-side-fixed": 1, "both-fixed": 1}
        ks = sorted(cands)
        return rng.choices(ks, weights=[w[k] for k in ks])[0]

    def pick_pair():
        """two different bodies (0 = world allowed as the second), preferring structurally different relations"""
        cands = {}
        for a in range(1, nb + 1):
            for b in range(0, nb + 1):
                if a != b:
                    cands.setdefault(body_relation(t, a, b), []).append((a, b))
        cands.pop("both-fixed", None)
        if not cands:
            return None
        rel = pick_relation(cands)
        a, b = rng.choice(cands[rel])
        if b and rng.random() < 0.5:
            a, b = b, a
        return a, b, rel

    def site_pair():
        if len(t.sites) < 2:
            return None
        cands = {}
        for x in t.sites:
            for y in t.sites:
                if x is not y:
                    cands.setdefault(body_relation(t, x["body"], y["body"]), []).append((x, y))
        rel = pick_relation(cands)
        x, y = rng.choice(cands[rel])
        return x, y, rel
    bname = lambda b: "world" if b == 0 else t.bodies[b - 1]["name"]
    neq = rng.choice((0, 1, 2, 2, 3, 4)) if nb >= 1 else 0
    for _ in range(neq):
        kind = rng.choice(("connect", "connect", "weld", "weld", "connect-site", "weld-site", "joint", "tendon"))
        eh = None
        if kind in ("connect", "weld"):
            pr = pick_pair()
            if not pr:
                continue
            a, b, rel = pr
            eh = newh()
            L("equality %d" % eh)
            L("set %d type %d" % (eh, E("mjEQ_" + kind.upper())))
            L("set %d objtype %d" % (eh, E("mjOBJ_BODY")))
            L("set %d name1 %s" % (eh, bname(a)))
            if b or rng.random() < 0.5:
                L("set %d name2 %s" % (eh, bname(b)))
            data = [0.0] * 11
            data[0:3] = [rng.uniform(-0.4, 0.4) for _ in range(3)] if rng.random() < 0.85 else [0.0, 0.0, 0.0]
            if kind == "weld":
                if rng.random() < 0.6:
                    data[3:6] = [rng.uniform(-0.4, 0.4) for _ in range(3)]
                    data[6:10] = unit_quat(rng)
                data[10] = rng.choice((1.0, 1.0, 0.3, 2.5, 0.0))
            L("set %d data %s" % (eh, fmt(data)))
            bump("eq:%s:%s" % (kind, rel))
        elif kind in ("connect-site", "weld-site"):
            pr = site_pair()
            if not pr:
                continue
            x, y, rel = pr
            eh = newh()
            L("equality %d" % eh)
            L("set %d type %d" % (eh, E("mjEQ_" + kind.split("-")[0].upper())))
            L("set %d objtype %d" % (eh, E("mjOBJ_SITE")))
            L("set %d name1 %s" % (eh, x["name"]))
            L("set %d name2 %s" % (eh, y["name"]))
            data = [0.0] * 11
            data[10] = rng.choice((1.0, 0.3, 2.5))
            L("set %d data %s" % (eh, fmt(data)))
            bump("eq:%s:%s" % (kind, rel))
        elif kind == "joint" and sj:
            js = rng.sample(sj, min(len(sj), rng.choice((1, 2, 2))))
            eh = newh()
            L("equality %d" % eh)
            L("set %d type %d" % (eh, E("mjEQ_JOINT")))
            L("set %d name1 %s" % (eh, js[0]["name"]))
            if len(js) > 1:
                L("set %d name2 %s" % (eh, js[1]["name"]))
            L("set %d data %s" % (eh, fmt([rng.uniform(-1, 1) * rng.choice((0, 1, 1)) for _ in range(5)] + [0.0] * 6)))
            bump("eq:joint:%d" % len(js))
        elif kind == "tendon" and tendons:
            ts = rng.sample(tendons, min(len(tendons), rng.choice((1, 2, 2))))
            eh = newh()
            L("equality %d" % eh)
            L("set %d type %d" % (eh, E("mjEQ_TENDON")))
            L("set %d name1 %s" % (eh, ts[0]))
            if len(ts) > 1:
                L("set %d name2 %s" % (eh, ts[1]))
            L("set %d data %s" % (eh, fmt([rng.uniform(-1, 1) * rng.choice((0, 1, 1)) for _ in range(5)] + [0.0] * 6)))
            bump("eq:tendon:%d" % len(ts))
        if eh is not None:
            L("name %d ceq%d" % (eh, eh))
            n_added += 1
    # ---- colliding geoms (large margins: contacts exist at random configurations) and a ground plane
    ncg = rng.choice((0, 0, 2, 3, 4)) if nb >= 1 else 0
    movers = [b for b in range(1, nb + 1) if body_relation(t, b, 0) != "both-fixed"]
    if ncg and movers:
        hosts = [rng.choice(movers)] + [rng.randint(1, nb) for _ in range(ncg - 1)]
        for bi in hosts:
            gh = newh()
            gn = "cg%d" % gh
            gt = rng.choice(("SPHERE", "SPHERE", "CAPSULE", "CAPSULE", "BOX", "ELLIPSOID", "CYLINDER"))
            a, b, c = (rng.uniform(0.04, 0.2) for _ in range(3))
            L("geom %d %d" % (gh, bh[bi]))
            L("name %d %s" % (gh, gn))
            L("set %d type %d" % (gh, E("mjGEOM_" + gt)))
            L("set %d size %s" % (gh, fmt({"SPHERE": [a], "CAPSULE": [a, b], "CYLINDER": [a, b]}.get(gt, [a, b, c]))))
            L("set %d pos %s" % (gh, fmt([rng.uniform(-0.3, 0.3) for _ in range(3)])))
            L("set %d quat %s" % (gh, fmt(unit_quat(rng))))
            L("set %d condim %d" % (gh, rng.choice((1, 3, 3, 4, 6))))
            L("set %d friction %r %r %r" % (gh, rng.uniform(0.2, 1.5), rng.uniform(0.001, 0.05), rng.uniform(0.0001, 0.01)))
            L("set %d margin %r" % (gh, rng.choice((10.0, 10.0, 0.5))))
            L("set %d density 50" % gh)
            t.geoms.append({"name": gn, "body": bi})
            bump("contact-geom:" + gt.lower())
            n_added += 1
        if rng.random() < 0.5:
            gh = newh()
            L("geom %d 0" % gh)
            L("name %d cgplane" % gh)
            L("set %d type %d" % (gh, E("mjGEOM_PLANE")))
            L("set %d size 2 2 0.1" % gh)
            L("set %d pos 0 0 %r" % (gh, rng.uniform(-1.5, 0.0)))
            if rng.random() < 0.5:
                L("set %d quat %s" % (gh, fmt(unit_quat(rng))))
            L("set %d condim %d" % (gh, rng.choice((1, 3, 4, 6))))
            L("set %d margin 10" % gh)
            t.geoms.append({"name": "cgplane", "body": 0})
            bump("contact-geom:plane")
    t.ncons = n_added
    t.has_contact_geoms = bool(ncg and movers)
    return n_added


# ------------------------------------------------------------------------------------------------ op streams
def state_block(rng, tree, thorough, maxfd):
    """harness lines for one (model already loaded) state; returns (lines, meta)"""
    lines, meta = [], []

    def add(l, **kw):
        lines.append(l)
        meta.append(kw)
    nv, nb = tree.nv, len(tree.bodies) + 1
    qpos = tree.random_qpos(rng, nonunit=0.2)
    qunit = tree.random_qpos(rng)                      # unit quaternions for the finite-difference part
    qvel = [rng.gauss(0, 1) * rng.choice((1.0, 1.0, 3.0)) for _ in range(nv)]

    def setmocap():
        if tree.nmocap:
            add("set mocap_pos " + " ".join(fb(rng.uniform(-1, 1)) for _ in range(3 * tree.nmocap)), kind="set")
            add("set mocap_quat " + " ".join(fb(x * rng.choice((1.0, 1.0, 1.0, 2.5, 1 + 1e-10)))
                                             for _ in range(tree.nmocap) for x in unit_quat(rng)), kind="set")
    # ---- (a) FK tie on an arbitrary (possibly non-unit) configuration, configuration-space maps
    setmocap()
    add("set qpos " + " ".join(map(fb, qpos)), kind="set")
    add("kin", kind="rec", frames=True)
    dt = rng.choice((0.002, 0.01, 1.0, -0.5, 1e-6, 0.0))
    add("integ " + fb(dt) + " " + " ".join(fb(x) for x in qvel), kind="rec")
    add("kin", kind="rec", frames=True)
    q2 = tree.random_qpos(rng, nonunit=0.1)
    add("diff " + fb(rng.choice((0.002, 1.0, 2.0, -1.0))) + " " + " ".join(fb(x) for x in qpos + q2), kind="rec")
    add("set qpos " + " ".join(map(fb, qunit)), kind="set")
    for _ in range(2 if not thorough else 4):
        sc = rng.choice((1.0, 0.1, 1e-3, 3.0))
        dtt = rng.choice((0.002, 0.01, 0.1, 1.0))
        w = [rng.gauss(0, 1) * sc for _ in range(nv)]
        add("diffint " + fb(dtt) + " " + " ".join(fb(x) for x in w), kind="diffint", dt=dtt, v=w, qpos=qunit)
    if nv == 0:
        return lines, meta
    # ---- (b) Jacobians at the base configuration
    pts = [(b, [rng.uniform(-0.5, 0.5) for _ in range(3)]) for b in range(nb)]
    ptsline = "pts %d " % len(pts) + " ".join("%d %s" % (b, " ".join(map(fb, r))) for b, r in pts)
    base = {"qpos": qunit, "qvel": qvel, "pts": pts}
    add("set qpos " + " ".join(map(fb, qunit)), kind="set")
    add("set qvel " + " ".join(map(fb, qvel)), kind="set")
    add("kin", kind="rec", frames=True, role="base", base=base)
    add("com", kind="com", role="base")
    add(ptsline, kind="pts", role="base")
    add("jacs", kind="jacs")
    for b, r in pts:
        add("jacpt %d %s" % (b, " ".join(map(fb, r))), kind="jacpt", body=b)
    for b in range(nb):
        add("jacsparse %d" % b, kind="jacsparse", body=b)
    add("vel", kind="vel")
    for b, r in pts:
        add("jacdot %d %s" % (b, " ".join(map(fb, r))), kind="jacdot", body=b)
    # ---- (b') the two-body / multi-body Jacobian entry points behind the constraint rows, called directly
    nfun = 6 if thorough else 3
    for _ in range(nfun if nb >= 2 else 0):
        b1, b2 = rng.sample(range(nb), 2)        # the engine never pairs a body with itself (the simple-body chain would repeat dofs)
        r1, r2 = ([rng.uniform(-0.5, 0.5) for _ in range(3)] for _ in range(2))
        for same in (0, 1):
            for sp in (0, 1):
                for skip in (0, 1):
                    add("jacdif %d %d %s %s %d %d %d" % (b1, b2, " ".join(map(fb, r1)), " ".join(map(fb, r2)), same, sp, skip),
                        kind="jacdif", b1=b1, b2=b2, same=same, sp=sp, skip=skip)
    # mj_mergeChain against the Lean model (exact): every ordered body pair of small models, a sample of larger ones
    allpairs = [(a, b) for a in range(nb) for b in range(nb)]
    for a, b in (allpairs if len(allpairs) <= (64 if thorough else 16) else rng.sample(allpairs, 64 if thorough else 16)):
        for skip in (0, 1):
            add("chain %d %d %d" % (a, b, skip), kind="rec")
    for jm in (0, 1):
        add("opt jacobian %d" % jm, kind="set")
        for _ in range(2 if thorough else 1):
            k = rng.choice((1, 2, 3, 5))
            bw = [(rng.randrange(nb), rng.choice((1.0, -1.0, rng.uniform(-2, 2)))) for _ in range(k)]
            add("jacsum %d %s %d %s %d" % (k, " ".join("%d %s" % (b, fb(w)) for b, w in bw), rng.randrange(nb),
                                          " ".join(fb(rng.uniform(-0.5, 0.5)) for _ in range(3)), rng.choice((0, 1))),
                kind="jacsum", bw=bw, jm=jm)
    add("opt jacobian 0", kind="set")
    ax = [rng.gauss(0, 1) for _ in range(3)]
    add("jacaxis %d %s %s" % (rng.randrange(nb), " ".join(fb(rng.uniform(-0.5, 0.5)) for _ in range(3)), " ".join(map(fb, ax))),
        kind="jacaxis", axis=ax)
    # ---- (b'') constraint rows at the base configuration: dense and sparse, both friction cones
    ncons = getattr(tree, "ncons", 0)
    if ncons:
        cones = (0, 1) if getattr(tree, "has_contact_geoms", False) else (rng.choice((0, 1)),)
        for jm in (0, 1):
            for cn in cones:
                add("opt jacobian %d" % jm, kind="set")
                add("opt cone %d" % cn, kind="set")
                add("efc full", kind="efc", role="base", jm=jm, cone=cn)
        fdmode = (rng.choice((0, 1)), rng.choice(cones))      # the mode in which the perturbed positions are evaluated
        add("opt jacobian %d" % fdmode[0], kind="set")
        add("opt cone %d" % fdmode[1], kind="set")
    # ---- (c) perturbations along mj_integratePos: +-eps e_i for the chosen dofs, +-eps qvel for jacDot
    dofs = list(range(nv))
    if len(dofs) > maxfd:
        dofs = sorted(rng.sample(dofs, maxfd))
    for i in dofs + ["v"]:
        for sgn in (+1, -1):
            add("set qpos " + " ".join(map(fb, qunit)), kind="set")
            vec = qvel if i == "v" else [1.0 if k == i else 0.0 for k in range(nv)]
            add("integ " + fb(sgn * EPS) + " " + " ".join(fb(x) for x in vec), kind="rec")
            add("kin", kind="rec", frames=True, role="pert", dof=i, sgn=sgn)
            add("com", kind="com", role="pert")
            add(ptsline, kind="pts", role="pert")
            if ncons and i != "v":
                add("efc pos", kind="efc", role="pert", fdmode=fdmode)
            if i == "v":
                for b, r in pts:
                    add("jacpt %d %s" % (b, " ".join(map(fb, r))), kind="jacpt_pert", body=b, sgn=sgn)
    return lines, meta


# ------------------------------------------------------------------------------------------------ oracle
def judge_frames(fk, info, dev, fails):
    """orthonormality, det, matrix <-> quaternion agreement, attached frames (one kin record)"""
    def chk(key, val, allowed, what):
        if dev.see(key, val, allowed) > 1:
            fails.append(("c07:" + key, what + " (deviation %.3g, allowed %.3g)" % (val, allowed)))
    xpos, xquat, xmat = F(fk, "xpos"), F(fk, "xquat"), F(fk, "xmat")
    nb = len(xquat) // 4
    sc = 1.0 + max([abs(x) for x in xpos] + [0.0])
    for key in ("xmat", "ximat", "geom_xmat", "site_xmat", "cam_xmat"):
        M = F(fk, key)
        for k in range(len(M) // 9):
            R = M[9 * k:9 * k + 9]
            chk("orthonormal:" + key, max(maxdiff(mmul(R, mT(R)), EYE), maxdiff(mmul(mT(R), R), EYE)), 1e-12,
                key + " is not orthonormal")
            chk("det:" + key, abs(mdet(R) - 1), 1e-12, key + " has determinant != 1")
    for b in range(nb):
        q = xquat[4 * b:4 * b + 4]
        chk("unit:xquat", abs(math.sqrt(sum(x * x for x in q)) - 1), 1e-14, "xquat is not a unit quaternion")
        chk("xmat=quat2Mat(xquat)", maxdiff(xmat[9 * b:9 * b + 9], qmat(q)), 1e-14, "xmat differs from the matrix of xquat")
    # attached frames against the body frame (specification of mj_local2Global)
    xipos, ximat = F(fk, "xipos"), F(fk, "ximat")
    biq, bsf = F(info, "body_iquat"), I(info, "body_sameframe")
    for b in range(1, nb):
        if bsf[b] == 0:
            chk("ximat=quat2Mat(xquat*iquat)", maxdiff(ximat[9 * b:9 * b + 9], qmat(qmul(xquat[4 * b:4 * b + 4], biq[4 * b:4 * b + 4]))),
                1e-13, "ximat differs from the matrix of xquat * body_iquat")
        else:
            chk("ximat=xmat(sameframe)", maxdiff(ximat[9 * b:9 * b + 9], xmat[9 * b:9 * b + 9]), 0.0, "ximat != xmat for a sameframe body")
        chk("ximat=quat2Mat(xquat*iquat):" + SF_NAME.get(bsf[b], str(bsf[b])),
            maxdiff(ximat[9 * b:9 * b + 9], qmat(qmul(xquat[4 * b:4 * b + 4], biq[4 * b:4 * b + 4]))), 2e-5,
            "ximat of a body_sameframe=%s body is not the matrix of xquat * body_iquat" % SF_NAME.get(bsf[b], bsf[b]))
    bip = F(info, "body_ipos")
    for b in range(1, nb):
        exp = [xpos[3 * b + r] + mvec(xmat[9 * b:9 * b + 9], bip[3 * b:3 * b + 3])[r] for r in range(3)]
        chk("xipos=xpos+xmat*ipos", maxdiff(xipos[3 * b:3 * b + 3], exp), 1e-13 * sc, "xipos differs from xpos + xmat * body_ipos")
    for pre, bid, lq, sf in (("geom", I(info, "geom_bodyid"), F(info, "geom_quat"), I(info, "geom_sameframe")),
                             ("site", I(info, "site_bodyid"), F(info, "site_quat"), I(info, "site_sameframe")),
                             ("cam", I(info, "cam_bodyid"), F(info, "cam_quat"), None)):
        M = F(fk, pre + "_xmat")
        Pw, Pl = F(fk, pre + "_xpos"), F(info, pre + "_pos")
        for k, b in enumerate(bid):
            # position: whatever shortcut the sameframe flag selects, the point is body frame o local position
            exp = [xpos[3 * b + r] + mvec(xmat[9 * b:9 * b + 9], Pl[3 * k:3 * k + 3])[r] for r in range(3)]
            chk(pre + "_xpos=xpos+xmat*pos", maxdiff(Pw[3 * k:3 * k + 3], exp), 1e-12 * sc,
                pre + "_xpos differs from xpos + xmat * local position")
            s = sf[k] if sf else 0
            if s == 0:
                exp = qmat(qmul(xquat[4 * b:4 * b + 4], lq[4 * k:4 * k + 4]))
                tol = 1e-13
            elif s in (1, 3):
                exp, tol = xmat[9 * b:9 * b + 9], 0.0
            else:
                exp, tol = ximat[9 * b:9 * b + 9], 0.0
            chk(pre + "_xmat=body*local", maxdiff(M[9 * k:9 * k + 9], exp), tol, pre + "_xmat differs from body orientation * local orientation")
            # the property itself, whatever shortcut the class selects: the frame is the matrix of xquat * local quaternion
            # (the compiler equates poses up to 1e-6 per component, hence the tolerance) ...
            chk(pre + "_xmat=quat2Mat(xquat*quat):" + SF_NAME.get(s, str(s)), maxdiff(M[9 * k:9 * k + 9], qmat(qmul(xquat[4 * b:4 * b + 4], lq[4 * k:4 * k + 4]))),
                2e-5, "%s_xmat of a sameframe=%s object is not the matrix of xquat * %s_quat" % (pre, SF_NAME.get(s, s), pre))
            # ... and a proper class assignment: a shortcut class is only legitimate when the local pose matches its reference
            if sf:
                lp, ip = Pl[3 * k:3 * k + 3], bip[3 * b:3 * b + 3]
                lqk, iq = lq[4 * k:4 * k + 4], biq[4 * b:4 * b + 4]
                qnull = min(maxdiff(lqk, [1.0, 0, 0, 0]), maxdiff(lqk, [-1.0, 0, 0, 0]))
                qin = min(maxdiff(lqk, iq), maxdiff(lqk, [-x for x in iq]))
                need = {0: 0.0, 1: max(qnull, maxdiff(lp, [0.0] * 3)), 3: qnull, 2: max(qin, maxdiff(lp, ip)), 4: qin}.get(s, float("inf"))
                chk(pre + "_sameframe-class-valid", need, 1e-6, "%s_sameframe=%s but the local pose does not coincide with the reference frame of that class"
                    % (pre, SF_NAME.get(s, s)))
    # fixed lights: position = body frame o local position, direction = body rotation applied to the local direction
    if "light_xpos" in fk and "light_bodyid" in info:
        lb, lp_, ld = I(info, "light_bodyid"), F(info, "light_pos"), F(info, "light_dir")
        lx, lxd = F(fk, "light_xpos"), F(fk, "light_xdir")
        for k, b in enumerate(lb):
            R = xmat[9 * b:9 * b + 9]
            exp = [xpos[3 * b + r] + mvec(R, lp_[3 * k:3 * k + 3])[r] for r in range(3)]
            chk("light_xpos=xpos+xmat*pos", maxdiff(lx[3 * k:3 * k + 3], exp), 1e-12 * sc, "light_xpos differs from xpos + xmat * light_pos")
            chk("light_xdir=xmat*dir", maxdiff(lxd[3 * k:3 * k + 3], mvec(R, ld[3 * k:3 * k + 3])), 1e-13, "light_xdir differs from xmat * light_dir")
    return sc


def judge_jacobians(rec, info, dev, fails, stats):
    """rec: dict with base kin/com/pts/jacs/jacpt/jacsparse/vel/jacdot outputs and the perturbed ones"""
    def chk(key, val, allowed, what):
        if dev.see(key, val, allowed) > 1:
            fails.append(("c07:" + key, what + " (deviation %.3g, allowed %.3g)" % (val, allowed)))
    base = rec["base"]
    nv = len(rec["qvel"])
    qvel = rec["qvel"]
    fk0, com0, pts0, jacs = base["kin"], base["com"], base["pts"], rec["jacs"]
    nb = len(fk0["xquat"]) // 4
    xpos0 = F(fk0, "xpos")
    scale = 1.0 + max([abs(x) for x in xpos0] + [abs(x) for x in F(pts0, "pts")] + [0.0])
    tol = FDTOL * scale
    geom_body, site_body = I(info, "geom_bodyid"), I(info, "site_bodyid")

    def col(J, i):
        return [J[r * nv + i] for r in range(3)]
    # ---- finite differences per dof
    for i, (pp, pm) in rec["pert"].items():
        if i == "v":
            continue
        # positions
        for key, jpre, cnt in (("xpos", "jb", nb), ("xipos", "jc", nb), ("geom_xpos", "jg", len(geom_body)),
                               ("site_xpos", "jt", len(site_body))):
            Pp, Pm = F(pp["kin"], key), F(pm["kin"], key)
            for k in range(cnt):
                fd = [(Pp[3 * k + r] - Pm[3 * k + r]) / (2 * EPS) for r in range(3)]
                chk("fd:" + jpre + "p", maxdiff(fd, col(F(jacs, "%s%dp" % (jpre, k)), i)), tol,
                    "translational Jacobian (%s) differs from the central difference of %s" % (jpre, key))
        Cp, Cm = F(pp["com"], "subtree_com"), F(pm["com"], "subtree_com")
        for k in range(nb):
            fd = [(Cp[3 * k + r] - Cm[3 * k + r]) / (2 * EPS) for r in range(3)]
            chk("fd:jsp", maxdiff(fd, col(F(jacs, "js%dp" % k), i)), tol,
                "mj_jacSubtreeCom differs from the central difference of subtree_com")
        Qp, Qm = F(pp["pts"], "pts"), F(pm["pts"], "pts")
        for k in range(nb):
            fd = [(Qp[3 * k + r] - Qm[3 * k + r]) / (2 * EPS) for r in range(3)]
            chk("fd:jac-point", maxdiff(fd, col(F(rec["jacpt"][k], "jacp"), i)), tol,
                "mj_jac at a body-fixed point differs from the central difference of its world position")
        # orientations
        for key, jpre, cnt, bod in (("xmat", "jb", nb, None), ("ximat", "jc", nb, None), ("geom_xmat", "jg", len(geom_body), None),
                                    ("site_xmat", "jt", len(site_body), None)):
            Rp, Rm = F(pp["kin"], key), F(pm["kin"], key)
            for k in range(cnt):
                fd = rot_fd(Rp[9 * k:9 * k + 9], Rm[9 * k:9 * k + 9], EPS)
                chk("fd:" + jpre + "r", maxdiff(fd, col(F(jacs, "%s%dr" % (jpre, k)), i)), FDTOL,
                    "rotational Jacobian (%s) differs from the central difference of %s" % (jpre, key))
        for k in range(nb):
            Rp, Rm = F(pp["kin"], "xmat"), F(pm["kin"], "xmat")
            fd = rot_fd(Rp[9 * k:9 * k + 9], Rm[9 * k:9 * k + 9], EPS)
            chk("fd:jac-point-r", maxdiff(fd, col(F(rec["jacpt"][k], "jacr"), i)), FDTOL,
                "mj_jac rotational part differs from the central difference of the body orientation")
        stats["fd_columns"] = stats.get("fd_columns", 0) + 1
    # ---- sparse variant against the dense one
    for b, js in enumerate(rec["jacsparse"]):
        chain = I(js, "chain")
        NV = len(chain)
        jp, jr = F(js, "jacp"), F(js, "jacr")
        dp, dr = F(jacs, "jc%dp" % b), F(jacs, "jc%dr" % b)
        err = 0.0
        for c, dof in enumerate(chain):
            for r in range(3):
                err = max(err, abs(jp[r * NV + c] - dp[r * nv + dof]), abs(jr[r * NV + c] - dr[r * nv + dof]))
        others = max([abs(dp[r * nv + k]) + abs(dr[r * nv + k]) for k in range(nv) if k not in chain for r in range(3)] + [0.0])
        chk("sparse=dense", max(err, others), 0.0, "mj_jacSparse differs from mj_jac on the body chain (or mj_jac is non-zero off the chain)")
    # ---- velocities: object velocity = J qvel, cvel
    vel = rec["vel"]
    cvel = F(vel, "cvel")
    sub = F(com0, "subtree_com")
    rootid = I(info, "body_rootid")
    vscale = (1.0 + max([abs(x) for x in qvel] + [0.0])) * scale * max(1, nv)

    def jv(J):
        return [sum(J[r * nv + k] * qvel[k] for k in range(nv)) for r in range(3)]
    xmat0, ximat0 = F(fk0, "xmat"), F(fk0, "ximat")
    for pre, jpre, cnt, pos, mats in (("ob", "jc", nb, F(fk0, "xipos"), ximat0), ("ox", "jb", nb, xpos0, xmat0),
                                      ("og", "jg", len(geom_body), F(fk0, "geom_xpos"), F(fk0, "geom_xmat")),
                                      ("os", "jt", len(site_body), F(fk0, "site_xpos"), F(fk0, "site_xmat"))):
        for k in range(cnt):
            ov = F(vel, "%s%d" % (pre, k))
            w = jv(F(jacs, "%s%dr" % (jpre, k)))
            v = jv(F(jacs, "%s%dp" % (jpre, k)))
            chk("objvel=Jqvel", max(maxdiff(ov[0:3], w), maxdiff(ov[3:6], v)), 1e-12 * vscale,
                "mj_objectVelocity (world orientation) differs from J qvel")
            R = mats[9 * k:9 * k + 9]
            chk("objvel-local", max(maxdiff(ov[6:9], mvec(mT(R), ov[0:3])), maxdiff(ov[9:12], mvec(mT(R), ov[3:6]))), 1e-12 * vscale,
                "mj_objectVelocity (local) is not the world velocity rotated into the object frame")
    for b in range(nb):
        w = jv(F(jacs, "jb%dr" % b))
        v = jv(F(jacs, "jb%dp" % b))
        off = [sub[3 * rootid[b] + r] - xpos0[3 * b + r] for r in range(3)]
        wx = cross(w, off)
        exp = w + [v[r] + wx[r] for r in range(3)]
        chk("cvel=Jqvel", maxdiff(cvel[6 * b:6 * b + 6], exp), 1e-12 * vscale, "cvel differs from J qvel transported to the subtree com")
    # ---- jacDot against the central difference of J along qvel
    if "v" in rec["pert"]:
        jt, jb, dj = I(info, "jnt_type"), I(info, "jnt_bodyid"), I(info, "dof_jntid")
        # dofs of a ball joint that is followed by a slide joint on the same body (see KNOWN DEFECT below)
        ballslide = set()
        for dof in range(nv):
            j = dj[dof]
            if jt[j] == 1 and any(jb[k] == jb[j] and jt[k] == 2 for k in range(j + 1, len(jt))):
                ballslide.add(dof)
        for k in range(nb):
            jd = rec["jacdot"][k]
            Jp, Jm = rec["jacpt_pert"][(+1, k)], rec["jacpt_pert"][(-1, k)]
            for part in ("jacp", "jacr"):
                a, b_, c = F(Jp, part), F(Jm, part), F(jd, part)
                fd = [(x - y) / (2 * EPS) for x, y in zip(a, b_)]
                badcols = {idx % nv for idx, (x, y) in enumerate(zip(fd, c)) if abs(x - y) > 5 * FDTOL * vscale}
                if part == "jacp" and badcols and badcols <= ballslide:
                    # KNOWN DEFECT CANDIDATE (reported under a stable key): mj_jacDot recomputes cdof_dot of quaternion dofs
                    # with the FINAL body velocity d->cvel[body]; when a slide joint follows the ball joint on the same
                    # body, that velocity contains the slide's translation, which does not move the ball's anchor
                    stats["jacdot_ball_then_slide"] = stats.get("jacdot_ball_then_slide", 0) + 1
                    dev.see("fd:jacDot-jacp(ball-then-slide dofs excluded)",
                            max([abs(x - y) for idx, (x, y) in enumerate(zip(fd, c)) if idx % nv not in ballslide] + [0.0]),
                            5 * FDTOL * vscale)
                    if not any(kk == "c07:jacDot-ball-followed-by-slide" for kk, _ in fails):
                        fails.append(("c07:jacDot-ball-followed-by-slide",
                                      "mj_jacDot translational columns of a ball joint that is followed by a slide joint on the "
                                      "same body differ from the central difference of mj_jac along qvel (max deviation %.3g)"
                                      % max(abs(x - y) for x, y in zip(fd, c))))
                    continue
                chk("fd:jacDot-" + part, maxdiff(fd, c), 5 * FDTOL * vscale, "mj_jacDot differs from the central difference of mj_jac along qvel")


def dof_ancestors(info, body):
    """dofs that move `body` (the engine's definition of the body chain, from the model's index arrays)"""
    weld, dofnum, dofadr, par = I(info, "body_weldid"), I(info, "body_dofnum"), I(info, "body_dofadr"), I(info, "dof_parentid")
    b = weld[body]
    out = set()
    if dofnum[b] == 0:
        return out
    da = dofadr[b] + dofnum[b] - 1
    while da >= 0:
        out.add(da)
        da = par[da]
    return out


def judge_functions(rec, info, dev, fails, stats):
    """mj_jacDifPair / mj_mergeChain / mj_jacSum / mj_jacPointAxis / mj_jacDotSparse against mj_jac / mj_jacDot (which the
    finite-difference part ties to the positions)"""
    def chk(key, val, allowed, what):
        if dev.see(key, val, allowed) > 1:
            fails.append(("c07:" + key, what + " (deviation %.3g, allowed %.3g)" % (val, allowed)))
    nv = len(rec["qvel"])
    simple = I(info, "body_simple")
    for mt, g in rec["jacdif"]:
        NV = I(g, "NV")[0]
        a1p, a1r, a2p, a2r = F(g, "a1p"), F(g, "a1r"), F(g, "a2p"), F(g, "a2r")
        refp = [y - x for x, y in zip(a1p, a2p)]
        refr = [y - x for x, y in zip(a1r, a2r)]
        difp, difr = F(g, "difp"), F(g, "difr")
        A1, A2 = dof_ancestors(info, mt["b1"]), dof_ancestors(info, mt["b2"])
        issimple = bool(simple[mt["b1"]] and simple[mt["b2"]])
        tag = "sparse" if mt["sp"] else "dense"
        stats["jacdif:%s%s%s" % (tag, ":skipcommon" if mt["skip"] else "", ":simple" if issimple and mt["sp"] else "")] = \
            stats.get("jacdif:%s%s%s" % (tag, ":skipcommon" if mt["skip"] else "", ":simple" if issimple and mt["sp"] else ""), 0) + 1
        if not mt["sp"]:
            if NV != nv or len(difp) != 3 * nv:
                fails.append(("c07:jacDifPair-dense", "dense mj_jacDifPair returned NV=%d for nv=%d" % (NV, nv)))
                continue
            chk("jacDifPair-dense", max(maxdiff(difp, refp), maxdiff(difr, refr)), 0.0,
                "dense mj_jacDifPair differs from mj_jac(body2, pos2) - mj_jac(body1, pos1)")
            continue
        chain, mchain = I(g, "chain"), I(g, "mchain")
        want = (A1 ^ A2) if (mt["skip"] and not issimple) else (A1 | A2)
        okchain = (chain == sorted(set(chain)) and chain == mchain and set(chain) == want and NV == len(chain))
        if not okchain:
            fails.append(("c07:mergeChain", "merged dof chain of bodies %d, %d (flg_skipcommon=%d) is %s (mj_mergeChain: %s), "
                          "the dofs moving %s are %s" % (mt["b1"], mt["b2"], mt["skip"], chain, mchain,
                                                         "exactly one of them" if mt["skip"] and not issimple else "either of them",
                                                         sorted(want))))
            continue
        err = 0.0
        for c, dof in enumerate(chain):
            for r in range(3):
                err = max(err, abs(difp[r * NV + c] - refp[r * nv + dof]), abs(difr[r * NV + c] - refr[r * nv + dof]))
        chk("jacDifPair-sparse", err, 0.0, "sparse mj_jacDifPair differs on its chain from mj_jac(body2, pos2) - mj_jac(body1, pos1)")
        # off the chain the dense difference must vanish: always without flg_skipcommon; with it, whenever the two points
        # coincide (the documented use); for distinct points the flag drops w x (p2 - p1) of the shared dofs by design
        if not mt["skip"] or mt["same"] or issimple:
            off = max([abs(refp[r * nv + k]) + abs(refr[r * nv + k]) for k in range(nv) if k not in chain for r in range(3)] + [0.0])
            chk("jacDifPair-sparse-offchain", off, 0.0,
                "mj_jac difference is non-zero on a dof that the sparse mj_jacDifPair chain leaves out")
    for mt, g in rec["jacsum"]:
        NV, sp = I(g, "NV")[0], I(g, "sparse")[0]
        if sp != mt["jm"]:
            fails.append(("c07:jacSum", "mj_isSparse=%d after opt.jacobian=%d" % (sp, mt["jm"])))
            continue
        refp, refr = [0.0] * (3 * nv), [0.0] * (3 * nv)
        mag = 1.0
        for i, (b, w) in enumerate(mt["bw"]):
            ap, ar = F(g, "a%dp" % i), F(g, "a%dr" % i)
            refp = [x + w * y for x, y in zip(refp, ap)]
            refr = [x + w * y for x, y in zip(refr, ar)]
            mag += abs(w) * max([abs(x) for x in ap + ar] + [0.0])
        sump, sumr = F(g, "sump"), F(g, "sumr")
        chain = I(g, "chain") if sp else list(range(nv))
        stats["jacsum:" + ("sparse" if sp else "dense")] = stats.get("jacsum:" + ("sparse" if sp else "dense"), 0) + 1
        if NV != len(chain) or chain != sorted(set(chain)) or len(sump) != 3 * NV:
            fails.append(("c07:jacSum", "mj_jacSum returned NV=%d with chain %s" % (NV, chain)))
            continue
        err = 0.0
        for c, dof in enumerate(chain):
            for r in range(3):
                err = max(err, abs(sump[r * NV + c] - refp[r * nv + dof]))
                if sumr:
                    err = max(err, abs(sumr[r * NV + c] - refr[r * nv + dof]))
        off = max([abs(refp[r * nv + k]) + (abs(refr[r * nv + k]) if sumr else 0.0) for k in range(nv) if k not in chain for r in range(3)] + [0.0])
        chk("jacSum", max(err, off), 1e-13 * mag, "mj_jacSum differs from the weighted sum of mj_jac of its bodies")
    for mt, g in rec["jacaxis"]:
        jp, ja, refp, refr = F(g, "jp"), F(g, "ja"), F(g, "refp"), F(g, "refr")
        ax = mt["axis"]
        exp = [0.0] * (3 * nv)
        for i in range(nv):
            c = cross([refr[i], refr[nv + i], refr[2 * nv + i]], ax)
            exp[i], exp[nv + i], exp[2 * nv + i] = c
        chk("jacPointAxis", max(maxdiff(jp, refp), maxdiff(ja, exp)), 1e-14 * (1 + max(abs(x) for x in ax)),
            "mj_jacPointAxis differs from (mj_jac translational part, rotational column x axis)")
    for b, jd in rec["jacdot"].items():
        if "chain" not in jd:
            continue
        chain = I(jd, "chain")
        NV = len(chain)
        sp_, sr_, dp, dr = F(jd, "sjacp"), F(jd, "sjacr"), F(jd, "jacp"), F(jd, "jacr")
        err = 0.0
        for c, dof in enumerate(chain):
            for r in range(3):
                err = max(err, abs(sp_[r * NV + c] - dp[r * nv + dof]), abs(sr_[r * NV + c] - dr[r * nv + dof]))
        off = max([abs(dp[r * nv + k]) + abs(dr[r * nv + k]) for k in range(nv) if k not in chain for r in range(3)] + [0.0])
        chk("jacDotSparse=jacDot", max(err, off), 0.0, "mj_jacDotSparse differs from mj_jacDot on the body chain (or mj_jacDot is non-zero off it)")


def efc_rows(g, nv):
    """signature -> row index; signature = (type, id, ordinal among the rows of that (type, id))"""
    ty, ids = I(g, "type"), I(g, "id")
    seen, sig = {}, {}
    for r, (a, b) in enumerate(zip(ty, ids)):
        k = seen.get((a, b), 0)
        seen[(a, b)] = k + 1
        sig[(a, b, k)] = r
    return sig, seen


def judge_efc(rec, info, dev, fails, stats):
    """constraint rows: efc_J (dense and sparse, pyramidal and elliptic cones) is the derivative of efc_pos along
    mj_integratePos for every position-type row; friction rows are the dof / tendon directions; contact rows are the contact
    frame applied to the difference of the two bodies' point Jacobians; dense and sparse storage agree"""
    def chk(key, val, allowed, what, extra=""):
        if dev.see(key, val, allowed) > 1:
            fails.append(("c07:" + key, what + " (deviation %.3g, allowed %.3g)%s" % (val, allowed, extra)))
    nv = len(rec["qvel"])
    xpos0 = F(rec["base"]["kin"], "xpos")
    scale = 1.0 + max([abs(x) for x in xpos0] + [0.0])
    gtype, gbody = I(info, "geom_type"), I(info, "geom_bodyid")
    eqt, eqo = I(info, "eq_type"), I(info, "eq_objtype")
    jtype = I(info, "jnt_type")
    contact_types = (CN["CONTACT_FRICTIONLESS"], CN["CONTACT_PYRAMIDAL"], CN["CONTACT_ELLIPTIC"])

    def rowname(g, r):
        ty, i = I(g, "type")[r], I(g, "id")[r]
        n = CN_NAME.get(ty, str(ty))
        if ty == CN["EQUALITY"] and 0 <= i < len(eqt):
            n += ":" + {0: "connect", 1: "weld", 2: "joint", 3: "tendon"}.get(eqt[i], str(eqt[i]))
            if eqt[i] in (0, 1):
                n += ":site" if eqo[i] == E("mjOBJ_SITE") else ":body"
        if ty == CN["LIMIT_JOINT"] and 0 <= i < len(jtype):
            n += ":" + {0: "free", 1: "ball", 2: "slide", 3: "hinge"}[jtype[i]]
        return n.lower()
    dumps = rec["efc_base"]
    parsed = {}
    for (jm, cone), g in sorted(dumps.items()):
        tag = "%s,%s" % ("sparse" if jm else "dense", "elliptic" if cone else "pyramidal")
        if I(g, "sparse")[0] != jm:
            fails.append(("c07:efc-structure", "mj_isSparse=%d after opt.jacobian=%d" % (I(g, "sparse")[0], jm)))
            continue
        if any(I(g, "warn")):
            stats["efc_skipped_buffer_full"] = stats.get("efc_skipped_buffer_full", 0) + 1
            continue
        ty, ids, pos, mar = I(g, "type"), I(g, "id"), F(g, "pos"), F(g, "margin")
        nefc = len(ty)
        J = F(g, "J")
        ne, nf, nl, ncon = I(g, "counts")
        order = [0 if t_ == CN["EQUALITY"] else 1 if t_ in (CN["FRICTION_DOF"], CN["FRICTION_TENDON"]) else
                 2 if t_ in (CN["LIMIT_JOINT"], CN["LIMIT_TENDON"]) else 3 for t_ in ty]
        if order != sorted(order) or order.count(0) != ne or order.count(1) != nf or order.count(2) != nl or len(J) != nefc * nv:
            fails.append(("c07:efc-structure", "[%s] efc rows are not ordered equality/friction/limit/contact with counts ne=%d nf=%d nl=%d "
                          "(types %s)" % (tag, ne, nf, nl, ty)))
            continue
        if jm:
            rownnz, rowadr, colind, nJ = I(g, "rownnz"), I(g, "rowadr"), I(g, "colind"), I(g, "nJ")[0]
            bad = None
            adr = 0
            for r in range(nefc):
                cols = colind[rowadr[r]:rowadr[r] + rownnz[r]]
                if rowadr[r] != adr or cols != sorted(set(cols)) or any(c < 0 or c >= nv for c in cols) or len(cols) != rownnz[r]:
                    bad = "row %d (%s): rowadr %d (expected %d) rownnz %d colind %s" % (r, rowname(g, r), rowadr[r], adr, rownnz[r], cols)
                    break
                adr += rownnz[r]
            if bad is None and adr != nJ:
                bad = "sum of efc_J_rownnz = %d but nJ = %d" % (adr, nJ)
            if bad:
                fails.append(("c07:efc-structure", "[%s] sparse efc_J layout is inconsistent: %s" % (tag, bad)))
                continue
        sig, cnt = efc_rows(g, nv)
        parsed[(jm, cone)] = dict(g=g, tag=tag, ty=ty, ids=ids, pos=pos, mar=mar, J=J, sig=sig, cnt=cnt, nefc=nefc)
        stats["efc_dumps"] = stats.get("efc_dumps", 0) + 1
        tenJ = F(g, "ten_J")
        # ---- friction rows: the dof direction / the tendon Jacobian
        for r in range(nefc):
            row = J[r * nv:(r + 1) * nv]
            if ty[r] == CN["FRICTION_DOF"]:
                exp = [1.0 if k == ids[r] else 0.0 for k in range(nv)]
                chk("efc:" + rowname(g, r), maxdiff(row, exp), 0.0, "[%s] dof friction row is not the unit vector of its dof" % tag)
                stats["efcrow:" + rowname(g, r)] = stats.get("efcrow:" + rowname(g, r), 0) + 1
            elif ty[r] == CN["FRICTION_TENDON"]:
                chk("efc:" + rowname(g, r), maxdiff(row, tenJ[ids[r] * nv:(ids[r] + 1) * nv]), 0.0,
                    "[%s] tendon friction row is not the tendon Jacobian" % tag)
                stats["efcrow:" + rowname(g, r)] = stats.get("efcrow:" + rowname(g, r), 0) + 1
        # ---- contact rows: contact frame x (point Jacobian of body 2 - point Jacobian of body 1)
        cgeom, cdim, cefc, cexc, cdist = I(g, "con_geom"), I(g, "con_dim"), I(g, "con_efc"), I(g, "con_exclude"), F(g, "con_dist")
        cframe, cfric, cmar = F(g, "con_frame"), F(g, "con_friction"), F(g, "con_margin")
        normal_rows = {}
        for i in range(ncon):
            if cexc[i] or cefc[i] < 0 or ("cj%d" % i) not in g:
                continue
            cj = F(g, "cj%d" % i)
            dp = [cj[6 * nv + k] - cj[k] for k in range(3 * nv)]
            dr = [cj[9 * nv + k] - cj[3 * nv + k] for k in range(3 * nv)]
            fr = cframe[9 * i:9 * i + 9]
            dim = cdim[i]
            R = []
            for k in range(max(dim, 1)):
                src, ax = (dp, fr[3 * k:3 * k + 3]) if k < 3 else (dr, fr[3 * (k - 3):3 * (k - 3) + 3])
                R.append([sum(ax[c] * src[c * nv + d_] for c in range(3)) for d_ in range(nv)])
            normal_rows[i] = R[0]
            mu = cfric[5 * i:5 * i + 5]
            a = cefc[i]
            if dim == 1:
                exp, et, epos, emar = [R[0]], CN["CONTACT_FRICTIONLESS"], [cdist[i]], [cmar[i]]
            elif cone == 0:
                exp, et, epos, emar = [], CN["CONTACT_PYRAMIDAL"], [cdist[i]] * (2 * (dim - 1)), [cmar[i]] * (2 * (dim - 1))
                for k in range(1, dim):
                    exp.append([x + mu[k - 1] * y for x, y in zip(R[0], R[k])])
                    exp.append([x - mu[k - 1] * y for x, y in zip(R[0], R[k])])
            else:
                exp, et, epos, emar = R[:dim], CN["CONTACT_ELLIPTIC"], [cdist[i]] + [0.0] * (dim - 1), [cmar[i]] + [0.0] * (dim - 1)
            if a + len(exp) > nefc or any(ty[a + k] != et or ids[a + k] != i for k in range(len(exp))):
                fails.append(("c07:efc-structure", "[%s] contact %d (dim %d) does not own %d rows of type %s at efc_address %d"
                              % (tag, i, dim, len(exp), CN_NAME[et], a)))
                continue
            mag = 1.0 + max([abs(x) for x in dp + dr] + [0.0]) * (1.0 + max(mu))
            name = CN_NAME[et].lower() + ":condim%d" % dim
            for k, e in enumerate(exp):
                chk("efc:" + name, maxdiff(J[(a + k) * nv:(a + k + 1) * nv], e), 1e-13 * mag,
                    "[%s] contact row %d of a condim-%d contact is not (contact frame) x (mj_jac(body2, pos) - mj_jac(body1, pos))"
                    % (tag, k, dim), " geoms %d,%d bodies %d,%d" % (cgeom[2 * i], cgeom[2 * i + 1], gbody[cgeom[2 * i]], gbody[cgeom[2 * i + 1]]))
                chk("efc-pos:" + name, max(abs(pos[a + k] - epos[k]), abs(mar[a + k] - emar[k])), 0.0,
                    "[%s] efc_pos / efc_margin of a contact row is not the contact distance / margin" % tag)
            stats["efcrow:" + name] = stats.get("efcrow:" + name, 0) + len(exp)
        parsed[(jm, cone)]["normal_rows"] = normal_rows
    # ---- dense and sparse storage hold the same rows
    for cone in (0, 1):
        a, b = parsed.get((0, cone)), parsed.get((1, cone))
        if not a or not b:
            continue
        for sg in sorted(set(a["sig"]) | set(b["sig"])):
            ra, rb = a["sig"].get(sg), b["sig"].get(sg)
            if ra is None or rb is None:
                # a row that only one storage mode keeps must be identically zero (the dense builder drops all-zero rows,
                # the sparse builder drops empty chains)
                p_, r_ = (a, ra) if rb is None else (b, rb)
                z = max([abs(x) for x in p_["J"][r_ * nv:(r_ + 1) * nv]] + [0.0])
                chk("efc:dense=sparse", z, 0.0, "a non-zero efc_J row (%s) exists only in %s mode" % (rowname(p_["g"], r_), p_["tag"]))
                continue
            rowa, rowb = a["J"][ra * nv:(ra + 1) * nv], b["J"][rb * nv:(rb + 1) * nv]
            mag = 1.0 + max(abs(x) for x in rowa + rowb)
            chk("efc:dense=sparse", max(maxdiff(rowa, rowb), abs(a["pos"][ra] - b["pos"][rb]), abs(a["mar"][ra] - b["mar"][rb])), 1e-13 * mag,
                "dense and sparse efc_J / efc_pos / efc_margin differ in a row", " row type %s" % rowname(a["g"], ra))
        stats["efc_dense_sparse_pairs"] = stats.get("efc_dense_sparse_pairs", 0) + 1
    # ---- finite differences of efc_pos / ten_length / contact distance along mj_integratePos
    fdm = rec.get("fdmode")
    base = parsed.get(tuple(fdm)) if fdm else None
    if base is None:
        return
    g0 = base["g"]
    smooth = (E("mjGEOM_PLANE"), E("mjGEOM_SPHERE"), E("mjGEOM_CAPSULE"))

    def pairs_of(g):
        cg = I(g, "con_geom")
        out = {}
        for i in range(len(cg) // 2):
            out.setdefault((cg[2 * i], cg[2 * i + 1]), []).append(i)
        return out
    p0 = pairs_of(g0)
    for i, (pp, pm) in rec["pert"].items():
        if i == "v" or "efc" not in pp or "efc" not in pm:
            continue
        gp, gm = pp["efc"], pm["efc"]
        if any(I(gp, "warn")) or any(I(gm, "warn")):
            continue
        sp_, cp = efc_rows(gp, nv)
        sm_, cm = efc_rows(gm, nv)
        posp, posm = F(gp, "pos"), F(gm, "pos")
        for sg, r in sorted(base["sig"].items()):
            t_ = sg[0]
            if t_ in contact_types or t_ in (CN["FRICTION_DOF"], CN["FRICTION_TENDON"]):
                continue
            k2 = (sg[0], sg[1])
            if cp.get(k2) != base["cnt"][k2] or cm.get(k2) != base["cnt"][k2]:
                stats["efc_fd_skipped_activation_change"] = stats.get("efc_fd_skipped_activation_change", 0) + 1
                continue
            a, b, c = posp[sp_[sg]], base["pos"][r], posm[sm_[sg]]
            name = rowname(g0, r)
            rows = [(q["tag"], q["J"][q["sig"][sg] * nv + i]) for q in parsed.values() if sg in q["sig"]]
            mag = scale * max([1.0, abs(b)] + [abs(x) for _, x in rows])
            if abs((a - b) - (b - c)) / EPS > 1e-3 * mag:
                stats["efc_fd_skipped_kink"] = stats.get("efc_fd_skipped_kink", 0) + 1
                continue
            fd = (a - c) / (2 * EPS)
            for tag, x in rows:
                chk("fd:efc:" + name, abs(fd - x), FDTOL * mag,
                    "[%s] efc_J differs from the central difference of efc_pos along mj_integratePos" % tag,
                    " row type %s, efc_id %d, row %d of it, dof %d: efc_J %.9g, finite difference %.9g" % (name, sg[1], sg[2], i, x, fd))
            stats["efcfd:" + name] = stats.get("efcfd:" + name, 0) + 1
        # tendon Jacobian
        tl0, tlp, tlm, tJ = F(g0, "ten_length"), F(gp, "ten_length"), F(gm, "ten_length"), F(g0, "ten_J")
        for t_ in range(len(tl0)):
            a, b, c, x = tlp[t_], tl0[t_], tlm[t_], tJ[t_ * nv + i]
            mag = scale * max(1.0, abs(x))
            if abs((a - b) - (b - c)) / EPS > 1e-3 * mag:
                stats["efc_fd_skipped_kink"] = stats.get("efc_fd_skipped_kink", 0) + 1
                continue
            chk("fd:ten_J", abs((a - c) / (2 * EPS) - x), FDTOL * mag, "ten_J differs from the central difference of ten_length",
                " tendon %d dof %d: ten_J %.9g, finite difference %.9g" % (t_, i, x, (a - c) / (2 * EPS)))
            stats["efcfd:ten_J"] = stats.get("efcfd:ten_J", 0) + 1
        # contact distance (geometries whose distance function is smooth; pairs with exactly one contact)
        pp_, pm_ = pairs_of(gp), pairs_of(gm)
        dp_, dm_, d0 = F(gp, "con_dist"), F(gm, "con_dist"), F(g0, "con_dist")
        for pr, lst in p0.items():
            if len(lst) != 1 or len(pp_.get(pr, [])) != 1 or len(pm_.get(pr, [])) != 1:
                continue
            if gtype[pr[0]] not in smooth or gtype[pr[1]] not in smooth or lst[0] not in base.get("normal_rows", {}):
                continue
            a, b, c = dp_[pp_[pr][0]], d0[lst[0]], dm_[pm_[pr][0]]
            x = base["normal_rows"][lst[0]][i]
            mag = scale * max(1.0, abs(x))
            if abs((a - b) - (b - c)) / EPS > 1e-3 * mag:
                stats["efc_fd_skipped_kink"] = stats.get("efc_fd_skipped_kink", 0) + 1
                continue
            chk("fd:contact-normal", abs((a - c) / (2 * EPS) - x), FDTOL * mag,
                "the contact normal row differs from the central difference of the contact distance",
                " geoms %d,%d dof %d: row %.9g, finite difference %.9g" % (pr[0], pr[1], i, x, (a - c) / (2 * EPS)))
            stats["efcfd:contact-normal"] = stats.get("efcfd:contact-normal", 0) + 1


def judge_diffint(line_meta, out, info, dev, fails):
    def chk(key, val, allowed, what):
        if dev.see(key, val, allowed) > 1:
            fails.append(("c07:" + key, what + " (deviation %.3g, allowed %.3g)" % (val, allowed)))
    g = parse_groups(out.split()[1:])
    v, dt, q = line_meta["v"], line_meta["dt"], line_meta["qpos"]
    w, q2, q3 = F(g, "w"), F(g, "q2"), F(g, "q3")
    jt, dadr, qadr = I(info, "jnt_type"), I(info, "jnt_dofadr"), I(info, "jnt_qposadr")
    for j, t in enumerate(jt):
        nvj = 6 if t == 0 else 3 if t == 1 else 1
        vs = v[dadr[j]:dadr[j] + nvj]
        ws = w[dadr[j]:dadr[j] + nvj]
        sc = max([abs(x) for x in vs] + [1e-300])
        if t in (0, 1):
            ang = vs[-3:]
            if dt * math.sqrt(sum(x * x for x in ang)) > 3.0:
                continue          # wrapped regime of mju_quat2Vel: not an inverse there
        qs = 1.0 if t in (0, 1) else abs(q[qadr[j]])
        if t == 0:
            qs = max(1.0, max(abs(x) for x in q[qadr[j]:qadr[j] + 3]))
        # rounding of (q (+) dt v) (-) q is relative to |q| (resp. to 1 for unit quaternions), then divided by dt
        chk("differentiate(integrate)=id", maxdiff(vs, ws), 1e-11 * (qs / abs(dt) + sc),
            "mj_differentiatePos(mj_integratePos(q, v, dt)) != v")
    # integrating the differentiated velocity reaches the same configuration (quaternions up to sign)
    for j, t in enumerate(jt):
        a = qadr[j]
        if t in (2, 3):
            chk("integrate(differentiate)=id", abs(q2[a] - q3[a]), 1e-12 * (1 + abs(q2[a])), "re-integration misses the target")
        else:
            if t == 0:
                chk("integrate(differentiate)=id", maxdiff(q2[a:a + 3], q3[a:a + 3]), 1e-12 * (1 + max(abs(x) for x in q2[a:a + 3])), "re-integration misses the target position")
                a += 3
            qa, qb = q2[a:a + 4], q3[a:a + 4]
            chk("integrate(differentiate)=id", min(maxdiff(qa, qb), maxdiff(qa, [-x for x in qb])), 1e-9, "re-integration misses the target quaternion")


# ------------------------------------------------------------------------------------------------ run
def run_stream(ctx, impl, drv, trees, nstates, dev, stats, maxfd, max_report=6):
    thorough = ctx.tier == "thorough"
    lines, meta, owner = [], [], []
    for ti, t in enumerate(trees):
        lines.append("model " + t.text())
        meta.append({"kind": "model"})
        owner.append(ti)
        lines.append("info")
        meta.append({"kind": "info"})
        owner.append(ti)
        for s in range(nstates):
            l, m = state_block(ctx.rng, t, thorough, maxfd)
            lines += l
            meta += m
            owner += [ti] * len(l)
    rc, outs, err = ctx.run_lines([impl], lines)
    found, nfail = [], 0
    if rc != 0 or len(outs) != len(lines):
        idx = min(len(outs), len(lines) - 1)
        found.append({"key": "c07:crash", "what": "oracle harness crashed (rc=%s) at op %d" % (rc, idx),
                      "replay": {"model": trees[owner[idx]].text(), "line": lines[idx][:400], "stderr": err[-300:]}})
        return found, 1, 0

    perkey = {}

    def report(i, fs, extra=None):
        # at most `max_report` reports overall but always the first two of every distinct key, so that a recorded (known)
        # finding that fires on many states cannot crowd out a new one
        nonlocal nfail
        nfail += 1
        seen_here = set()
        for key, what in fs:
            if key in seen_here or perkey.get(key, 0) >= 2 or (len(found) >= max_report and perkey.get(key, 0) >= 1):
                continue
            seen_here.add(key)
            perkey[key] = perkey.get(key, 0) + 1
            rp = {"model": trees[owner[i]].text(), "op_index_in_stream": i, "line": lines[i][:600],
                  "how": "feed `model <model>` and the recorded `set` / op lines to the c07_oracle harness built by checks/c07.py"}
            if extra:
                rp.update(extra)
            found.append({"key": key, "what": what, "replay": rp})
    # ---- correspondence records
    recs = []
    for i, (l, o, mt) in enumerate(zip(lines, outs, meta)):
        if mt["kind"] == "rec":
            if " ->" not in o:
                report(i, [("c07:engine-error", "engine refused op: " + o[:200])])
                continue
            left, right = o.split(" ->", 1)
            recs.append((left.strip(), right.strip(), i))
        elif mt["kind"] == "model" and o.startswith("ok"):
            G.check_joint_order(trees[owner[i]], o)
        elif mt["kind"] == "model" and not o.startswith("ok"):
            report(i, [("c07:engine-error", "model failed to compile: " + o[:200])])
    if drv and recs:
        rcm, om, em = ctx.run_lines([drv], [r[0] for r in recs])
        if rcm != 0 or len(om) != len(recs):
            raise common.Infra("drv_c07 failed: rc=%d %s" % (rcm, em[-300:]))
        bad = []
        for (left, right, i), mo in zip(recs, om):
            ctx.count(left)
            if mo.strip() != right:
                bad.append({"line": left[:4000], "model": mo[:1500], "impl": right[:1500], "mjmodel": trees[owner[i]].text(),
                            "stream": "forward kinematics / integratePos / differentiatePos"})
        ctx.oblige("correspondence Lean kinematics model (Float) vs mj_kinematics + frames / mj_integratePos / mj_differentiatePos, "
                   "bitwise (%d ops)" % len(recs), "correspondence", not bad, json.dumps(bad[:3])[:6000])
        ctx.disagreements += bad[:20]
        kinds = {}
        for left, _, _ in recs:
            kinds[left.split()[0]] = kinds.get(left.split()[0], 0) + 1
        stats["records"] = {k: stats.get("records", {}).get(k, 0) + v for k, v in kinds.items()}
        ctx.sample({"op": recs[0][0][:260] + " ...", "engine_and_model_output": recs[0][1][:120] + " ..."})
    # ---- oracle
    info = None
    cur = None

    def flush(i):
        nonlocal cur
        if cur and cur.get("complete"):
            fs = []
            judge_jacobians(cur, info, dev, fs, stats)
            judge_functions(cur, info, dev, fs, stats)
            if cur["efc_base"]:
                judge_efc(cur, info, dev, fs, stats)
                stats["constraint_states"] = stats.get("constraint_states", 0) + 1
            stats["jacobian_states"] = stats.get("jacobian_states", 0) + 1
            if fs:
                report(cur["line"], fs, {"qpos": cur["qpos"], "qvel": cur["qvel"], "body_points": cur["pts"],
                                         "recipe": "set qpos; set qvel; kin; com; jacs; vel; `jacdot b r0 r1 r2` for (b, r) in body_points  "
                                                   "versus  [`jacpt b r` after (set qpos; integ +1e-6 qvel; kin; com)  minus  the same "
                                                   "with -1e-6] / 2e-6;  per-dof Jacobian columns likewise with `integ +-1e-6 e_i`;  constraint rows: "
                                                   "`opt jacobian 0|1` (dense|sparse), `opt cone 0|1` (pyramidal|elliptic), `efc full` at qpos "
                                                   "versus [`efc pos` after (set qpos; integ +1e-6 e_i) minus the same with -1e-6] / 2e-6"})
        cur = None
    for i, (l, o, mt) in enumerate(zip(lines, outs, meta)):
        k = mt["kind"]
        if k == "model":
            flush(i)
            info = None
        elif k == "info" and o.startswith("info"):
            info = parse_groups(o.split()[1:])
            for pre in ("body", "geom", "site"):
                for v in I(info, pre + "_sameframe")[(1 if pre == "body" else 0):]:
                    kk = "sameframe:%s:%s" % (pre, SF_NAME.get(v, str(v)))
                    stats[kk] = stats.get(kk, 0) + 1
            stats["sameframe:camera:none"] = stats.get("sameframe:camera:none", 0) + len(I(info, "cam_bodyid"))
            stats["sameframe:light:none"] = stats.get("sameframe:light:none", 0) + len(I(info, "light_bodyid"))
        if info is None:
            continue
        if k == "rec" and mt.get("frames") and " ->" in o:
            fk = parse_groups(o.split(" ->", 1)[1].split())
            fs = []
            judge_frames(fk, info, dev, fs)
            stats["frame_records"] = stats.get("frame_records", 0) + 1
            if fs:
                report(i, fs)
            if mt.get("role") == "base":
                flush(i)
                cur = {"line": i, "qpos": mt["base"]["qpos"], "qvel": mt["base"]["qvel"], "pts": mt["base"]["pts"],
                       "base": {"kin": fk}, "pert": {},
                       "jacpt": {}, "jacsparse": [], "jacdot": {}, "jacpt_pert": {}, "complete": False,
                       "efc_base": {}, "jacdif": [], "jacsum": [], "jacaxis": [], "fdmode": None}
            elif mt.get("role") == "pert" and cur is not None:
                cur["_p"] = {"kin": fk}
                cur["_pk"] = (mt["dof"], mt["sgn"])
        elif k == "com" and cur is not None and o.startswith("com"):
            g = parse_groups(o.split()[1:])
            (cur["base"] if mt["role"] == "base" else cur["_p"])["com"] = g
        elif k == "pts" and cur is not None and o.startswith("pts"):
            g = parse_groups(o.split()[1:])
            if mt["role"] == "base":
                cur["base"]["pts"] = g
            else:
                cur["_p"]["pts"] = g
                dof, sgn = cur["_pk"]
                pair = cur["pert"].setdefault(dof, [None, None])
                pair[0 if sgn > 0 else 1] = cur["_p"]
                if all(all(p is not None for p in pr) for pr in cur["pert"].values()) and "jacs" in cur and "vel" in cur:
                    cur["complete"] = True
        elif k == "jacs" and cur is not None and o.startswith("jacs"):
            cur["jacs"] = parse_groups(o.split()[1:])
        elif k == "jacpt" and cur is not None and o.startswith("jacpt"):
            cur["jacpt"][mt["body"]] = parse_groups(o.split()[1:])
        elif k == "jacpt_pert" and cur is not None and o.startswith("jacpt"):
            cur["jacpt_pert"][(mt["sgn"], mt["body"])] = parse_groups(o.split()[1:])
        elif k == "jacsparse" and cur is not None and o.startswith("jacsparse"):
            cur["jacsparse"].append(parse_groups(o.split()[1:]))
        elif k == "vel" and cur is not None and o.startswith("vel"):
            cur["vel"] = parse_groups(o.split()[1:])
        elif k == "jacdot" and cur is not None and o.startswith("jacdot"):
            cur["jacdot"][mt["body"]] = parse_groups(o.split()[1:])
        elif k == "efc" and cur is not None and o.startswith("efc "):
            g = parse_groups(o.split()[1:])
            if mt["role"] == "base":
                cur["efc_base"][(mt["jm"], mt["cone"])] = g
            elif "_p" in cur:
                cur["_p"]["efc"] = g
                cur["fdmode"] = mt["fdmode"]
        elif k in ("jacdif", "jacsum", "jacaxis") and cur is not None and o.startswith(k + " "):
            cur[k].append((mt, parse_groups(o.split()[1:])))
        elif k == "diffint" and o.startswith("diffint"):
            fs = []
            judge_diffint(mt, o, info, dev, fs)
            stats["diffint"] = stats.get("diffint", 0) + 1
            if fs:
                report(i, fs, {"qpos": mt["qpos"], "v": mt["v"], "dt": mt["dt"]})
        elif k in ("com", "pts", "jacs", "jacpt", "jacsparse", "vel", "jacdot", "diffint", "jacpt_pert", "efc", "jacdif", "jacsum",
                   "jacaxis") and o.startswith(("error", "bad-op")):
            report(i, [("c07:engine-error", "engine refused op `%s`: %s" % (l.split()[0], o[:200]))])
    flush(len(lines))
    return found, nfail, len(recs)


def gen_trees(ctx, n, maxbody, maxdof, cons=0.75, chist=None):
    trees, hist = [], {}
    chist = {} if chist is None else chist
    nforced = 0
    for k in range(n):
        r = ctx.rng.random()
        mb = maxbody if r < 0.6 else max(2, maxbody // 3)
        prof = {"actarm": 0.0}
        if ctx.rng.random() < 0.3:
            # one moving root with branching below it: any two bodies that are not in line share moving ancestors
            prof.update({"top": 0.0, "chain": 0.35, "static": 0.0, "mocap": 0.0})
            mb = max(mb, 4)
            hist["profile:single-root-branching"] = hist.get("profile:single-root-branching", 0) + 1
        t = G.gen_tree(ctx.rng, maxbody=mb, maxdof=maxdof, frames=True, tendons=False, p=prof)
        nforced += 1 if add_frame_classes(ctx.rng, t, chist, force=nforced < 2) else 0
        if ctx.rng.random() < cons:
            add_constraints(ctx.rng, t, chist)
        trees.append(t)
        b = "nv=0" if t.nv == 0 else "nv<=5" if t.nv <= 5 else "nv<=15" if t.nv <= 15 else "nv<=30" if t.nv <= 30 else "nv>30"
        hist[b] = hist.get(b, 0) + 1
        for kk, v in t.info["kinds"].items():
            hist["joints:" + kk] = hist.get("joints:" + kk, 0) + v
        hist["geoms"] = hist.get("geoms", 0) + len(t.geoms)
        hist["sites"] = hist.get("sites", 0) + len(t.sites)
        hist["cameras"] = hist.get("cameras", 0) + len(t.cams)
        hist["mocap"] = hist.get("mocap", 0) + t.nmocap
    return trees, hist


def run(ctx):
    ctx.rule = ("seeded random kinematic trees (chains and wide branching, free/ball/slide/hinge joints, up to 4 joints per body, "
                "qpos0 offsets, mocap bodies, explicit and geom-derived inertial frames, geoms / sites / cameras with all sameframe "
                "cases: bodies with explicit rotated inertial frames carry geoms / sites coinciding with that frame, sharing only its "
                "rotation (also as -q and 2q), at the inertial position with another rotation, null-pose and rotation-free; fixed "
                "lights; 75% of the trees completed with equalities (connect / weld body+site, joint, tendon; body pairs chosen by "
                "chain relation: shared moving ancestor, ancestor-descendant, different trees, one side fixed), joint / tendon "
                "limits, friction loss, fixed / spatial tendons, colliding primitive geoms of every condim and a plane; 30% of the "
                "trees are single-rooted with branching) x random configurations (unit and non-unit quaternions for the FK tie, unit for the finite differences); a "
                "correspondence case is distinct by its full record; the oracle perturbs every chosen dof by +-1e-6 along "
                "mj_integratePos and the constraint rows are built in dense and sparse storage, pyramidal and elliptic cone; "
                "non-trivial = nbody >= 2")
    thorough = ctx.tier == "thorough"
    m = kernelval.regen(ctx)
    ctx.lean_props(THEOREMS)
    kernelval.validate(ctx, m, KERNELS, 3000 if thorough else 150, label="C07 quaternion kernels")
    ctx.extra["kernel_body_sha256"] = {n: m.get("kernels", {}).get(n, {}).get("sha256", "")[:16] for n in KERNELS}
    # enumerator values hard-wired in the model / driver
    enums = {"mjJNT_FREE": 0, "mjJNT_BALL": 1, "mjJNT_SLIDE": 2, "mjJNT_HINGE": 3, "mjSAMEFRAME_NONE": 0, "mjSAMEFRAME_BODY": 1,
             "mjSAMEFRAME_INERTIA": 2, "mjSAMEFRAME_BODYROT": 3, "mjSAMEFRAME_INERTIAROT": 4, "mjCAMLIGHT_FIXED": 0,
             # used by the oracle when naming rows / switching modes at run time
             "mjEQ_CONNECT": 0, "mjEQ_WELD": 1, "mjEQ_JOINT": 2, "mjEQ_TENDON": 3, "mjJAC_DENSE": 0, "mjJAC_SPARSE": 1,
             "mjCONE_PYRAMIDAL": 0, "mjCONE_ELLIPTIC": 1}
    try:
        wrong = {k: E(k) for k, v in enums.items() if E(k) != v}
    except KeyError as e:
        wrong = {"missing": str(e)}
    ctx.oblige("mjtJoint / mjtSameFrame / mjtCamLight values of the headers are the ones the model uses", "translator", not wrong, str(wrong))
    drv = ctx.driver("drv_c07")
    impl = ctx.harness("harness/c/c07_oracle.c", "c07_oracle", deps=["harness/mjbuild.h"])
    if not impl:
        return
    dev, stats = G.Dev(), {}
    if getattr(ctx, "replay", None):
        rp = json.load(open(ctx.replay))
        print("replay inputs: %s" % json.dumps([f.get("replay", {}) for f in rp.get("failures", [])])[:3000])
    ntrees = 500 if thorough else 40
    chist = {}
    trees, hist = gen_trees(ctx, ntrees, 12 if thorough else 8, 36 if thorough else 24, chist=chist)
    ctx.extra["tree_distribution"] = hist
    ctx.extra["constraint_element_distribution"] = dict(sorted(chist.items()))
    found, nfail, nrec = run_stream(ctx, impl, drv, trees, 2 if thorough else 1, dev, stats, 40 if thorough else 8)
    for f in found:
        ctx.oracle_failure(f["key"], f["what"], f["replay"])
    ctx.extra["oracle"] = {k: v for k, v in stats.items()}
    ctx.extra["sameframe_class_histogram_compiled"] = {k[len("sameframe:"):]: v for k, v in sorted(stats.items()) if k.startswith("sameframe:")}
    missing = [pre + ":" + c for pre in ("geom", "site") for c in SF_NAME.values() if not stats.get("sameframe:%s:%s" % (pre, c))]
    ctx.oblige("the compiled models contain geoms and sites of all five mjtSameFrame classes (both switches of mj_local2Global "
               "are exercised in every branch; the generator places one object of every class by construction)", "coverage",
               not missing, "missing: %s" % missing)
    ctx.extra["oracle_failures"] = nfail
    ctx.extra["oracle_max_deviation_over_allowed"] = {k: float("%.3g" % v) for k, v in sorted(dev.m.items())}
    ctx.extra["correspondence_records"] = nrec

    def directed(c):
        d2, s2 = G.Dev(), {}
        last_known = None
        for rnd in range(3):
            ts, _ = gen_trees(c, 60, 10, 30)
            fnd, _, _ = run_stream(c, impl, None, ts, 1, d2, s2, 12, max_report=6)
            knownkeys = {k["key"] for k in c.known()}
            new_ = [f for f in fnd if f["key"] not in knownkeys]
            if new_:
                return new_[0]
            if fnd:
                last_known = fnd[0]
        return last_known
    ctx.directed_search = directed
    if thorough:
        ctx.leanchecker(["MjProof.Props.C07"])
