"""C07  Kinematics and Jacobians are consistent with positions (DESIGN.md §5.C07).

P  Lean theorems over the reals (lean/MjProof/Props/C07.lean) about the executable forward-kinematics model
   (lean/MjProof/Model/Kinematics.lean), assembled from the quaternion kernels generated from the C sources.
T  translator regeneration + bitwise translation validation of those kernels; bitwise correspondence of the Lean model
   (Float) with mj_kinematics (+ mj_local2Global frames, fixed cameras), mj_integratePos and mj_differentiatePos of the
   tree build on generated kinematic trees.
S  property oracle on the real engine alone (harness/c/c07_oracle.c): orthonormality and matrix<->quaternion agreement
   of all frames; every Jacobian entry point (mj_jac at random body points, mj_jacBody, mj_jacBodyCom, mj_jacSubtreeCom,
   mj_jacGeom, mj_jacSite, mj_jacSparse) against central differences of the engine's own kinematics along
   mj_integratePos perturbations; object velocities and cvel = J qvel; mj_jacDot against central differences of J along
   the velocity; mj_differentiatePos o mj_integratePos = id and back.
"""
import json
import math

from checks import common, kernelval
from checks import c06 as G          # shared tree generator / parsing helpers (same owner)
from gen.enums import E
from gen.models import unit_quat

META = {
    "technique": "Lean 4 proofs over the reals about a hand-written executable model of mj_kinematics assembled from c2lean-translated quaternion kernels (induction over the topologically ordered body list with the invariant 'unit quaternion, matrix = matrix of the quaternion'; HasDerivAt for the single-joint Jacobian columns via closed forms of the kernels, ring / linear_combination with the unit-norm hypotheses) + bitwise differential correspondence of the model (Float) with the compiled engine + finite-difference property oracle on the real engine",
    "text": "Proved for every kinematic tree given as a topologically ordered body list, every joint stack (slide / hinge / ball, or a lone free joint), mocap bodies and every configuration with unit joint / body quaternions and unit hinge axes: every body frame computed by the model of mj_kinematics1 has a unit quaternion, its matrix is mju_quat2Mat of that quaternion, and that matrix is a proper rotation (R R^T = R^T R = I, det R = 1); inertial, geom, site and fixed-camera frames of mj_local2Global are proper rotations in every mjtSameFrame case. Single-joint Jacobian columns: for a hinge, d/dtheta of the world position of any body-fixed point (computed by the model's joint step) is xaxis x (point - xanchor) with exactly the xaxis / xanchor that mj_kinematics stores (HasDerivAt, any pose before the joint with a unit quaternion, unit joint axis); for a slide it is xaxis. mj_differentiatePos inverts mj_integratePos: exactly for slide and hinge joints (any dt != 0); for ball and free joints under the no-wrap conditions of C24.subQuat_quatIntegrate (unit quaternion, |w| >= mjMINVAL, |dt||w| <= the mjPI literal, |sin(dt|w|/2)| >= mjMINVAL) [_partial].",
    "note": "NOT proved, decided by the finite-difference oracle on the real engine only: the whole-tree chain rule (that every Jacobian entry point, dense or sparse, equals the derivative of the corresponding position / orientation along mj_integratePos), cvel = J qvel / mj_objectVelocity, mj_jacDot, mj_comPos (subtree_com, cdof). Constraint-row Jacobians (efc_J) belong to C11/C12 and are not checked here. The model uses the mju_ quaternion kernels where mj_kinematics calls the textually identical mji_ inline copies (listing the mji_ copies as kernels would change the generated shape other properties' proofs rely on); a divergence of an inline copy is caught by the bitwise FK correspondence. Tracking / targeting camera modes, lights, sleeping are not modelled. Reals vs doubles: rounding is outside the proofs.",
}

P = "MjProof.C07."
THEOREMS = [P + t for t in (
    "quat2Mat_proper", "mulQuat_normSq", "normalize4_unit", "axisAngle2Quat_unit",
    "fk_frames_proper", "local2Global_proper",
    "rot_eq_mat", "cross_mat", "uvec_hasDerivAt", "hinge_column_is_derivative", "slide_column_is_derivative",
    "differentiate_integrate_slide", "differentiate_integrate_hinge",
    "differentiate_integrate_ball_partial", "differentiate_integrate_free_partial",
)]

KERNELS = ["mju_quat2Mat", "mju_mulQuat", "mju_rotVecQuat", "mju_axisAngle2Quat", "mju_normalize4", "mju_mulMatVec3",
           "mju_quatIntegrate", "mju_subQuat"]

fb = kernelval.fbits
frombits = kernelval.frombits
parse_groups, F, I = G.parse_groups, G.F, G.I

EPS = 1e-6       # finite-difference step (DESIGN.md)
FDTOL = 2e-6     # allowed |FD - J| relative to the scale of the scene (measured: <= ~1e-9, see evidence)


# ------------------------------------------------------------------------------------------------ small math (spec side)
def qmat(q):
    q0, q1, q2, q3 = q
    return [q0 * q0 + q1 * q1 - q2 * q2 - q3 * q3, 2 * (q1 * q2 - q0 * q3), 2 * (q1 * q3 + q0 * q2),
            2 * (q1 * q2 + q0 * q3), q0 * q0 - q1 * q1 + q2 * q2 - q3 * q3, 2 * (q2 * q3 - q0 * q1),
            2 * (q1 * q3 - q0 * q2), 2 * (q2 * q3 + q0 * q1), q0 * q0 - q1 * q1 - q2 * q2 + q3 * q3]


def qmul(a, b):
    return [a[0] * b[0] - a[1] * b[1] - a[2] * b[2] - a[3] * b[3],
            a[0] * b[1] + a[1] * b[0] + a[2] * b[3] - a[3] * b[2],
            a[0] * b[2] - a[1] * b[3] + a[2] * b[0] + a[3] * b[1],
            a[0] * b[3] + a[1] * b[2] - a[2] * b[1] + a[3] * b[0]]


def mmul(a, b):
    return [sum(a[3 * i + k] * b[3 * k + j] for k in range(3)) for i in range(3) for j in range(3)]


def mT(a):
    return [a[3 * j + i] for i in range(3) for j in range(3)]


def mdet(a):
    return a[0] * (a[4] * a[8] - a[5] * a[7]) - a[1] * (a[3] * a[8] - a[5] * a[6]) + a[2] * (a[3] * a[7] - a[4] * a[6])


def mvec(a, v):
    return [sum(a[3 * i + k] * v[k] for k in range(3)) for i in range(3)]


def cross(a, b):
    return [a[1] * b[2] - a[2] * b[1], a[2] * b[0] - a[0] * b[2], a[0] * b[1] - a[1] * b[0]]


def maxdiff(a, b):
    return max([abs(x - y) for x, y in zip(a, b)] + [0.0])


EYE = [1.0, 0, 0, 0, 1.0, 0, 0, 0, 1.0]


def rot_fd(Rp, Rm, eps):
    """angular velocity column from R(+eps), R(-eps): vee(R+ R-^T - R- R+^T) / (4 eps)"""
    A = mmul(Rp, mT(Rm))
    return [(A[7] - A[5]) / (4 * eps), (A[2] - A[6]) / (4 * eps), (A[3] - A[1]) / (4 * eps)]


# ------------------------------------------------------------------------------------------------ op streams
def state_block(rng, tree, thorough, maxfd):
    """harness lines for one (model already loaded) state; returns (lines, meta)"""
    lines, meta = [], []

    def add(l, **kw):
        lines.append(l)
        meta.append(kw)
    nv, nb = tree.nv, len(tree.bodies) + 1
    qpos = tree.random_qpos(rng, nonunit=0.2)
    qunit = tree.random_qpos(rng)                      # unit quaternions for the finite-difference part
    qvel = [rng.gauss(0, 1) * rng.choice((1.0, 1.0, 3.0)) for _ in range(nv)]

    def setmocap():
        if tree.nmocap:
            add("set mocap_pos " + " ".join(fb(rng.uniform(-1, 1)) for _ in range(3 * tree.nmocap)), kind="set")
            add("set mocap_quat " + " ".join(fb(x * rng.choice((1.0, 1.0, 1.0, 2.5, 1 + 1e-10)))
                                             for _ in range(tree.nmocap) for x in unit_quat(rng)), kind="set")
    # ---- (a) FK tie on an arbitrary (possibly non-unit) configuration, configuration-space maps
    setmocap()
    add("set qpos " + " ".join(map(fb, qpos)), kind="set")
    add("kin", kind="rec", frames=True)
    dt = rng.choice((0.002, 0.01, 1.0, -0.5, 1e-6, 0.0))
    add("integ " + fb(dt) + " " + " ".join(fb(x) for x in qvel), kind="rec")
    add("kin", kind="rec", frames=True)
    q2 = tree.random_qpos(rng, nonunit=0.1)
    add("diff " + fb(rng.choice((0.002, 1.0, 2.0, -1.0))) + " " + " ".join(fb(x) for x in qpos + q2), kind="rec")
    add("set qpos " + " ".join(map(fb, qunit)), kind="set")
    for _ in range(2 if not thorough else 4):
        sc = rng.choice((1.0, 0.1, 1e-3, 3.0))
        dtt = rng.choice((0.002, 0.01, 0.1, 1.0))
        w = [rng.gauss(0, 1) * sc for _ in range(nv)]
        add("diffint " + fb(dtt) + " " + " ".join(fb(x) for x in w), kind="diffint", dt=dtt, v=w, qpos=qunit)
    if nv == 0:
        return lines, meta
    # ---- (b) Jacobians at the base configuration
    pts = [(b, [rng.uniform(-0.5, 0.5) for _ in range(3)]) for b in range(nb)]
    ptsline = "pts %d " % len(pts) + " ".join("%d %s" % (b, " ".join(map(fb, r))) for b, r in pts)
    base = {"qpos": qunit, "qvel": qvel, "pts": pts}
    add("set qpos " + " ".join(map(fb, qunit)), kind="set")
    add("set qvel " + " ".join(map(fb, qvel)), kind="set")
    add("kin", kind="rec", frames=True, role="base", base=base)
    add("com", kind="com", role="base")
    add(ptsline, kind="pts", role="base")
    add("jacs", kind="jacs")
    for b, r in pts:
        add("jacpt %d %s" % (b, " ".join(map(fb, r))), kind="jacpt", body=b)
    for b in range(nb):
        add("jacsparse %d" % b, kind="jacsparse", body=b)
    add("vel", kind="vel")
    for b, r in pts:
        add("jacdot %d %s" % (b, " ".join(map(fb, r))), kind="jacdot", body=b)
    # ---- (c) perturbations along mj_integratePos: +-eps e_i for the chosen dofs, +-eps qvel for jacDot
    dofs = list(range(nv))
    if len(dofs) > maxfd:
        dofs = sorted(rng.sample(dofs, maxfd))
    for i in dofs + ["v"]:
        for sgn in (+1, -1):
            add("set qpos " + " ".join(map(fb, qunit)), kind="set")
            vec = qvel if i == "v" else [1.0 if k == i else 0.0 for k in range(nv)]
            add("integ " + fb(sgn * EPS) + " " + " ".join(fb(x) for x in vec), kind="rec")
            add("kin", kind="rec", frames=True, role="pert", dof=i, sgn=sgn)
            add("com", kind="com", role="pert")
            add(ptsline, kind="pts", role="pert")
            if i == "v":
                for b, r in pts:
                    add("jacpt %d %s" % (b, " ".join(map(fb, r))), kind="jacpt_pert", body=b, sgn=sgn)
    return lines, meta


# ------------------------------------------------------------------------------------------------ oracle
def judge_frames(fk, info, dev, fails):
    """orthonormality, det, matrix <-> quaternion agreement, attached frames (one kin record)"""
    def chk(key, val, allowed, what):
        if dev.see(key, val, allowed) > 1:
            fails.append(("c07:" + key, what + " (deviation %.3g, allowed %.3g)" % (val, allowed)))
    xpos, xquat, xmat = F(fk, "xpos"), F(fk, "xquat"), F(fk, "xmat")
    nb = len(xquat) // 4
    sc = 1.0 + max([abs(x) for x in xpos] + [0.0])
    for key in ("xmat", "ximat", "geom_xmat", "site_xmat", "cam_xmat"):
        M = F(fk, key)
        for k in range(len(M) // 9):
            R = M[9 * k:9 * k + 9]
            chk("orthonormal:" + key, max(maxdiff(mmul(R, mT(R)), EYE), maxdiff(mmul(mT(R), R), EYE)), 1e-12,
                key + " is not orthonormal")
            chk("det:" + key, abs(mdet(R) - 1), 1e-12, key + " has determinant != 1")
    for b in range(nb):
        q = xquat[4 * b:4 * b + 4]
        chk("unit:xquat", abs(math.sqrt(sum(x * x for x in q)) - 1), 1e-14, "xquat is not a unit quaternion")
        chk("xmat=quat2Mat(xquat)", maxdiff(xmat[9 * b:9 * b + 9], qmat(q)), 1e-14, "xmat differs from the matrix of xquat")
    # attached frames against the body frame (specification of mj_local2Global)
    xipos, ximat = F(fk, "xipos"), F(fk, "ximat")
    biq, bsf = F(info, "body_iquat"), I(info, "body_sameframe")
    for b in range(1, nb):
        if bsf[b] == 0:
            chk("ximat=quat2Mat(xquat*iquat)", maxdiff(ximat[9 * b:9 * b + 9], qmat(qmul(xquat[4 * b:4 * b + 4], biq[4 * b:4 * b + 4]))),
                1e-13, "ximat differs from the matrix of xquat * body_iquat")
        else:
            chk("ximat=xmat(sameframe)", maxdiff(ximat[9 * b:9 * b + 9], xmat[9 * b:9 * b + 9]), 0.0, "ximat != xmat for a sameframe body")
    bip = F(info, "body_ipos")
    for b in range(1, nb):
        exp = [xpos[3 * b + r] + mvec(xmat[9 * b:9 * b + 9], bip[3 * b:3 * b + 3])[r] for r in range(3)]
        chk("xipos=xpos+xmat*ipos", maxdiff(xipos[3 * b:3 * b + 3], exp), 1e-13 * sc, "xipos differs from xpos + xmat * body_ipos")
    for pre, bid, lq, sf in (("geom", I(info, "geom_bodyid"), F(info, "geom_quat"), I(info, "geom_sameframe")),
                             ("site", I(info, "site_bodyid"), F(info, "site_quat"), I(info, "site_sameframe")),
                             ("cam", I(info, "cam_bodyid"), F(info, "cam_quat"), None)):
        M = F(fk, pre + "_xmat")
        Pw, Pl = F(fk, pre + "_xpos"), F(info, pre + "_pos")
        for k, b in enumerate(bid):
            # position: whatever shortcut the sameframe flag selects, the point is body frame o local position
            exp = [xpos[3 * b + r] + mvec(xmat[9 * b:9 * b + 9], Pl[3 * k:3 * k + 3])[r] for r in range(3)]
            chk(pre + "_xpos=xpos+xmat*pos", maxdiff(Pw[3 * k:3 * k + 3], exp), 1e-12 * sc,
                pre + "_xpos differs from xpos + xmat * local position")
            s = sf[k] if sf else 0
            if s == 0:
                exp = qmat(qmul(xquat[4 * b:4 * b + 4], lq[4 * k:4 * k + 4]))
                tol = 1e-13
            elif s in (1, 3):
                exp, tol = xmat[9 * b:9 * b + 9], 0.0
            else:
                exp, tol = ximat[9 * b:9 * b + 9], 0.0
            chk(pre + "_xmat=body*local", maxdiff(M[9 * k:9 * k + 9], exp), tol, pre + "_xmat differs from body orientation * local orientation")
    return sc


def judge_jacobians(rec, info, dev, fails, stats):
    """rec: dict with base kin/com/pts/jacs/jacpt/jacsparse/vel/jacdot outputs and the perturbed ones"""
    def chk(key, val, allowed, what):
        if dev.see(key, val, allowed) > 1:
            fails.append(("c07:" + key, what + " (deviation %.3g, allowed %.3g)" % (val, allowed)))
    base = rec["base"]
    nv = len(rec["qvel"])
    qvel = rec["qvel"]
    fk0, com0, pts0, jacs = base["kin"], base["com"], base["pts"], rec["jacs"]
    nb = len(fk0["xquat"]) // 4
    xpos0 = F(fk0, "xpos")
    scale = 1.0 + max([abs(x) for x in xpos0] + [abs(x) for x in F(pts0, "pts")] + [0.0])
    tol = FDTOL * scale
    geom_body, site_body = I(info, "geom_bodyid"), I(info, "site_bodyid")

    def col(J, i):
        return [J[r * nv + i] for r in range(3)]
    # ---- finite differences per dof
    for i, (pp, pm) in rec["pert"].items():
        if i == "v":
            continue
        # positions
        for key, jpre, cnt in (("xpos", "jb", nb), ("xipos", "jc", nb), ("geom_xpos", "jg", len(geom_body)),
                               ("site_xpos", "jt", len(site_body))):
            Pp, Pm = F(pp["kin"], key), F(pm["kin"], key)
            for k in range(cnt):
                fd = [(Pp[3 * k + r] - Pm[3 * k + r]) / (2 * EPS) for r in range(3)]
                chk("fd:" + jpre + "p", maxdiff(fd, col(F(jacs, "%s%dp" % (jpre, k)), i)), tol,
                    "translational Jacobian (%s) differs from the central difference of %s" % (jpre, key))
        Cp, Cm = F(pp["com"], "subtree_com"), F(pm["com"], "subtree_com")
        for k in range(nb):
            fd = [(Cp[3 * k + r] - Cm[3 * k + r]) / (2 * EPS) for r in range(3)]
            chk("fd:jsp", maxdiff(fd, col(F(jacs, "js%dp" % k), i)), tol,
                "mj_jacSubtreeCom differs from the central difference of subtree_com")
        Qp, Qm = F(pp["pts"], "pts"), F(pm["pts"], "pts")
        for k in range(nb):
            fd = [(Qp[3 * k + r] - Qm[3 * k + r]) / (2 * EPS) for r in range(3)]
            chk("fd:jac-point", maxdiff(fd, col(F(rec["jacpt"][k], "jacp"), i)), tol,
                "mj_jac at a body-fixed point differs from the central difference of its world position")
        # orientations
        for key, jpre, cnt, bod in (("xmat", "jb", nb, None), ("ximat", "jc", nb, None), ("geom_xmat", "jg", len(geom_body), None),
                                    ("site_xmat", "jt", len(site_body), None)):
            Rp, Rm = F(pp["kin"], key), F(pm["kin"], key)
            for k in range(cnt):
                fd = rot_fd(Rp[9 * k:9 * k + 9], Rm[9 * k:9 * k + 9], EPS)
                chk("fd:" + jpre + "r", maxdiff(fd, col(F(jacs, "%s%dr" % (jpre, k)), i)), FDTOL,
                    "rotational Jacobian (%s) differs from the central difference of %s" % (jpre, key))
        for k in range(nb):
            Rp, Rm = F(pp["kin"], "xmat"), F(pm["kin"], "xmat")
            fd = rot_fd(Rp[9 * k:9 * k + 9], Rm[9 * k:9 * k + 9], EPS)
            chk("fd:jac-point-r", maxdiff(fd, col(F(rec["jacpt"][k], "jacr"), i)), FDTOL,
                "mj_jac rotational part differs from the central difference of the body orientation")
        stats["fd_columns"] = stats.get("fd_columns", 0) + 1
    # ---- sparse variant against the dense one
    for b, js in enumerate(rec["jacsparse"]):
        chain = I(js, "chain")
        NV = len(chain)
        jp, jr = F(js, "jacp"), F(js, "jacr")
        dp, dr = F(jacs, "jc%dp" % b), F(jacs, "jc%dr" % b)
        err = 0.0
        for c, dof in enumerate(chain):
            for r in range(3):
                err = max(err, abs(jp[r * NV + c] - dp[r * nv + dof]), abs(jr[r * NV + c] - dr[r * nv + dof]))
        others = max([abs(dp[r * nv + k]) + abs(dr[r * nv + k]) for k in range(nv) if k not in chain for r in range(3)] + [0.0])
        chk("sparse=dense", max(err, others), 0.0, "mj_jacSparse differs from mj_jac on the body chain (or mj_jac is non-zero off the chain)")
    # ---- velocities: object velocity = J qvel, cvel
    vel = rec["vel"]
    cvel = F(vel, "cvel")
    sub = F(com0, "subtree_com")
    rootid = I(info, "body_rootid")
    vscale = (1.0 + max([abs(x) for x in qvel] + [0.0])) * scale * max(1, nv)

    def jv(J):
        return [sum(J[r * nv + k] * qvel[k] for k in range(nv)) for r in range(3)]
    xmat0, ximat0 = F(fk0, "xmat"), F(fk0, "ximat")
    for pre, jpre, cnt, pos, mats in (("ob", "jc", nb, F(fk0, "xipos"), ximat0), ("ox", "jb", nb, xpos0, xmat0),
                                      ("og", "jg", len(geom_body), F(fk0, "geom_xpos"), F(fk0, "geom_xmat")),
                                      ("os", "jt", len(site_body), F(fk0, "site_xpos"), F(fk0, "site_xmat"))):
        for k in range(cnt):
            ov = F(vel, "%s%d" % (pre, k))
            w = jv(F(jacs, "%s%dr" % (jpre, k)))
            v = jv(F(jacs, "%s%dp" % (jpre, k)))
            chk("objvel=Jqvel", max(maxdiff(ov[0:3], w), maxdiff(ov[3:6], v)), 1e-12 * vscale,
                "mj_objectVelocity (world orientation) differs from J qvel")
            R = mats[9 * k:9 * k + 9]
            chk("objvel-local", max(maxdiff(ov[6:9], mvec(mT(R), ov[0:3])), maxdiff(ov[9:12], mvec(mT(R), ov[3:6]))), 1e-12 * vscale,
                "mj_objectVelocity (local) is not the world velocity rotated into the object frame")
    for b in range(nb):
        w = jv(F(jacs, "jb%dr" % b))
        v = jv(F(jacs, "jb%dp" % b))
        off = [sub[3 * rootid[b] + r] - xpos0[3 * b + r] for r in range(3)]
        wx = cross(w, off)
        exp = w + [v[r] + wx[r] for r in range(3)]
        chk("cvel=Jqvel", maxdiff(cvel[6 * b:6 * b + 6], exp), 1e-12 * vscale, "cvel differs from J qvel transported to the subtree com")
    # ---- jacDot against the central difference of J along qvel
    if "v" in rec["pert"]:
        jt, jb, dj = I(info, "jnt_type"), I(info, "jnt_bodyid"), I(info, "dof_jntid")
        # dofs of a ball joint that is followed by a slide joint on the same body (see KNOWN DEFECT below)
        ballslide = set()
        for dof in range(nv):
            j = dj[dof]
            if jt[j] == 1 and any(jb[k] == jb[j] and jt[k] == 2 for k in range(j + 1, len(jt))):
                ballslide.add(dof)
        for k in range(nb):
            jd = rec["jacdot"][k]
            Jp, Jm = rec["jacpt_pert"][(+1, k)], rec["jacpt_pert"][(-1, k)]
            for part in ("jacp", "jacr"):
                a, b_, c = F(Jp, part), F(Jm, part), F(jd, part)
                fd = [(x - y) / (2 * EPS) for x, y in zip(a, b_)]
                badcols = {idx % nv for idx, (x, y) in enumerate(zip(fd, c)) if abs(x - y) > 5 * FDTOL * vscale}
                if part == "jacp" and badcols and badcols <= ballslide:
                    # KNOWN DEFECT CANDIDATE (reported under a stable key): mj_jacDot recomputes cdof_dot of quaternion dofs
                    # with the FINAL body velocity d->cvel[body]; when a slide joint follows the ball joint on the same
                    # body, that velocity contains the slide's translation, which does not move the ball's anchor
                    stats["jacdot_ball_then_slide"] = stats.get("jacdot_ball_then_slide", 0) + 1
                    dev.see("fd:jacDot-jacp(ball-then-slide dofs excluded)",
                            max([abs(x - y) for idx, (x, y) in enumerate(zip(fd, c)) if idx % nv not in ballslide] + [0.0]),
                            5 * FDTOL * vscale)
                    if not any(kk == "c07:jacDot-ball-followed-by-slide" for kk, _ in fails):
                        fails.append(("c07:jacDot-ball-followed-by-slide",
                                      "mj_jacDot translational columns of a ball joint that is followed by a slide joint on the "
                                      "same body differ from the central difference of mj_jac along qvel (max deviation %.3g)"
                                      % max(abs(x - y) for x, y in zip(fd, c))))
                    continue
                chk("fd:jacDot-" + part, maxdiff(fd, c), 5 * FDTOL * vscale, "mj_jacDot differs from the central difference of mj_jac along qvel")


def judge_diffint(line_meta, out, info, dev, fails):
    def chk(key, val, allowed, what):
        if dev.see(key, val, allowed) > 1:
            fails.append(("c07:" + key, what + " (deviation %.3g, allowed %.3g)" % (val, allowed)))
    g = parse_groups(out.split()[1:])
    v, dt, q = line_meta["v"], line_meta["dt"], line_meta["qpos"]
    w, q2, q3 = F(g, "w"), F(g, "q2"), F(g, "q3")
    jt, dadr, qadr = I(info, "jnt_type"), I(info, "jnt_dofadr"), I(info, "jnt_qposadr")
    for j, t in enumerate(jt):
        nvj = 6 if t == 0 else 3 if t == 1 else 1
        vs = v[dadr[j]:dadr[j] + nvj]
        ws = w[dadr[j]:dadr[j] + nvj]
        sc = max([abs(x) for x in vs] + [1e-300])
        if t in (0, 1):
            ang = vs[-3:]
            if dt * math.sqrt(sum(x * x for x in ang)) > 3.0:
                continue          # wrapped regime of mju_quat2Vel: not an inverse there
        qs = 1.0 if t in (0, 1) else abs(q[qadr[j]])
        if t == 0:
            qs = max(1.0, max(abs(x) for x in q[qadr[j]:qadr[j] + 3]))
        # rounding of (q (+) dt v) (-) q is relative to |q| (resp. to 1 for unit quaternions), then divided by dt
        chk("differentiate(integrate)=id", maxdiff(vs, ws), 1e-11 * (qs / abs(dt) + sc),
            "mj_differentiatePos(mj_integratePos(q, v, dt)) != v")
    # integrating the differentiated velocity reaches the same configuration (quaternions up to sign)
    for j, t in enumerate(jt):
        a = qadr[j]
        if t in (2, 3):
            chk("integrate(differentiate)=id", abs(q2[a] - q3[a]), 1e-12 * (1 + abs(q2[a])), "re-integration misses the target")
        else:
            if t == 0:
                chk("integrate(differentiate)=id", maxdiff(q2[a:a + 3], q3[a:a + 3]), 1e-12 * (1 + max(abs(x) for x in q2[a:a + 3])), "re-integration misses the target position")
                a += 3
            qa, qb = q2[a:a + 4], q3[a:a + 4]
            chk("integrate(differentiate)=id", min(maxdiff(qa, qb), maxdiff(qa, [-x for x in qb])), 1e-9, "re-integration misses the target quaternion")


# ------------------------------------------------------------------------------------------------ run
def run_stream(ctx, impl, drv, trees, nstates, dev, stats, maxfd, max_report=6):
    thorough = ctx.tier == "thorough"
    lines, meta, owner = [], [], []
    for ti, t in enumerate(trees):
        lines.append("model " + t.text())
        meta.append({"kind": "model"})
        owner.append(ti)
        lines.append("info")
        meta.append({"kind": "info"})
        owner.append(ti)
        for s in range(nstates):
            l, m = state_block(ctx.rng, t, thorough, maxfd)
            lines += l
            meta += m
            owner += [ti] * len(l)
    rc, outs, err = ctx.run_lines([impl], lines)
    found, nfail = [], 0
    if rc != 0 or len(outs) != len(lines):
        idx = min(len(outs), len(lines) - 1)
        found.append({"key": "c07:crash", "what": "oracle harness crashed (rc=%s) at op %d" % (rc, idx),
                      "replay": {"model": trees[owner[idx]].text(), "line": lines[idx][:400], "stderr": err[-300:]}})
        return found, 1, 0

    def report(i, fs, extra=None):
        nonlocal nfail
        nfail += 1
        if len(found) < max_report:
            for key, what in fs[:3]:
                rp = {"model": trees[owner[i]].text(), "op_index_in_stream": i, "line": lines[i][:600],
                      "how": "feed `model <model>` and the recorded `set` / op lines to the c07_oracle harness built by checks/c07.py"}
                if extra:
                    rp.update(extra)
                found.append({"key": key, "what": what, "replay": rp})
    # ---- correspondence records
    recs = []
    for i, (l, o, mt) in enumerate(zip(lines, outs, meta)):
        if mt["kind"] == "rec":
            if " ->" not in o:
                report(i, [("c07:engine-error", "engine refused op: " + o[:200])])
                continue
            left, right = o.split(" ->", 1)
            recs.append((left.strip(), right.strip(), i))
        elif mt["kind"] == "model" and o.startswith("ok"):
            G.check_joint_order(trees[owner[i]], o)
        elif mt["kind"] == "model" and not o.startswith("ok"):
            report(i, [("c07:engine-error", "model failed to compile: " + o[:200])])
    if drv and recs:
        rcm, om, em = ctx.run_lines([drv], [r[0] for r in recs])
        if rcm != 0 or len(om) != len(recs):
            raise common.Infra("drv_c07 failed: rc=%d %s" % (rcm, em[-300:]))
        bad = []
        for (left, right, i), mo in zip(recs, om):
            ctx.count(left)
            if mo.strip() != right:
                bad.append({"line": left[:4000], "model": mo[:1500], "impl": right[:1500], "mjmodel": trees[owner[i]].text(),
                            "stream": "forward kinematics / integratePos / differentiatePos"})
        ctx.oblige("correspondence Lean kinematics model (Float) vs mj_kinematics + frames / mj_integratePos / mj_differentiatePos, "
                   "bitwise (%d ops)" % len(recs), "correspondence", not bad, json.dumps(bad[:3])[:6000])
        ctx.disagreements += bad[:20]
        kinds = {}
        for left, _, _ in recs:
            kinds[left.split()[0]] = kinds.get(left.split()[0], 0) + 1
        stats["records"] = {k: stats.get("records", {}).get(k, 0) + v for k, v in kinds.items()}
        ctx.sample({"op": recs[0][0][:260] + " ...", "engine_and_model_output": recs[0][1][:120] + " ..."})
    # ---- oracle
    info = None
    cur = None

    def flush(i):
        nonlocal cur
        if cur and cur.get("complete"):
            fs = []
            judge_jacobians(cur, info, dev, fs, stats)
            stats["jacobian_states"] = stats.get("jacobian_states", 0) + 1
            if fs:
                report(cur["line"], fs, {"qpos": cur["qpos"], "qvel": cur["qvel"], "body_points": cur["pts"],
                                         "recipe": "set qpos; set qvel; kin; com; jacs; vel; `jacdot b r0 r1 r2` for (b, r) in body_points  "
                                                   "versus  [`jacpt b r` after (set qpos; integ +1e-6 qvel; kin; com)  minus  the same "
                                                   "with -1e-6] / 2e-6;  per-dof Jacobian columns likewise with `integ +-1e-6 e_i`"})
        cur = None
    for i, (l, o, mt) in enumerate(zip(lines, outs, meta)):
        k = mt["kind"]
        if k == "model":
            flush(i)
            info = None
        elif k == "info" and o.startswith("info"):
            info = parse_groups(o.split()[1:])
        if info is None:
            continue
        if k == "rec" and mt.get("frames") and " ->" in o:
            fk = parse_groups(o.split(" ->", 1)[1].split())
            fs = []
            judge_frames(fk, info, dev, fs)
            stats["frame_records"] = stats.get("frame_records", 0) + 1
            if fs:
                report(i, fs)
            if mt.get("role") == "base":
                flush(i)
                cur = {"line": i, "qpos": mt["base"]["qpos"], "qvel": mt["base"]["qvel"], "pts": mt["base"]["pts"],
                       "base": {"kin": fk}, "pert": {},
                       "jacpt": {}, "jacsparse": [], "jacdot": {}, "jacpt_pert": {}, "complete": False}
            elif mt.get("role") == "pert" and cur is not None:
                cur["_p"] = {"kin": fk}
                cur["_pk"] = (mt["dof"], mt["sgn"])
        elif k == "com" and cur is not None and o.startswith("com"):
            g = parse_groups(o.split()[1:])
            (cur["base"] if mt["role"] == "base" else cur["_p"])["com"] = g
        elif k == "pts" and cur is not None and o.startswith("pts"):
            g = parse_groups(o.split()[1:])
            if mt["role"] == "base":
                cur["base"]["pts"] = g
            else:
                cur["_p"]["pts"] = g
                dof, sgn = cur["_pk"]
                pair = cur["pert"].setdefault(dof, [None, None])
                pair[0 if sgn > 0 else 1] = cur["_p"]
                if all(all(p is not None for p in pr) for pr in cur["pert"].values()) and "jacs" in cur and "vel" in cur:
                    cur["complete"] = True
        elif k == "jacs" and cur is not None and o.startswith("jacs"):
            cur["jacs"] = parse_groups(o.split()[1:])
        elif k == "jacpt" and cur is not None and o.startswith("jacpt"):
            cur["jacpt"][mt["body"]] = parse_groups(o.split()[1:])
        elif k == "jacpt_pert" and cur is not None and o.startswith("jacpt"):
            cur["jacpt_pert"][(mt["sgn"], mt["body"])] = parse_groups(o.split()[1:])
        elif k == "jacsparse" and cur is not None and o.startswith("jacsparse"):
            cur["jacsparse"].append(parse_groups(o.split()[1:]))
        elif k == "vel" and cur is not None and o.startswith("vel"):
            cur["vel"] = parse_groups(o.split()[1:])
        elif k == "jacdot" and cur is not None and o.startswith("jacdot"):
            cur["jacdot"][mt["body"]] = parse_groups(o.split()[1:])
        elif k == "diffint" and o.startswith("diffint"):
            fs = []
            judge_diffint(mt, o, info, dev, fs)
            stats["diffint"] = stats.get("diffint", 0) + 1
            if fs:
                report(i, fs, {"qpos": mt["qpos"], "v": mt["v"], "dt": mt["dt"]})
        elif k in ("com", "pts", "jacs", "jacpt", "jacsparse", "vel", "jacdot", "diffint", "jacpt_pert") and o.startswith(("error", "bad-op")):
            report(i, [("c07:engine-error", "engine refused op `%s`: %s" % (l.split()[0], o[:200]))])
    flush(len(lines))
    return found, nfail, len(recs)


def gen_trees(ctx, n, maxbody, maxdof):
    trees, hist = [], {}
    for k in range(n):
        r = ctx.rng.random()
        mb = maxbody if r < 0.6 else max(2, maxbody // 3)
        t = G.gen_tree(ctx.rng, maxbody=mb, maxdof=maxdof, frames=True, tendons=False, p={"actarm": 0.0})
        trees.append(t)
        b = "nv=0" if t.nv == 0 else "nv<=5" if t.nv <= 5 else "nv<=15" if t.nv <= 15 else "nv<=30" if t.nv <= 30 else "nv>30"
        hist[b] = hist.get(b, 0) + 1
        for kk, v in t.info["kinds"].items():
            hist["joints:" + kk] = hist.get("joints:" + kk, 0) + v
        hist["geoms"] = hist.get("geoms", 0) + len(t.geoms)
        hist["sites"] = hist.get("sites", 0) + len(t.sites)
        hist["cameras"] = hist.get("cameras", 0) + len(t.cams)
        hist["mocap"] = hist.get("mocap", 0) + t.nmocap
    return trees, hist


def run(ctx):
    ctx.rule = ("seeded random kinematic trees (chains and wide branching, free/ball/slide/hinge joints, up to 4 joints per body, "
                "qpos0 offsets, mocap bodies, explicit and geom-derived inertial frames, geoms / sites / cameras with all sameframe "
                "cases) x random configurations (unit and non-unit quaternions for the FK tie, unit for the finite differences); a "
                "correspondence case is distinct by its full record; the oracle perturbs every chosen dof by +-1e-6 along "
                "mj_integratePos; non-trivial = nbody >= 2")
    thorough = ctx.tier == "thorough"
    m = kernelval.regen(ctx)
    ctx.lean_props(THEOREMS)
    kernelval.validate(ctx, m, KERNELS, 3000 if thorough else 150, label="C07 quaternion kernels")
    ctx.extra["kernel_body_sha256"] = {n: m.get("kernels", {}).get(n, {}).get("sha256", "")[:16] for n in KERNELS}
    # enumerator values hard-wired in the model / driver
    enums = {"mjJNT_FREE": 0, "mjJNT_BALL": 1, "mjJNT_SLIDE": 2, "mjJNT_HINGE": 3, "mjSAMEFRAME_NONE": 0, "mjSAMEFRAME_BODY": 1,
             "mjSAMEFRAME_INERTIA": 2, "mjSAMEFRAME_BODYROT": 3, "mjSAMEFRAME_INERTIAROT": 4, "mjCAMLIGHT_FIXED": 0}
    try:
        wrong = {k: E(k) for k, v in enums.items() if E(k) != v}
    except KeyError as e:
        wrong = {"missing": str(e)}
    ctx.oblige("mjtJoint / mjtSameFrame / mjtCamLight values of the headers are the ones the model uses", "translator", not wrong, str(wrong))
    drv = ctx.driver("drv_c07")
    impl = ctx.harness("harness/c/c07_oracle.c", "c07_oracle", deps=["harness/mjbuild.h"])
    if not impl:
        return
    dev, stats = G.Dev(), {}
    if getattr(ctx, "replay", None):
        rp = json.load(open(ctx.replay))
        print("replay inputs: %s" % json.dumps([f.get("replay", {}) for f in rp.get("failures", [])])[:3000])
    ntrees = 500 if thorough else 40
    trees, hist = gen_trees(ctx, ntrees, 12 if thorough else 8, 36 if thorough else 24)
    ctx.extra["tree_distribution"] = hist
    found, nfail, nrec = run_stream(ctx, impl, drv, trees, 2 if thorough else 1, dev, stats, 40 if thorough else 8)
    for f in found:
        ctx.oracle_failure(f["key"], f["what"], f["replay"])
    ctx.extra["oracle"] = {k: v for k, v in stats.items()}
    ctx.extra["oracle_failures"] = nfail
    ctx.extra["oracle_max_deviation_over_allowed"] = {k: float("%.3g" % v) for k, v in sorted(dev.m.items())}
    ctx.extra["correspondence_records"] = nrec

    def directed(c):
        d2, s2 = G.Dev(), {}
        for rnd in range(3):
            ts, _ = gen_trees(c, 60, 10, 30)
            fnd, _, _ = run_stream(c, impl, None, ts, 1, d2, s2, 12, max_report=1)
            if fnd:
                return fnd[0]
        return None
    ctx.directed_search = directed
    if thorough:
        ctx.leanchecker(["MjProof.Props.C07"])
