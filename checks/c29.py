"""C29  Passive forces follow their physical laws (DESIGN.md §5.C29).

P  lean/MjProof/Props/C29.lean (over the reals, about Model/Passive.lean built on the generated polynomial kernels):
   spring force = -(k x + p0 x^2 + p1 x^3) = -dV/dq of the potential mj_energyPos reports (HasDerivAt; slide/hinge
   and tendon springs incl. the deadband kinks), free-joint translational law, damper / tendon-damper power <= 0 for
   non-negative coefficients, gravity compensation = -gravcomp x weight through any Jacobian column, zero force at rest.
T  (a) c2lean kernels mju_polyForce (spring / damper variants), mju_polyPotential, mjd_xPolyForce regenerated and
       validated bitwise on every run;
   (b) per-element differential against the REAL engine: model parameters and state are read from mjModel / mjData
       through harness/c/engine_repl.c, fed to drv_c29 (the Lean model on Float), and the results are compared
       BITWISE with qfrc_spring / qfrc_damper / qfrc_passive (every dof: joint term, then the tendon terms
       accumulated in tendon order) and qfrc_gravcomp on the translational dofs of top-level free joints.
S  property oracle on the engine alone (independent Python recomputation from parameters and state, 1e-12 relative):
   spring / damper laws for all four joint types and tendons, qfrc_passive = spring + damper (+ gravcomp unless
   actgravcomp), dissipation qvel.qfrc_damper <= 0, finite difference of the reported potential energy = -qfrc_spring
   (gravity off), gravcomp = J^T(-gravcomp m g) via the engine's own applied-force path and = gravcomp * qfrc_bias
   at rest for uniform gravcomp, zero passive force at rest at the spring reference.
"""
import math
import subprocess

from checks import common, kernelval
from gen.enums import E
from gen.models import ModelGen, unit_quat

META = {
    "technique": "hand-written executable Lean model of the per-joint / per-dof / per-tendon / per-body computations of mj_springdamper, mj_gravcomp and the summation of mj_passive over the law-free number class MjNum, built on c2lean-generated kernels (mju_polyForce for springs and dampers, mju_polyPotential, mju_subQuat, mju_normalize4, mju_norm3; regenerated and validated bitwise each run); Lean 4 proofs over the reals (ring, positivity / nlinarith, HasDerivAt calculus with one-sided derivatives at the deadband ends); bitwise per-dof differential of the Float instance against qfrc_spring / qfrc_damper / qfrc_passive / qfrc_gravcomp of the real mj_forward on generated models; independent property oracle in Python",
    "text": "Proved over the reals for the model (all parameter values and states): the generated kernels are the polynomials k + p0 x + p1 x^2, b + p0|v| + p1|v|^2 and k x^2/2 + p0 x^3/3 + p1 x^4/4; a slide / hinge spring produces -(k x + p0 x^2 + p1 x^3) with x = qpos - springref (-k x for a linear spring), which is minus the derivative of the potential mj_energyPos reports; the same for tendon springs with the springlength deadband at every length including both ends of the deadband; the translational spring of a free joint is -kappa(|dif|) dif; with non-negative coefficients a dof damper and a tendon damper mapped through its Jacobian row deliver non-positive power; the gravity-compensation force is -gravcomp*mass*gravity, so through any Jacobian column it is -gravcomp times gravity's contribution and cancels it exactly for gravcomp = 1; at zero velocity with every spring at its reference and every tendon inside its deadband all modelled passive terms vanish. Tied to /repo on every run by translation (kernels) and the bitwise per-dof differential against the real engine.",
    "note": "Stated over the reals (rounding outside the proofs; the Float instance of the same definitions is compared bitwise with the engine). The flat qfrc arrays are modelled per dof (joint term, then tendon terms in tendon order); the index arithmetic, the tendon Jacobian itself, mj_applyFT (Jacobian of the body COM) and the ball-joint potential gradient are covered by the engine oracle only (finite differences of the reported energy, the engine's applied-force path), not by theorems. Not modelled: flex elasticity, fluid forces, passive contacts, adhesion, plugins / callbacks, sleeping. damper_power_nonpos needs non-negative coefficients: the compiler accepts negative damping (recorded in the evidence), for which the theorem negative_damping_adds_energy shows the damper adds energy; the documentation only says a positive coefficient gives the dissipative force.",
}

P = "MjProof.C29."
THEOREMS = [P + t for t in (
    "polyForce_spring_eq", "polyForce_damper_eq", "polyPotential_spring_eq",
    "spring_force_poly", "spring_force_eq_neg_k_deflection", "spring_force_eq_neg_dV", "free_spring_force",
    "tendon_spring_poly", "tendon_spring_force_eq_neg_dV",
    "damper_force_poly", "damper_power_nonpos", "negative_damping_adds_energy", "tendon_damper_power_nonpos",
    "gravcomp_cancels_fraction", "gravcomp_full_cancels", "rest_zero_passive", "rest_zero_free",
)]
KERNELS = ["mju_polyForce_spring", "mju_polyForce_damper", "mju_polyPotential_spring", "mjd_xPolyForce_spring",
           "mjd_xPolyForce_damper", "mju_subQuat", "mju_normalize4", "mju_norm3"]

fbits = kernelval.fbits
frombits = kernelval.frombits
RTOL = 1e-12      # Python recomputation vs engine (observed <= ~1e-15 of the scale)
FD_EPS = 1e-6
FD_TOL = 1e-6     # central difference of the potential vs force, relative to 1 + |f| (observed <= ~1e-9)
JFREE, JBALL, JSLIDE, JHINGE = (E("mjJNT_FREE"), E("mjJNT_BALL"), E("mjJNT_SLIDE"), E("mjJNT_HINGE"))

PROFILE = {"nbody": (1, 5), "actuators": (0, 3), "actuator_kinds": ("motor",), "sensors": (0, 0), "cameras": 0.0, "keys": 0.0, "numeric": 0.0,
           "mocap": 0.05, "contacts": 0.0, "plane": 0.0, "equalities": 0.0, "pairs": 0.0, "excludes": 0.0,
           "stiffness": 0.7, "damping": 0.7, "tendons": 0.8, "gravcomp": 0.5, "sites": 0.9, "free": 0.35, "ball": 0.2,
           "limits": 0.0, "frictionloss": 0.0, "energy": 1.0, "integrators": ("Euler",), "sleep": 0.0}


# ------------------------------------------------------------------------------------------ model generation
def make_model(ctx, variant):
    rng = ctx.rng
    prof = dict(PROFILE)
    if variant == "nogravity":
        prof["gravity"] = 0.0
        prof["gravcomp"] = 0.0
    mdl = ModelGen(rng, prof).make()
    lines = []
    uniform = rng.choice((1.0, 0.5, 0.3, 1.7)) if variant == "uniform" else None
    for l in mdl.lines:
        t = l.split()
        if len(t) == 4 and t[0] == "set" and t[2] in ("stiffness", "damping") and rng.random() < 0.6:
            # polynomial coefficients (mjNPOLY = 2): non-negative for dampers, any sign (moderate) for springs
            if t[2] == "damping":
                l += " %r %r" % (rng.choice((0.0, rng.uniform(0, 1.0))), rng.choice((0.0, rng.uniform(0, 0.5))))
            else:
                l += " %r %r" % (rng.choice((0.0, rng.uniform(-2, 2))), rng.choice((0.0, rng.uniform(0, 3))))
        if len(t) == 4 and t[0] == "set" and t[2] == "gravcomp" and uniform is not None:
            continue
        lines.append(l)
        if t[0] == "tendon" and rng.random() < 0.5:
            lo = rng.uniform(-0.3, 0.3)
            lines.append("set %s springlength %r %r" % (t[1], lo, lo + rng.choice((0.0, rng.uniform(0, 0.4)))))
        if t[0] == "joint" and rng.random() < 0.2:
            lines.append("set %s actgravcomp 1" % t[1])
        if t[0] == "body" and uniform is not None:
            lines.append("set %s gravcomp %r" % (t[1], uniform))
        if t[0] == "actuator" and rng.random() < 0.8:
            # actuator-level damping, inherited by the target joint / tendon (mj_actuatorDamping: times gear^2)
            lines.append("set %s damping %r %r %r" % (t[1], rng.uniform(0, 1.5), rng.choice((0.0, rng.uniform(0, 0.6))), rng.choice((0.0, rng.uniform(0, 0.3)))))
    if mdl.tendons and mdl.actuators:
        # retarget some actuators to a tendon
        out, retarget = [], None
        for l in lines:
            t = l.split()
            if t[0] == "actuator":
                retarget = rng.choice(mdl.tendons)["name"] if rng.random() < 0.35 else None
            if retarget and len(t) >= 4 and t[0] == "set" and t[2] == "trntype":
                l = "set %s trntype %d" % (t[1], E("mjTRN_TENDON"))
            if retarget and len(t) >= 4 and t[0] == "set" and t[2] == "target":
                l = "set %s target %s" % (t[1], retarget)
            out.append(l)
        lines = out
    mdl.lines = lines
    mdl.uniform = uniform
    return mdl


# ------------------------------------------------------------------------------------------ REPL plumbing
class Repl:
    def __init__(self, exe):
        self.exe, self.cmds, self.tags = exe, [], []

    def cmd(self, c, tag=None):
        self.cmds.append(c)
        self.tags.append(tag)

    def run(self):
        r = subprocess.run([self.exe], input="\n".join(self.cmds) + "\n", capture_output=True, text=True, timeout=1800)
        out = r.stdout.split("\n")
        if out and out[-1] == "":
            out.pop()
        res = {}
        for tg, o in zip(self.tags, out):
            if tg is not None:
                res[tg] = o
        return r.returncode, out, res, r.stderr


def toks(line):
    return line.split(":", 1)[1].split() if ":" in line else None


def F(line):
    return [frombits(x) for x in toks(line)]


def I(line):
    return [int(x) for x in toks(line)]


MODEL_FIELDS = ("jnt_type", "jnt_qposadr", "jnt_dofadr", "jnt_bodyid", "jnt_stiffness", "jnt_stiffnesspoly", "qpos_spring",
                "dof_damping", "dof_dampingpoly", "dof_jntid", "dof_bodyid", "jnt_actgravcomp", "jnt_actuatorid", "tendon_stiffness",
                "tendon_stiffnesspoly", "tendon_damping", "tendon_dampingpoly", "tendon_lengthspring", "tendon_actuatorid",
                "actuator_damping", "actuator_dampingpoly", "actuator_gear", "actuator_outadr", "actuator_trnid", "actuator_trntype",
                "ten_J_rownnz", "ten_J_rowadr", "ten_J_colind", "body_mass", "body_gravcomp", "body_parentid", "opt.gravity",
                "opt.disableflags", "opt.enableflags", "qpos0")
DATA_FIELDS = ("qpos", "qvel", "qfrc_spring", "qfrc_damper", "qfrc_gravcomp", "qfrc_passive", "qfrc_bias", "qfrc_smooth",
               "ten_length", "ten_velocity", "ten_J", "energy", "xipos")


def fmtv(v):
    return " ".join(repr(float(x)) for x in v)


# ------------------------------------------------------------------------------------------ quaternion helpers (oracle)
def qmul(a, b):
    return [a[0] * b[0] - a[1] * b[1] - a[2] * b[2] - a[3] * b[3],
            a[0] * b[1] + a[1] * b[0] + a[2] * b[3] - a[3] * b[2],
            a[0] * b[2] - a[1] * b[3] + a[2] * b[0] + a[3] * b[1],
            a[0] * b[3] + a[1] * b[2] - a[2] * b[1] + a[3] * b[0]]


def qnormalize(q):
    n = math.sqrt(sum(x * x for x in q))
    return [x / n for x in q] if n > 1e-15 else [1.0, 0.0, 0.0, 0.0]


def sub_quat(qa, qb):
    """3-vector v with qb * exp(v) = qa (log map of qb^-1 qa), as mju_subQuat documents"""
    d = qmul([qb[0], -qb[1], -qb[2], -qb[3]], qa)
    s = math.sqrt(d[1] * d[1] + d[2] * d[2] + d[3] * d[3])
    if s < 1e-15:
        return [0.0, 0.0, 0.0]
    ang = 2 * math.atan2(s, d[0])
    if ang > math.pi:
        ang -= 2 * math.pi
    return [d[1] / s * ang, d[2] / s * ang, d[3] / s * ang]


def qexp(v):
    a = math.sqrt(sum(x * x for x in v))
    if a < 1e-300:
        return [1.0, 0.0, 0.0, 0.0]
    s = math.sin(a / 2) / a
    return [math.cos(a / 2), v[0] * s, v[1] * s, v[2] * s]


def poly_spring(k, p, x):
    return k + p[0] * x + p[1] * x * x


def poly_damper(b, p, v):
    a = abs(v)
    return b + p[0] * a + p[1] * a * a


def poly_pot(k, p, x):
    return 0.5 * k * x * x + p[0] / 3 * x ** 3 + p[1] / 4 * x ** 4


class Snapshot:
    """model constants + one forward pass, parsed"""

    def __init__(self, res, key):
        self.raw = {f: res[("m", f)] for f in MODEL_FIELDS}
        self.raw.update({f: res[(key, f)] for f in DATA_FIELDS})
        g = lambda f: F(self.raw[f])
        gi = lambda f: I(self.raw[f])
        self.jtype, self.jqadr, self.jdadr = gi("jnt_type"), gi("jnt_qposadr"), gi("jnt_dofadr")
        self.jk, self.jpoly, self.qspring = g("jnt_stiffness"), g("jnt_stiffnesspoly"), g("qpos_spring")
        self.db, self.dpoly, self.djnt = g("dof_damping"), g("dof_dampingpoly"), gi("dof_jntid")
        self.actgc, self.jact = gi("jnt_actgravcomp"), gi("jnt_actuatorid")
        self.tk, self.tkpoly, self.tb, self.tbpoly = g("tendon_stiffness"), g("tendon_stiffnesspoly"), g("tendon_damping"), g("tendon_dampingpoly")
        self.tls, self.tact = g("tendon_lengthspring"), gi("tendon_actuatorid")
        self.rownnz, self.rowadr, self.colind = gi("ten_J_rownnz"), gi("ten_J_rowadr"), gi("ten_J_colind")
        self.mass, self.gc, self.parent = g("body_mass"), g("body_gravcomp"), gi("body_parentid")
        self.grav = g("opt.gravity")
        self.dflags, self.eflags = gi("opt.disableflags")[0], gi("opt.enableflags")[0]
        self.qpos, self.qvel = g("qpos"), g("qvel")
        self.fs, self.fd, self.fg, self.fp = g("qfrc_spring"), g("qfrc_damper"), g("qfrc_gravcomp"), g("qfrc_passive")
        self.bias, self.smooth = g("qfrc_bias"), g("qfrc_smooth")
        self.tlen, self.tvel, self.tJ = g("ten_length"), g("ten_velocity"), g("ten_J")
        self.energy = g("energy")
        self.nv, self.ntendon, self.njnt, self.nbody = len(self.qvel), len(self.tk), len(self.jtype), len(self.mass)
        self.jbody = gi("jnt_bodyid")
        self.ad, self.adpoly, self.gear = g("actuator_damping"), g("actuator_dampingpoly"), g("actuator_gear")
        self.outadr, self.trnid, self.trntype = gi("actuator_outadr"), gi("actuator_trnid"), gi("actuator_trntype")
        self.nact = len(self.ad)

    def contributors(self, kind, ident):
        """(mode, [actuator ids]) as mj_actuatorDamping selects them for joint / tendon `ident`"""
        aid = self.jact[ident] if kind == "joint" else self.tact[ident]
        if aid == -1:
            return 0, []
        if aid >= 0:
            return 1, [aid]
        ok = (E("mjTRN_JOINT"), E("mjTRN_JOINTINPARENT")) if kind == "joint" else (E("mjTRN_TENDON"),)
        return 2, [k for k in range(self.nact) if self.trnid[2 * k] == ident and self.trntype[k] in ok]

    def eff_damping(self, kind, ident, b, p):
        """documented rule: own damping + sum over attached actuators of damping * gear^2 (same for the polynomial part)"""
        mode, acts = self.contributors(kind, ident)
        p = list(p)
        for k in acts:
            g2 = self.gear[6 * self.outadr[k]] ** 2
            b += self.ad[k] * g2
            p[0] += self.adpoly[2 * k] * g2
            p[1] += self.adpoly[2 * k + 1] * g2
        return b, p

    def effdamp_line(self, kind, ident, b, p0, p1):
        mode, acts = self.contributors(kind, ident)
        adb, apb, gb = self.bits("actuator_damping"), self.bits("actuator_dampingpoly"), self.bits("actuator_gear")
        return "effdamp %s %s %s %d %d%s" % (b, p0, p1, mode, len(acts), "".join(
            " %s %s %s %s" % (adb[k], apb[2 * k], apb[2 * k + 1], gb[6 * self.outadr[k]]) for k in acts))

    def bits(self, f):
        return toks(self.raw[f])

    def has_gravcomp(self):
        gn = math.sqrt(sum(x * x for x in self.grav))
        return (not (self.dflags & E("mjDSBL_GRAVITY"))) and gn != 0 and any(self.gc[b] != 0 for b in range(1, self.nbody))

    def tendon_terms(self):
        """per tendon: (x, fs, fd) recomputed in Python, or None if the engine skips it"""
        out = []
        for i in range(self.ntendon):
            k, kp = self.tk[i], self.tkpoly[2 * i:2 * i + 2]
            b, bp = self.eff_damping("tendon", i, self.tb[i], self.tbpoly[2 * i:2 * i + 2])
            L, lo, hi, v = self.tlen[i], self.tls[2 * i], self.tls[2 * i + 1], self.tvel[i]
            x = L - hi if L > hi else (L - lo if L < lo else 0.0)
            out.append((x, -x * poly_spring(k, kp, x), -v * poly_damper(b, bp, v)))
        return out

    def expected(self):
        """independent recomputation of qfrc_spring, qfrc_damper from the documented laws"""
        fs, fd = [0.0] * self.nv, [0.0] * self.nv
        for j in range(self.njnt):
            k, p = self.jk[j], self.jpoly[2 * j:2 * j + 2]
            qa, da, t = self.jqadr[j], self.jdadr[j], self.jtype[j]
            if t in (JSLIDE, JHINGE):
                x = self.qpos[qa] - self.qspring[qa]
                fs[da] = -x * poly_spring(k, p, x)
            else:
                if t == JFREE:
                    dif = [self.qpos[qa + i] - self.qspring[qa + i] for i in range(3)]
                    r = math.sqrt(sum(x * x for x in dif))
                    kk = poly_spring(k, p, r)
                    for i in range(3):
                        fs[da + i] = -kk * dif[i]
                    qa, da = qa + 3, da + 3
                q = qnormalize(self.qpos[qa:qa + 4])
                dif = sub_quat(q, self.qspring[qa:qa + 4])
                r = math.sqrt(sum(x * x for x in dif))
                kk = poly_spring(k, p, r)
                for i in range(3):
                    fs[da + i] = -kk * dif[i]
        for i in range(self.nv):
            v = self.qvel[i]
            b, bp = self.eff_damping("joint", self.djnt[i], self.db[i], self.dpoly[2 * i:2 * i + 2])
            fd[i] = -v * poly_damper(b, bp, v)
        for i, (x, f_s, f_d) in enumerate(self.tendon_terms()):
            for a in range(self.rowadr[i], self.rowadr[i] + self.rownnz[i]):
                fs[self.colind[a]] += self.tJ[a] * f_s
                fd[self.colind[a]] += self.tJ[a] * f_d
        return fs, fd

    def potential(self):
        """spring potential from the documented law (for models without gravity: equals energy[0])"""
        e = 0.0
        for j in range(self.njnt):
            k, p = self.jk[j], self.jpoly[2 * j:2 * j + 2]
            qa, t = self.jqadr[j], self.jtype[j]
            if t in (JSLIDE, JHINGE):
                e += poly_pot(k, p, self.qpos[qa] - self.qspring[qa])
            else:
                if t == JFREE:
                    e += poly_pot(k, p, math.sqrt(sum((self.qpos[qa + i] - self.qspring[qa + i]) ** 2 for i in range(3))))
                    qa += 3
                dif = sub_quat(qnormalize(self.qpos[qa:qa + 4]), self.qspring[qa:qa + 4])
                e += poly_pot(k, p, math.sqrt(sum(x * x for x in dif)))
        for i, (x, _, _) in enumerate(self.tendon_terms()):
            e += poly_pot(self.tk[i], self.tkpoly[2 * i:2 * i + 2], x)
        return e


def perturb(snap, dof, eps):
    """qpos moved by eps along dof `dof` (tangent space: right-multiplication for quaternions)"""
    q = list(snap.qpos)
    j = snap.djnt[dof]
    t, qa, da = snap.jtype[j], snap.jqadr[j], snap.jdadr[j]
    k = dof - da
    if t in (JSLIDE, JHINGE):
        q[qa] += eps
    elif t == JFREE and k < 3:
        q[qa + k] += eps
    else:
        if t == JFREE:
            qa, k = qa + 3, k - 3
        v = [0.0, 0.0, 0.0]
        v[k] = eps
        q[qa:qa + 4] = qmul(q[qa:qa + 4], qexp(v))
    return q


# ------------------------------------------------------------------------------------------ Lean lines per snapshot
def lean_lines_pass0(s):
    """effective damping coefficients (own + actuator contribution) of every dof and tendon"""
    db, dp = s.bits("dof_damping"), s.bits("dof_dampingpoly")
    tb, tbp = s.bits("tendon_damping"), s.bits("tendon_dampingpoly")
    lines = [s.effdamp_line("joint", s.djnt[i], db[i], dp[2 * i], dp[2 * i + 1]) for i in range(s.nv)]
    lines += [s.effdamp_line("tendon", i, tb[i], tbp[2 * i], tbp[2 * i + 1]) for i in range(s.ntendon)]
    return lines


def lean_lines_pass1(s, eff):
    """element ops; returns (lines, index) where index maps a tag to the line number; `eff`: outputs of pass 0"""
    lines, idx = [], {}

    def add(tag, l):
        idx[tag] = len(lines)
        lines.append(l)

    qb, qsb, vb = s.bits("qpos"), s.bits("qpos_spring"), s.bits("qvel")
    jk, jp = s.bits("jnt_stiffness"), s.bits("jnt_stiffnesspoly")
    for j in range(s.njnt):
        t, qa = s.jtype[j], s.jqadr[j]
        kp = "%s %s %s" % (jk[j], jp[2 * j], jp[2 * j + 1])
        if t in (JSLIDE, JHINGE):
            add(("js", j), "jspring %s %s %s" % (kp, qb[qa], qsb[qa]))
        else:
            if t == JFREE:
                add(("jl", j), "freelin %s %s %s" % (kp, " ".join(qb[qa:qa + 3]), " ".join(qsb[qa:qa + 3])))
                qa += 3
            add(("jb", j), "ball %s %s %s" % (kp, " ".join(qb[qa:qa + 4]), " ".join(qsb[qa:qa + 4])))
    for i in range(s.nv):
        add(("dd", i), "damper %s %s" % (eff[i], vb[i]))
    tk, tkp = s.bits("tendon_stiffness"), s.bits("tendon_stiffnesspoly")
    tl, tls, tv = s.bits("ten_length"), s.bits("tendon_lengthspring"), s.bits("ten_velocity")
    for i in range(s.ntendon):
        add(("tt", i), "tendon %s %s %s %s %s %s %s %s" % (tk[i], tkp[2 * i], tkp[2 * i + 1], eff[s.nv + i],
                                                        tl[i], tls[2 * i], tls[2 * i + 1], tv[i]))
    return lines, idx


def lean_lines_pass2(s, out1, idx):
    """accumulation + summation ops built from the Lean outputs of pass 1; returns [(line, engine value bits, what)]"""
    zero = fbits(0.0)
    base_s, base_d = [zero] * s.nv, [zero] * s.nv
    for j in range(s.njnt):
        t, da = s.jtype[j], s.jdadr[j]
        if t in (JSLIDE, JHINGE):
            base_s[da] = out1[idx[("js", j)]]
        else:
            if t == JFREE:
                base_s[da:da + 3] = out1[idx[("jl", j)]].split()
                da += 3
            base_s[da:da + 3] = out1[idx[("jb", j)]].split()
    for i in range(s.nv):
        base_d[i] = out1[idx[("dd", i)]]
    terms_s, terms_d = [[] for _ in range(s.nv)], [[] for _ in range(s.nv)]
    Jb = s.bits("ten_J")
    for i in range(s.ntendon):
        o = out1[idx[("tt", i)]]
        if o == "none":
            continue
        f_s, f_d = o.split()
        for a in range(s.rowadr[i], s.rowadr[i] + s.rownnz[i]):
            terms_s[s.colind[a]] += [Jb[a], f_s]
            terms_d[s.colind[a]] += [Jb[a], f_d]
    cases = []
    es, ed, eg, ep = s.bits("qfrc_spring"), s.bits("qfrc_damper"), s.bits("qfrc_gravcomp"), s.bits("qfrc_passive")
    hg = s.has_gravcomp()
    for i in range(s.nv):
        cases.append(("accum %s %d%s" % (base_s[i], len(terms_s[i]) // 2, "".join(" " + x for x in terms_s[i])), es[i], "qfrc_spring[%d]" % i))
        cases.append(("accum %s %d%s" % (base_d[i], len(terms_d[i]) // 2, "".join(" " + x for x in terms_d[i])), ed[i], "qfrc_damper[%d]" % i))
        g = (" " + eg[i]) if (hg and not s.actgc[s.djnt[i]]) else ""
        cases.append(("psum %s %s%s" % (es[i], ed[i], g), ep[i], "qfrc_passive[%d]" % i))
    # gravity compensation on the translational dofs of top-level free joints: J = identity there, so the entry is the
    # sum of the compensation forces of the bodies of that subtree, in body order
    if hg:
        gb, mb, cb = s.bits("opt.gravity"), s.bits("body_mass"), s.bits("body_gravcomp")
        for j in range(s.njnt):
            if s.jtype[j] != JFREE or s.parent[s.jbody[j]] != 0:
                continue
            root = s.jbody[j]
            sub = []
            for b in range(1, s.nbody):
                a = b
                while a != 0 and a != root:
                    a = s.parent[a]
                if a == root and s.gc[b] != 0:
                    sub.append(b)
            if not sub:
                continue
            da = s.jdadr[j]
            cases.append(("gravsum %s %d%s" % (" ".join(gb), len(sub), "".join(" %s %s" % (mb[b], cb[b]) for b in sub)),
                          " ".join(eg[da:da + 3]), "qfrc_gravcomp[%d..%d] (free joint %d)" % (da, da + 2, j)))
    return cases


# ------------------------------------------------------------------------------------------ the oracle
def close(a, b, scale, tol=RTOL):
    return abs(a - b) <= tol * (scale + 1e-300) + 1e-300 or (a != a and b != b)


def oracle_snapshot(s, fail, rp, stats):
    es, ed = s.expected()
    sc_s = max([abs(x) for x in es + s.fs] + [1e-9])
    sc_d = max([abs(x) for x in ed + s.fd] + [1e-9])
    for i in range(s.nv):
        dev = abs(es[i] - s.fs[i]) / sc_s
        stats["max_dev_spring"] = max(stats["max_dev_spring"], dev)
        if not close(es[i], s.fs[i], sc_s):
            fail("c29:spring-law", "qfrc_spring[%d] = %r, documented law gives %r" % (i, s.fs[i], es[i]), dict(rp, dof=i))
            return
        dev = abs(ed[i] - s.fd[i]) / sc_d
        stats["max_dev_damper"] = max(stats["max_dev_damper"], dev)
        if not close(ed[i], s.fd[i], sc_d):
            fail("c29:damper-law", "qfrc_damper[%d] = %r, documented law gives %r" % (i, s.fd[i], ed[i]), dict(rp, dof=i))
            return
    hg = s.has_gravcomp()
    for i in range(s.nv):
        e = s.fs[i] + s.fd[i]
        if hg and not s.actgc[s.djnt[i]]:
            e += s.fg[i]
        if not close(e, s.fp[i], abs(e) + abs(s.fs[i]) + abs(s.fd[i]) + abs(s.fg[i])):
            fail("c29:passive-sum", "qfrc_passive[%d] = %r but spring + damper (+ gravcomp) = %r" % (i, s.fp[i], e), dict(rp, dof=i))
            return
    # dissipation (generated damping coefficients are non-negative)
    terms = [s.qvel[i] * s.fd[i] for i in range(s.nv)]
    pw, sc = sum(terms), sum(abs(t) for t in terms)
    stats["dissipation_checked"] += 1
    if pw > 1e-12 * sc + 1e-300:
        fail("c29:damper-adds-energy", "qvel . qfrc_damper = %r > 0 (scale %r)" % (pw, sc), rp)
        return
    if not hg and any(x != 0 for x in s.fg):
        fail("c29:gravcomp-without-gravity", "qfrc_gravcomp non-zero although gravity compensation is off", rp)


def run_models(ctx, exe, drv, nmodels):
    stats = {"models": 0, "snapshots": 0, "bitwise_cases": 0, "bitwise_bad": 0, "max_dev_spring": 0.0, "max_dev_damper": 0.0,
             "dissipation_checked": 0, "fd_checked": 0, "max_fd_dev": 0.0, "gravcomp_xfrc_checked": 0, "max_gravcomp_dev": 0.0,
             "gravcomp_uniform_checked": 0, "rest_checked": 0, "joint_types": {}, "tendons": 0, "poly_models": 0, "variants": {},
             "actuator_damping_modes": {}}
    failures = {}
    mism = []

    def fail(key, what, replay):
        failures[key] = failures.get(key, 0) + 1
        if failures[key] <= 3:
            ctx.oracle_failure(key, what, replay)

    for mi in range(nmodels):
        variant = ("plain", "nogravity", "uniform", "plain", "nogravity")[mi % 5]
        mdl = make_model(ctx, variant)
        if mdl.nv == 0:
            continue
        rng = ctx.rng
        st = mdl.random_state(rng)
        text = mdl.text()
        R = Repl(exe)
        R.cmd("model\n" + text.rstrip("\n"), "model")
        for f in MODEL_FIELDS:
            R.cmd("getm " + f, ("m", f))
        R.cmd("data 0")
        R.cmd("set 0 qpos " + fmtv(st["qpos"]))
        R.cmd("set 0 qvel " + fmtv(st["qvel"]))
        R.cmd("forward 0", "fwd")
        for f in DATA_FIELDS:
            R.cmd("get 0 " + f, ("s0", f))
        rc, out, res, err = R.run()
        rp = {"model": text, "qpos": st["qpos"], "qvel": st["qvel"], "variant": variant,
              "how": "feed `model` + description, then `data 0`, `set 0 qpos ...`, `set 0 qvel ...`, `forward 0`, `num 0 qfrc_spring` ... to harness/c/engine_repl.c"}
        if rc != 0 or len(out) != len(R.cmds):
            fail("c29:engine-crash", "engine REPL crashed (rc=%s): %s" % (rc, err[-300:]), rp)
            continue
        if not res["model"].startswith("ok") or res["fwd"].startswith("error"):
            continue
        s = Snapshot(res, "s0")
        stats["models"] += 1
        stats["snapshots"] += 1
        stats["variants"][variant] = stats["variants"].get(variant, 0) + 1
        stats["tendons"] += s.ntendon
        for t in s.jtype:
            stats["joint_types"][str(t)] = stats["joint_types"].get(str(t), 0) + 1
        for kind, n in (("joint", s.njnt), ("tendon", s.ntendon)):
            for ident in range(n):
                mode = "%s:%d" % (kind, s.contributors(kind, ident)[0])
                stats["actuator_damping_modes"][mode] = stats["actuator_damping_modes"].get(mode, 0) + 1
        if any(x != 0 for x in s.jpoly + s.dpoly + s.tkpoly + s.tbpoly):
            stats["poly_models"] += 1
        # ---- T: bitwise per-dof differential against the Lean model
        l0 = lean_lines_pass0(s)
        rc0, o0, e0 = ctx.run_lines([drv], l0)
        if rc0 != 0 or len(o0) != len(l0) or any(x == "bad-op" for x in o0):
            raise common.Infra("drv_c29 failed on effdamp lines: " + e0[-300:])
        l1, idx = lean_lines_pass1(s, o0)
        rc1, o1, e1 = ctx.run_lines([drv], l1)
        if rc1 != 0 or len(o1) != len(l1):
            raise common.Infra("drv_c29 failed: " + e1[-300:])
        cases = lean_lines_pass2(s, o1, idx)
        rc2, o2, e2 = ctx.run_lines([drv], [c[0] for c in cases])
        if rc2 != 0 or len(o2) != len(cases):
            raise common.Infra("drv_c29 failed: " + e2[-300:])
        for (line, want, what), got in zip(cases, o2):
            stats["bitwise_cases"] += 1
            ctx.count((mi, what, line))
            # -0.0 vs +0.0: the engine clears entries with memset (+0.0) and skips joints without springs; the model
            # does the same, so signs of zero are compared too
            if got != want:
                stats["bitwise_bad"] += 1
                if len(mism) < 20:
                    mism.append({"what": what, "line": line[:600], "model": got, "impl": want, "model_text": text, "qpos": st["qpos"], "qvel": st["qvel"]})
        if stats["models"] <= 3 and cases:
            ctx.sample({"variant": variant, "nv": s.nv, "ntendon": s.ntendon, "case": cases[0][2], "lean_line": cases[0][0][:160],
                        "engine_bits": cases[0][1], "lean_bits": o2[0]})
        # ---- S: oracle on the engine's values alone
        oracle_snapshot(s, fail, rp, stats)
        # follow-up experiments need further engine runs
        R2 = Repl(exe)
        R2.cmd("model\n" + text.rstrip("\n"), "model")
        R2.cmd("data 0")
        R2.cmd("set 0 qvel " + fmtv(st["qvel"]))
        exps = []
        if variant == "nogravity":
            dofs = list(range(s.nv))
            if len(dofs) > 6:
                dofs = sorted(rng.sample(dofs, 6))
            for dof in dofs:
                for sg in (+1, -1):
                    R2.cmd("set 0 qpos " + fmtv(perturb(s, dof, sg * FD_EPS)))
                    R2.cmd("forward 0")
                    R2.cmd("get 0 energy", ("fd", dof, sg))
            exps.append(("fd", dofs))
        if s.has_gravcomp():
            # the engine's own applied-force path: xfrc_applied = -gravcomp*m*g at every body, difference of qfrc_smooth
            xf = [0.0] * (6 * s.nbody)
            for b in range(1, s.nbody):
                for i in range(3):
                    xf[6 * b + i] = -s.gc[b] * s.mass[b] * s.grav[i]
            R2.cmd("set 0 qpos " + fmtv(st["qpos"]))
            R2.cmd("set 0 xfrc_applied " + fmtv(xf))
            R2.cmd("forward 0")
            R2.cmd("get 0 qfrc_smooth", ("xfrc",))
            R2.cmd("set 0 xfrc_applied " + fmtv([0.0] * (6 * s.nbody)))
            exps.append(("xfrc", None))
            if mdl.uniform is not None:
                R2.cmd("set 0 qvel " + fmtv([0.0] * s.nv))
                R2.cmd("forward 0")
                R2.cmd("get 0 qfrc_bias", ("ub",))
                R2.cmd("get 0 qfrc_gravcomp", ("ug",))
                exps.append(("uniform", None))
        # rest at the spring reference
        R2.cmd("set 0 qpos " + fmtv(s.qspring))
        R2.cmd("set 0 qvel " + fmtv([0.0] * s.nv))
        R2.cmd("forward 0")
        R2.cmd("get 0 qfrc_spring", ("rest", "s"))
        R2.cmd("get 0 qfrc_damper", ("rest", "d"))
        R2.cmd("get 0 ten_length", ("rest", "l"))
        rc, out, res2, err = R2.run()
        if rc != 0 or len(out) != len(R2.cmds):
            fail("c29:engine-crash", "engine REPL crashed in the follow-up experiments (rc=%s): %s" % (rc, err[-300:]), rp)
            continue
        for kind, arg in exps:
            if kind == "fd":
                for dof in arg:
                    ep, em = F(res2[("fd", dof, 1)])[0], F(res2[("fd", dof, -1)])[0]
                    g = (ep - em) / (2 * FD_EPS)
                    dev = abs(g + s.fs[dof]) / (1 + abs(s.fs[dof]))
                    stats["fd_checked"] += 1
                    stats["max_fd_dev"] = max(stats["max_fd_dev"], dev)
                    if dev > FD_TOL:
                        fail("c29:force-not-gradient-of-energy", "dof %d: dE/dq = %r (central difference of energy[0]) but qfrc_spring = %r" % (dof, g, s.fs[dof]),
                             dict(rp, dof=dof, eps=FD_EPS))
                        break
                pe = s.potential()
                if not close(pe, s.energy[0], abs(pe) + 1e-9, 1e-10):
                    fail("c29:energy-law", "energy[0] = %r, documented spring potential %r" % (s.energy[0], pe), rp)
            elif kind == "xfrc":
                sm = F(res2[("xfrc",)])
                sc = max([abs(x) for x in sm + s.smooth] + [1e-9])
                for i in range(s.nv):
                    d = sm[i] - s.smooth[i]
                    dev = abs(d - s.fg[i]) / sc
                    stats["max_gravcomp_dev"] = max(stats["max_gravcomp_dev"], dev)
                    if dev > 1e-10:
                        fail("c29:gravcomp-law", "qfrc_gravcomp[%d] = %r but applying -gravcomp*m*g at the body COMs gives %r" % (i, s.fg[i], d), dict(rp, dof=i))
                        break
                stats["gravcomp_xfrc_checked"] += 1
            elif kind == "uniform":
                ub, ug = F(res2[("ub",)]), F(res2[("ug",)])
                sc = max([abs(x) for x in ub] + [1e-9])
                for i in range(s.nv):
                    if abs(ug[i] - mdl.uniform * ub[i]) > 1e-10 * sc:
                        fail("c29:gravcomp-fraction", "uniform gravcomp %r at rest: qfrc_gravcomp[%d] = %r, gravcomp*qfrc_bias = %r" % (mdl.uniform, i, ug[i], mdl.uniform * ub[i]),
                             dict(rp, dof=i))
                        break
                stats["gravcomp_uniform_checked"] += 1
        rs, rd, rl = F(res2[("rest", "s")]), F(res2[("rest", "d")]), F(res2[("rest", "l")])
        # "all springs at their reference": every tendon inside its springlength deadband too (an explicit springlength
        # may exclude the length at qpos_spring; then the tendon legitimately pulls)
        inband = all(s.tls[2 * i] - 1e-13 <= rl[i] <= s.tls[2 * i + 1] + 1e-13 for i in range(s.ntendon))
        ksc = max([abs(x) for x in s.jk + s.tk] + [1.0])
        if any(x != 0 for x in rd):
            fail("c29:force-at-rest", "at qvel = 0: qfrc_damper = %r" % (rd,), rp)
        elif inband:
            stats["rest_checked"] += 1
            if any(abs(x) > 1e-13 * ksc for x in rs):
                fail("c29:force-at-rest", "at qpos = qpos_spring (tendons inside their deadbands), qvel = 0: qfrc_spring = %r" % (rs,), rp)
    stats["failure_keys"] = failures
    return stats, mism


def probe_negative_damping(exe):
    """does the compiler accept a negative damping coefficient?"""
    desc = ["body 1 0", "name 1 b", "set 1 pos 0 0 1", "joint 2 1", "name 2 j", "set 2 type %d" % JHINGE, "set 2 damping -1",
            "geom 3 1", "set 3 type %d" % E("mjGEOM_SPHERE"), "set 3 size 0.1", "end"]
    inp = "model\n" + "\n".join(desc) + "\ndata 0\nset 0 qvel 1\nforward 0\nnum 0 qfrc_damper\n"
    r = subprocess.run([exe], input=inp, capture_output=True, text=True, timeout=120)
    out = r.stdout.split("\n")
    return {"compiles": bool(out and out[0].startswith("ok")), "qfrc_damper_at_qvel_1": out[4] if len(out) > 4 else None}


def run(ctx):
    quick = ctx.tier != "thorough"
    ctx.rule = ("generated models (free/ball/slide/hinge joints with linear and polynomial stiffness / damping, fixed and spatial tendons with "
                "springlength deadbands, gravcomp, actgravcomp joints; variants plain / nogravity / uniform-gravcomp) at random states; a case is one "
                "(model, dof, quantity) bit comparison; oracle per model: laws, passive sum, dissipation, energy finite differences, gravcomp, rest")
    import time
    T, t0 = {}, [time.time()]

    def lap(nm):
        T[nm] = round(time.time() - t0[0], 1)
        t0[0] = time.time()
        ctx.extra["stage_seconds"] = T
    manifest = kernelval.regen(ctx)
    lap("regen")
    ctx.lean_props(THEOREMS)
    lap("lean_props")
    kernelval.validate(ctx, manifest, KERNELS, 150 if quick else 2000, label="c2lean kernels used by the passive-force model")
    npoly = None
    try:
        import re
        src = open(common.REPO + "/include/mujoco/mjmodel.h").read()
        npoly = int(re.search(r"#define\s+mjNPOLY\s+(\d+)", src).group(1))
    except Exception:
        pass
    ctx.oblige("mjNPOLY == 2 (the specialisation the kernels are translated with)", "translator", npoly == 2, "mjNPOLY = %r" % npoly)
    lap("kernel_validation")
    drv = ctx.driver("drv_c29")
    exe = ctx.harness("harness/c/engine_repl.c", "engine_repl", deps=["harness/mjbuild.h"])
    if drv and exe:
        stats, mism = run_models(ctx, exe, drv, 40 if quick else 600)
        ok = stats["bitwise_bad"] == 0 and stats["bitwise_cases"] > 0
        import json
        ctx.oblige("correspondence Lean passive-force model (Float) vs qfrc_spring / qfrc_damper / qfrc_passive / qfrc_gravcomp of the real engine, bitwise (%d cases)" % stats["bitwise_cases"],
                   "correspondence", ok, json.dumps(mism[:4])[:3000])
        ctx.disagreements += [dict(m, stream="passive") for m in mism[:20]]
        stats["negative_damping_probe"] = probe_negative_damping(exe)
        ctx.extra["passive_oracle"] = stats
        lap("engine_differential_and_oracle")
        ctx.extra["max_float_deviation"] = {"spring_rel": stats["max_dev_spring"], "damper_rel": stats["max_dev_damper"],
                                            "fd_rel": stats["max_fd_dev"], "gravcomp_rel": stats["max_gravcomp_dev"],
                                            "tolerances": {"law": RTOL, "fd": FD_TOL, "gravcomp": 1e-10}}


if __name__ == "__main__":
    common.main(run, "C29")
