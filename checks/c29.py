"""C29  Passive forces follow their physical laws (DESIGN.md §5.C29).

P  lean/MjProof/Props/C29.lean (over the reals, about Model/Passive.lean built on the generated polynomial kernels):
   spring force = -(k x + p0 x^2 + p1 x^3) = -dV/dq of the potential mj_energyPos reports (HasDerivAt; slide/hinge
   and tendon springs incl. the deadband kinks), free-joint translational law, damper / tendon-damper power <= 0 for
   non-negative coefficients, gravity compensation = -gravcomp x weight through any Jacobian column, zero force at rest;
   the GATES are exact: flg_gravcomp (as setFixed derives it from body_gravcomp) is set iff some body has gravcomp > 0,
   and whatever path mj_gravcomp takes (entry test on flg_gravcomp / gravity switch / |gravity|, body skip, has_gravcomp
   in mj_passive) every body receives exactly -gravcomp*mass*gravity (non-negative coefficients; the hypothesis is
   needed: negative_gravcomp_dropped); what mjDSBL_SPRING / mjDSBL_DAMPER switch off.
T  (a) c2lean kernels mju_polyForce (spring / damper variants), mju_polyPotential, mjd_xPolyForce regenerated and
       validated bitwise on every run;
   (b) per-element differential against the REAL engine: model parameters and state are read from mjModel / mjData
       through harness/c/engine_repl.c, fed to drv_c29 (the Lean model on Float, incl. the switches and the gates), and
       the results are compared BITWISE with qfrc_spring / qfrc_damper / qfrc_passive (every dof: joint term, then the
       tendon terms accumulated in tendon order; whether qfrc_gravcomp is added is decided by the Lean gate model) and
       qfrc_gravcomp on the translational dofs of top-level free joints (all-zero when the model says nothing is applied);
   (c) the derived model constants ngravcomp / flg_gravcomp of the real mj_compile and of the real mj_setConst after a
       runtime edit of body_gravcomp (harness/c/c29_gate.c) against the Lean model of setFixed, exactly.
S  property oracle on the engine alone (independent Python recomputation from parameters and state, 1e-12 relative):
   spring / damper laws for all four joint types and tendons under the switches, qfrc_passive = spring + damper
   (+ gravcomp unless actgravcomp), dissipation qvel.qfrc_damper <= 0, finite difference of the reported potential
   energy = -qfrc_spring (gravity off), gravcomp = J^T(-gravcomp m g) via the engine's own applied-force path (compiled
   model and after the runtime edit), END TO END: the change of qfrc_smooth caused by gravcomp (through qfrc_passive or,
   for actgravcomp joints, qfrc_actuator) equals that force, = gravcomp * qfrc_bias at rest for uniform gravcomp, zero
   passive force at rest at the spring reference.  Generated gravcomp placements are structured (only jointless bodies
   welded to moving ones, only jointed, single, only world-fixed, leaves, mixed; the distribution is in the evidence).
"""
import math
import subprocess

from checks import common, kernelval
from gen.enums import E
from gen.models import ModelGen, unit_quat

META = {
    "technique": "hand-written executable Lean model of the per-joint / per-dof / per-tendon / per-body computations of mj_springdamper, mj_gravcomp (with its entry test, body skip and return value), the derivation of ngravcomp / flg_gravcomp in setFixed, the summation and the mjDSBL_SPRING / mjDSBL_DAMPER switches of mj_passive over the law-free number class MjNum, built on c2lean-generated kernels (mju_polyForce for springs and dampers, mju_polyPotential, mju_subQuat, mju_normalize4, mju_norm3; regenerated and validated bitwise each run); Lean 4 proofs over the reals (ring, positivity / nlinarith, HasDerivAt calculus with one-sided derivatives at the deadband ends); bitwise per-dof differential of the Float instance against qfrc_spring / qfrc_damper / qfrc_passive / qfrc_gravcomp of the real mj_forward on generated models and exact comparison of the derived constants ngravcomp / flg_gravcomp of the real mj_compile / mj_setConst; independent property oracle in Python incl. the end-to-end effect of gravity compensation on qfrc_smooth",
    "text": "Proved over the reals for the model (all parameter values and states): the generated kernels are the polynomials k + p0 x + p1 x^2, b + p0|v| + p1|v|^2 and k x^2/2 + p0 x^3/3 + p1 x^4/4; a slide / hinge spring produces -(k x + p0 x^2 + p1 x^3) with x = qpos - springref (-k x for a linear spring), which is minus the derivative of the potential mj_energyPos reports; the same for tendon springs with the springlength deadband at every length including both ends of the deadband; the translational spring of a free joint is -kappa(|dif|) dif; with non-negative coefficients a dof damper and a tendon damper mapped through its Jacobian row deliver non-positive power; the gravity-compensation force is -gravcomp*mass*gravity, so through any Jacobian column it is -gravcomp times gravity's contribution and cancels it exactly for gravcomp = 1; at zero velocity with every spring at its reference and every tendon inside its deadband all modelled passive terms vanish; the tests that decide whether gravity compensation is computed at all are exact for non-negative coefficients (flg_gravcomp is set iff some body - jointed or not - has gravcomp > 0; entry test, body skip and has_gravcomp never drop a non-zero force; a body other than the world with positive gravcomp under non-zero enabled gravity always opens them), mjDSBL_SPRING / mjDSBL_DAMPER alone remove only their own term, both together everything (as documented). Tied to /repo on every run by translation (kernels) and the bitwise per-dof differential against the real engine.",
    "note": "Findings on /repo kept as known (oracle keys): c29:actgravcomp-dropped-without-actuators (an actgravcomp joint in a model without actuators gets no compensation at all), c29:gravcomp-negative-only-dropped (setFixed counts gravcomp > 0, mj_gravcomp applies gravcomp != 0; theorem negative_gravcomp_dropped). Stated over the reals (rounding outside the proofs; the Float instance of the same definitions is compared bitwise with the engine). The flat qfrc arrays are modelled per dof (joint term, then tendon terms in tendon order); the index arithmetic, the tendon Jacobian itself, mj_applyFT (Jacobian of the body COM) and the ball-joint potential gradient are covered by the engine oracle only (finite differences of the reported energy, the engine's applied-force path), not by theorems. Not modelled: flex elasticity, fluid forces, passive contacts, adhesion, plugins / callbacks, sleeping. damper_power_nonpos needs non-negative coefficients: the compiler accepts negative damping (recorded in the evidence), for which the theorem negative_damping_adds_energy shows the damper adds energy; the documentation only says a positive coefficient gives the dissipative force.",
}

P = "MjProof.C29."
THEOREMS = [P + t for t in (
    "polyForce_spring_eq", "polyForce_damper_eq", "polyPotential_spring_eq",
    "spring_force_poly", "spring_force_eq_neg_k_deflection", "spring_force_eq_neg_dV", "free_spring_force",
    "tendon_spring_poly", "tendon_spring_force_eq_neg_dV",
    "damper_force_poly", "damper_power_nonpos", "negative_damping_adds_energy", "tendon_damper_power_nonpos",
    "gravcomp_cancels_fraction", "gravcomp_full_cancels", "rest_zero_passive", "rest_zero_free",
    "flgGravcomp_iff", "ngravcomp_cons", "gravcomp_entry_closed_zero", "gravcomp_gate_exact", "no_gravcomp_only_if_zero",
    "gravcomp_gate_open", "negative_gravcomp_dropped", "gated_enabled", "switches_remove_only_their_term",
)]
KERNELS = ["mju_polyForce_spring", "mju_polyForce_damper", "mju_polyPotential_spring", "mjd_xPolyForce_spring",
           "mjd_xPolyForce_damper", "mju_subQuat", "mju_normalize4", "mju_norm3"]

fbits = kernelval.fbits
frombits = kernelval.frombits
RTOL = 1e-12      # Python recomputation vs engine (observed <= ~1e-15 of the scale)
FD_EPS = 1e-6
FD_TOL = 1e-6     # central difference of the potential vs force, relative to 1 + |f| (observed <= ~1e-9)
JFREE, JBALL, JSLIDE, JHINGE = (E("mjJNT_FREE"), E("mjJNT_BALL"), E("mjJNT_SLIDE"), E("mjJNT_HINGE"))

PROFILE = {"nbody": (1, 5), "actuators": (0, 3), "actuator_kinds": ("motor",), "sensors": (0, 0), "cameras": 0.0, "keys": 0.0, "numeric": 0.0,
           "mocap": 0.05, "contacts": 0.0, "plane": 0.0, "equalities": 0.0, "pairs": 0.0, "excludes": 0.0,
           "stiffness": 0.7, "damping": 0.7, "tendons": 0.8, "gravcomp": 0.5, "sites": 0.9, "free": 0.35, "ball": 0.2,
           "limits": 0.0, "frictionloss": 0.0, "energy": 1.0, "integrators": ("Euler",), "sleep": 0.0}


# ------------------------------------------------------------------------------------------ model generation
PLACEMENTS = ("jointless-moving", "jointless-moving", "jointed", "single", "static-only", "leaf", "mixed")


def gc_value(rng):
    return rng.choice((1.0, 0.5, rng.uniform(0.05, 1.5)))


def choose_placement(rng, nbody, jointed, parent, mode=None):
    """structured choice of the set of bodies that carry gravcomp.  Bodies are 1..nbody-1 (0 = world), `jointed[b]`: the
    body owns joints, `parent[b]`: parent id.  Returns (mode actually used, {body: gravcomp})."""
    moving = [False] * nbody
    for b in range(1, nbody):                      # parents precede children
        moving[b] = jointed[b] or moving[parent[b]]
    haschild = [False] * nbody
    for b in range(1, nbody):
        haschild[parent[b]] = True
    mode = mode or rng.choice(PLACEMENTS)
    bodies = list(range(1, nbody))
    cand = {"jointless-moving": [b for b in bodies if moving[b] and not jointed[b]],
            "jointed": [b for b in bodies if jointed[b]],
            "static-only": [b for b in bodies if not moving[b]],
            "leaf": [b for b in bodies if not haschild[b]],
            "single": bodies, "mixed": bodies}[mode]
    if not cand:
        mode, cand = "single", bodies
    if mode == "single":
        pick = [rng.choice(cand)]
    else:
        pick = [b for b in cand if rng.random() < 0.6] or [rng.choice(cand)]
    return mode, {b: gc_value(rng) for b in pick}


def make_model(ctx, variant, rng=None):
    rng = rng or ctx.rng
    prof = dict(PROFILE)
    if variant == "nogravity":
        prof["gravity"] = 0.0
        prof["gravcomp"] = 0.0
    if variant == "placed":
        # gravity compensation is placed afterwards on a structured subset of the bodies (see choose_placement)
        prof["gravcomp"] = 0.0
        prof["static_body"] = 0.25
        prof["gravity"] = 1.0
    gen = ModelGen(rng, prof)
    mdl = gen.make()
    mdl.placement = None
    if variant == "placed":
        # payload bodies: jointless bodies welded to an existing body (preferably one that moves), possibly nested
        L = mdl.lines.append
        jointed_names = {j["body"] for j in mdl.joints}
        info = [{"handle": 0, "parent": 0, "jointed": False}]
        for b in mdl.bodies:
            info.append({"handle": b["handle"], "parent": b["parent"], "jointed": b["name"] in jointed_names})
        for k in range(rng.choice((1, 1, 2, 3))):
            mov = [False] * len(info)
            for i in range(1, len(info)):
                mov[i] = info[i]["jointed"] or mov[info[i]["parent"]]
            pool = [i for i in range(1, len(info)) if mov[i]]
            pi = rng.choice(pool) if (pool and rng.random() < 0.85) else rng.randrange(1, len(info))
            h = gen.newh()
            name = "p%d" % (k + 1)
            L("body %d %d" % (h, info[pi]["handle"]))
            L("name %d %s" % (h, name))
            L("set %d pos %s" % (h, " ".join(repr(rng.uniform(-0.5, 0.5)) for _ in range(3))))
            if rng.random() < 0.5:
                L("set %d quat %s" % (h, " ".join(repr(x) for x in unit_quat(rng))))
            gen.add_geom(mdl, h, name)
            info.append({"handle": h, "parent": pi, "jointed": False})
        mode, placed = choose_placement(rng, len(info), [x["jointed"] for x in info], [x["parent"] for x in info])
        for b in sorted(placed):
            L("set %d gravcomp %r" % (info[b]["handle"], placed[b]))
        if rng.random() < 0.3:
            L("option gravity %r %r %r" % (rng.uniform(-6, 6), rng.uniform(-6, 6), rng.uniform(-10, 10)))
        mdl.placement = mode
    lines = []
    uniform = rng.choice((1.0, 0.5, 0.3, 1.7)) if variant == "uniform" else None
    for l in mdl.lines:
        t = l.split()
        if len(t) == 4 and t[0] == "set" and t[2] in ("stiffness", "damping") and rng.random() < 0.6:
            # polynomial coefficients (mjNPOLY = 2): non-negative for dampers, any sign (moderate) for springs
            if t[2] == "damping":
                l += " %r %r" % (rng.choice((0.0, rng.uniform(0, 1.0))), rng.choice((0.0, rng.uniform(0, 0.5))))
            else:
                l += " %r %r" % (rng.choice((0.0, rng.uniform(-2, 2))), rng.choice((0.0, rng.uniform(0, 3))))
        if len(t) == 4 and t[0] == "set" and t[2] == "gravcomp" and uniform is not None:
            continue
        if len(t) == 3 and t[0] == "option" and t[1] == "disableflags":
            # the switches of mj_passive / mj_springdamper / mj_gravcomp
            fl = int(t[2])
            r = rng.random()
            if r < 0.10:
                fl |= E("mjDSBL_SPRING")
            elif r < 0.20:
                fl |= E("mjDSBL_DAMPER")
            elif r < 0.25:
                fl |= E("mjDSBL_SPRING") | E("mjDSBL_DAMPER")
            if rng.random() < 0.06:
                fl |= E("mjDSBL_GRAVITY")
            l = "option disableflags %d" % fl
        lines.append(l)
        if t[0] == "tendon" and rng.random() < 0.5:
            lo = rng.uniform(-0.3, 0.3)
            lines.append("set %s springlength %r %r" % (t[1], lo, lo + rng.choice((0.0, rng.uniform(0, 0.4)))))
        if t[0] == "joint" and rng.random() < 0.2:
            lines.append("set %s actgravcomp 1" % t[1])
        if t[0] == "body" and uniform is not None:
            lines.append("set %s gravcomp %r" % (t[1], uniform))
        if t[0] == "actuator" and rng.random() < 0.8:
            # actuator-level damping, inherited by the target joint / tendon (mj_actuatorDamping: times gear^2)
            lines.append("set %s damping %r %r %r" % (t[1], rng.uniform(0, 1.5), rng.choice((0.0, rng.uniform(0, 0.6))), rng.choice((0.0, rng.uniform(0, 0.3)))))
    if mdl.tendons and mdl.actuators:
        # retarget some actuators to a tendon
        out, retarget = [], None
        for l in lines:
            t = l.split()
            if t[0] == "actuator":
                retarget = rng.choice(mdl.tendons)["name"] if rng.random() < 0.35 else None
            if retarget and len(t) >= 4 and t[0] == "set" and t[2] == "trntype":
                l = "set %s trntype %d" % (t[1], E("mjTRN_TENDON"))
            if retarget and len(t) >= 4 and t[0] == "set" and t[2] == "target":
                l = "set %s target %s" % (t[1], retarget)
            out.append(l)
        lines = out
    mdl.lines = lines
    mdl.uniform = uniform
    return mdl


# ------------------------------------------------------------------------------------------ REPL plumbing
class Repl:
    def __init__(self, exe):
        self.exe, self.cmds, self.tags = exe, [], []

    def cmd(self, c, tag=None):
        self.cmds.append(c)
        self.tags.append(tag)

    def run(self):
        r = subprocess.run([self.exe], input="\n".join(self.cmds) + "\n", capture_output=True, text=True, timeout=1800)
        out = r.stdout.split("\n")
        if out and out[-1] == "":
            out.pop()
        res = {}
        for tg, o in zip(self.tags, out):
            if tg is not None:
                res[tg] = o
        return r.returncode, out, res, r.stderr


def toks(line):
    return line.split(":", 1)[1].split() if ":" in line else None


def F(line):
    return [frombits(x) for x in toks(line)]


def I(line):
    return [int(x) for x in toks(line)]


MODEL_FIELDS = ("jnt_type", "jnt_qposadr", "jnt_dofadr", "jnt_bodyid", "jnt_stiffness", "jnt_stiffnesspoly", "qpos_spring",
                "dof_damping", "dof_dampingpoly", "dof_jntid", "dof_bodyid", "jnt_actgravcomp", "jnt_actuatorid", "tendon_stiffness",
                "tendon_stiffnesspoly", "tendon_damping", "tendon_dampingpoly", "tendon_lengthspring", "tendon_actuatorid",
                "actuator_damping", "actuator_dampingpoly", "actuator_gear", "actuator_outadr", "actuator_trnid", "actuator_trntype",
                "ten_J_rownnz", "ten_J_rowadr", "ten_J_colind", "body_mass", "body_gravcomp", "body_parentid", "opt.gravity",
                "opt.disableflags", "opt.enableflags", "qpos0", "jnt_actfrclimited")
DATA_FIELDS = ("qpos", "qvel", "qfrc_spring", "qfrc_damper", "qfrc_gravcomp", "qfrc_passive", "qfrc_bias", "qfrc_smooth",
               "ten_length", "ten_velocity", "ten_J", "energy", "xipos")


def fmtv(v):
    return " ".join(repr(float(x)) for x in v)


# ------------------------------------------------------------------------------------------ quaternion helpers (oracle)
def qmul(a, b):
    return [a[0] * b[0] - a[1] * b[1] - a[2] * b[2] - a[3] * b[3],
            a[0] * b[1] + a[1] * b[0] + a[2] * b[3] - a[3] * b[2],
            a[0] * b[2] - a[1] * b[3] + a[2] * b[0] + a[3] * b[1],
            a[0] * b[3] + a[1] * b[2] - a[2] * b[1] + a[3] * b[0]]


def qnormalize(q):
    n = math.sqrt(sum(x * x for x in q))
    return [x / n for x in q] if n > 1e-15 else [1.0, 0.0, 0.0, 0.0]


def sub_quat(qa, qb):
    """3-vector v with qb * exp(v) = qa (log map of qb^-1 qa), as mju_subQuat documents"""
    d = qmul([qb[0], -qb[1], -qb[2], -qb[3]], qa)
    s = math.sqrt(d[1] * d[1] + d[2] * d[2] + d[3] * d[3])
    if s < 1e-15:
        return [0.0, 0.0, 0.0]
    ang = 2 * math.atan2(s, d[0])
    if ang > math.pi:
        ang -= 2 * math.pi
    return [d[1] / s * ang, d[2] / s * ang, d[3] / s * ang]


def qexp(v):
    a = math.sqrt(sum(x * x for x in v))
    if a < 1e-300:
        return [1.0, 0.0, 0.0, 0.0]
    s = math.sin(a / 2) / a
    return [math.cos(a / 2), v[0] * s, v[1] * s, v[2] * s]


def poly_spring(k, p, x):
    return k + p[0] * x + p[1] * x * x


def poly_damper(b, p, v):
    a = abs(v)
    return b + p[0] * a + p[1] * a * a


def poly_pot(k, p, x):
    return 0.5 * k * x * x + p[0] / 3 * x ** 3 + p[1] / 4 * x ** 4


class Snapshot:
    """model constants + one forward pass, parsed"""

    def __init__(self, res, key):
        self.raw = {f: res[("m", f)] for f in MODEL_FIELDS}
        self.raw.update({f: res[(key, f)] for f in DATA_FIELDS})
        g = lambda f: F(self.raw[f])
        gi = lambda f: I(self.raw[f])
        self.jtype, self.jqadr, self.jdadr = gi("jnt_type"), gi("jnt_qposadr"), gi("jnt_dofadr")
        self.jk, self.jpoly, self.qspring = g("jnt_stiffness"), g("jnt_stiffnesspoly"), g("qpos_spring")
        self.db, self.dpoly, self.djnt = g("dof_damping"), g("dof_dampingpoly"), gi("dof_jntid")
        self.actgc, self.jact = gi("jnt_actgravcomp"), gi("jnt_actuatorid")
        self.tk, self.tkpoly, self.tb, self.tbpoly = g("tendon_stiffness"), g("tendon_stiffnesspoly"), g("tendon_damping"), g("tendon_dampingpoly")
        self.tls, self.tact = g("tendon_lengthspring"), gi("tendon_actuatorid")
        self.rownnz, self.rowadr, self.colind = gi("ten_J_rownnz"), gi("ten_J_rowadr"), gi("ten_J_colind")
        self.mass, self.gc, self.parent = g("body_mass"), g("body_gravcomp"), gi("body_parentid")
        self.grav = g("opt.gravity")
        self.dflags, self.eflags = gi("opt.disableflags")[0], gi("opt.enableflags")[0]
        self.dS, self.dD = bool(self.dflags & E("mjDSBL_SPRING")), bool(self.dflags & E("mjDSBL_DAMPER"))
        self.dG, self.dA = bool(self.dflags & E("mjDSBL_GRAVITY")), bool(self.dflags & E("mjDSBL_ACTUATION"))
        self.actfrclimited = gi("jnt_actfrclimited")
        self.qpos, self.qvel = g("qpos"), g("qvel")
        self.fs, self.fd, self.fg, self.fp = g("qfrc_spring"), g("qfrc_damper"), g("qfrc_gravcomp"), g("qfrc_passive")
        self.bias, self.smooth = g("qfrc_bias"), g("qfrc_smooth")
        self.tlen, self.tvel, self.tJ = g("ten_length"), g("ten_velocity"), g("ten_J")
        self.energy = g("energy")
        self.nv, self.ntendon, self.njnt, self.nbody = len(self.qvel), len(self.tk), len(self.jtype), len(self.mass)
        self.jbody = gi("jnt_bodyid")
        self.ad, self.adpoly, self.gear = g("actuator_damping"), g("actuator_dampingpoly"), g("actuator_gear")
        self.outadr, self.trnid, self.trntype = gi("actuator_outadr"), gi("actuator_trnid"), gi("actuator_trntype")
        self.nact = len(self.ad)

    def contributors(self, kind, ident):
        """(mode, [actuator ids]) as mj_actuatorDamping selects them for joint / tendon `ident`"""
        aid = self.jact[ident] if kind == "joint" else self.tact[ident]
        if aid == -1:
            return 0, []
        if aid >= 0:
            return 1, [aid]
        ok = (E("mjTRN_JOINT"), E("mjTRN_JOINTINPARENT")) if kind == "joint" else (E("mjTRN_TENDON"),)
        return 2, [k for k in range(self.nact) if self.trnid[2 * k] == ident and self.trntype[k] in ok]

    def eff_damping(self, kind, ident, b, p):
        """documented rule: own damping + sum over attached actuators of damping * gear^2 (same for the polynomial part)"""
        mode, acts = self.contributors(kind, ident)
        p = list(p)
        for k in acts:
            g2 = self.gear[6 * self.outadr[k]] ** 2
            b += self.ad[k] * g2
            p[0] += self.adpoly[2 * k] * g2
            p[1] += self.adpoly[2 * k + 1] * g2
        return b, p

    def effdamp_line(self, kind, ident, b, p0, p1):
        mode, acts = self.contributors(kind, ident)
        adb, apb, gb = self.bits("actuator_damping"), self.bits("actuator_dampingpoly"), self.bits("actuator_gear")
        return "effdamp %s %s %s %d %d%s" % (b, p0, p1, mode, len(acts), "".join(
            " %s %s %s %s" % (adb[k], apb[2 * k], apb[2 * k + 1], gb[6 * self.outadr[k]]) for k in acts))

    def bits(self, f):
        return toks(self.raw[f])

    def flagbits(self):
        return "%d %d" % (self.dS, self.dD)

    def gravity_on(self):
        return (not self.dG) and any(x != 0 for x in self.grav)

    def has_gravcomp(self, gc=None):
        """oracle side (independent of the engine's derived constants and of the Lean model): gravity acts, mj_passive is
        not switched off as a whole (documented: both mjDSBL_SPRING and mjDSBL_DAMPER disable ALL passive forces) and some
        body other than the world has a non-zero coefficient"""
        gc = self.gc if gc is None else gc
        return self.gravity_on() and not (self.dS and self.dD) and any(gc[b] != 0 for b in range(1, self.nbody))

    def jointed(self):
        out = [False] * self.nbody
        for b in self.jbody:
            out[b] = True
        return out

    def gc_class(self, gc=None):
        """where the compensated bodies sit: used for the input-distribution record"""
        gc = self.gc if gc is None else gc
        jointed, moving = self.jointed(), [False] * self.nbody
        for b in range(1, self.nbody):
            moving[b] = jointed[b] or moving[self.parent[b]]
        cb = [b for b in range(1, self.nbody) if gc[b] != 0]
        if not cb:
            return "none"
        if all(not moving[b] for b in cb):
            return "static-only"
        if all(not jointed[b] for b in cb):
            return "jointless-only(some moving)"
        if all(jointed[b] for b in cb):
            return "jointed-only"
        return "jointed+jointless"

    def tendon_terms(self):
        """per tendon: (x, fs, fd) recomputed in Python, or None if the engine skips it"""
        out = []
        for i in range(self.ntendon):
            k, kp = self.tk[i], self.tkpoly[2 * i:2 * i + 2]
            b, bp = self.eff_damping("tendon", i, self.tb[i], self.tbpoly[2 * i:2 * i + 2])
            L, lo, hi, v = self.tlen[i], self.tls[2 * i], self.tls[2 * i + 1], self.tvel[i]
            x = L - hi if L > hi else (L - lo if L < lo else 0.0)
            out.append((x, 0.0 if self.dS else -x * poly_spring(k, kp, x), 0.0 if self.dD else -v * poly_damper(b, bp, v)))
        return out

    def expected(self):
        """independent recomputation of qfrc_spring, qfrc_damper from the documented laws"""
        fs, fd = [0.0] * self.nv, [0.0] * self.nv
        if self.dS and self.dD:
            return fs, fd           # documented: both switches set disable all passive forces
        for j in range(self.njnt if not self.dS else 0):
            k, p = self.jk[j], self.jpoly[2 * j:2 * j + 2]
            qa, da, t = self.jqadr[j], self.jdadr[j], self.jtype[j]
            if t in (JSLIDE, JHINGE):
                x = self.qpos[qa] - self.qspring[qa]
                fs[da] = -x * poly_spring(k, p, x)
            else:
                if t == JFREE:
                    dif = [self.qpos[qa + i] - self.qspring[qa + i] for i in range(3)]
                    r = math.sqrt(sum(x * x for x in dif))
                    kk = poly_spring(k, p, r)
                    for i in range(3):
                        fs[da + i] = -kk * dif[i]
                    qa, da = qa + 3, da + 3
                q = qnormalize(self.qpos[qa:qa + 4])
                dif = sub_quat(q, self.qspring[qa:qa + 4])
                r = math.sqrt(sum(x * x for x in dif))
                kk = poly_spring(k, p, r)
                for i in range(3):
                    fs[da + i] = -kk * dif[i]
        for i in range(self.nv if not self.dD else 0):
            v = self.qvel[i]
            b, bp = self.eff_damping("joint", self.djnt[i], self.db[i], self.dpoly[2 * i:2 * i + 2])
            fd[i] = -v * poly_damper(b, bp, v)
        for i, (x, f_s, f_d) in enumerate(self.tendon_terms()):
            for a in range(self.rowadr[i], self.rowadr[i] + self.rownnz[i]):
                fs[self.colind[a]] += self.tJ[a] * f_s
                fd[self.colind[a]] += self.tJ[a] * f_d
        return fs, fd

    def potential(self):
        """spring potential from the documented law (for models without gravity: equals energy[0])"""
        e = 0.0
        if self.dS:
            return e                # mj_energyPos leaves the spring terms out with mjDSBL_SPRING
        for j in range(self.njnt):
            k, p = self.jk[j], self.jpoly[2 * j:2 * j + 2]
            qa, t = self.jqadr[j], self.jtype[j]
            if t in (JSLIDE, JHINGE):
                e += poly_pot(k, p, self.qpos[qa] - self.qspring[qa])
            else:
                if t == JFREE:
                    e += poly_pot(k, p, math.sqrt(sum((self.qpos[qa + i] - self.qspring[qa + i]) ** 2 for i in range(3))))
                    qa += 3
                dif = sub_quat(qnormalize(self.qpos[qa:qa + 4]), self.qspring[qa:qa + 4])
                e += poly_pot(k, p, math.sqrt(sum(x * x for x in dif)))
        for i, (x, _, _) in enumerate(self.tendon_terms()):
            e += poly_pot(self.tk[i], self.tkpoly[2 * i:2 * i + 2], x)
        return e


def perturb(snap, dof, eps):
    """qpos moved by eps along dof `dof` (tangent space: right-multiplication for quaternions)"""
    q = list(snap.qpos)
    j = snap.djnt[dof]
    t, qa, da = snap.jtype[j], snap.jqadr[j], snap.jdadr[j]
    k = dof - da
    if t in (JSLIDE, JHINGE):
        q[qa] += eps
    elif t == JFREE and k < 3:
        q[qa + k] += eps
    else:
        if t == JFREE:
            qa, k = qa + 3, k - 3
        v = [0.0, 0.0, 0.0]
        v[k] = eps
        q[qa:qa + 4] = qmul(q[qa:qa + 4], qexp(v))
    return q


# ------------------------------------------------------------------------------------------ Lean lines per snapshot
def lean_lines_pass0(s):
    """effective damping coefficients (own + actuator contribution) of every dof and tendon"""
    db, dp = s.bits("dof_damping"), s.bits("dof_dampingpoly")
    tb, tbp = s.bits("tendon_damping"), s.bits("tendon_dampingpoly")
    lines = [s.effdamp_line("joint", s.djnt[i], db[i], dp[2 * i], dp[2 * i + 1]) for i in range(s.nv)]
    lines += [s.effdamp_line("tendon", i, tb[i], tbp[2 * i], tbp[2 * i + 1]) for i in range(s.ntendon)]
    return lines


def lean_lines_pass1(s, eff):
    """element ops; returns (lines, index) where index maps a tag to the line number; `eff`: outputs of pass 0"""
    lines, idx = [], {}

    def add(tag, l):
        idx[tag] = len(lines)
        lines.append(l)

    qb, qsb, vb = s.bits("qpos"), s.bits("qpos_spring"), s.bits("qvel")
    jk, jp = s.bits("jnt_stiffness"), s.bits("jnt_stiffnesspoly")
    fl = s.flagbits()          # the switches mjDSBL_SPRING / mjDSBL_DAMPER: the gated definitions of the Lean model decide
    for j in range(s.njnt):
        t, qa = s.jtype[j], s.jqadr[j]
        kp = "%s %s %s" % (jk[j], jp[2 * j], jp[2 * j + 1])
        if t in (JSLIDE, JHINGE):
            add(("js", j), "g:jspring %s %s %s %s" % (fl, kp, qb[qa], qsb[qa]))
        else:
            if t == JFREE:
                add(("jl", j), "g:freelin %s %s %s %s" % (fl, kp, " ".join(qb[qa:qa + 3]), " ".join(qsb[qa:qa + 3])))
                qa += 3
            add(("jb", j), "g:ball %s %s %s %s" % (fl, kp, " ".join(qb[qa:qa + 4]), " ".join(qsb[qa:qa + 4])))
    for i in range(s.nv):
        add(("dd", i), "g:damper %s %s %s" % (fl, eff[i], vb[i]))
    tk, tkp = s.bits("tendon_stiffness"), s.bits("tendon_stiffnesspoly")
    tl, tls, tv = s.bits("ten_length"), s.bits("tendon_lengthspring"), s.bits("ten_velocity")
    for i in range(s.ntendon):
        add(("tt", i), "g:tendon %s %s %s %s %s %s %s %s %s" % (fl, tk[i], tkp[2 * i], tkp[2 * i + 1], eff[s.nv + i],
                                                             tl[i], tls[2 * i], tls[2 * i + 1], tv[i]))
    # the gates of gravity compensation: flg_gravcomp as setFixed derives it from body_gravcomp, the entry test and the
    # body loop of mj_gravcomp, has_gravcomp of mj_passive — all decided by the Lean model from the model constants
    add(("gc",), gcstage_line(s, s.bits("body_gravcomp")))
    add(("gf",), gcflags_line(s.bits("body_gravcomp")))
    return lines, idx


def gcstage_line(s, gcbits):
    mb = s.bits("body_mass")
    return "gcstage %s %d %s %d%s" % (s.flagbits(), s.dG, " ".join(s.bits("opt.gravity")), s.nbody,
                                      "".join(" %s %s" % (mb[b], gcbits[b]) for b in range(s.nbody)))


def gcflags_line(gcbits):
    return "gcflags %d %s" % (len(gcbits), " ".join(gcbits))


def parse_gcstage(out, nbody):
    """-> (passiveHas, entry, has, [per body 1..: None | [fx, fy, fz] bit strings])"""
    t = out.split()
    forces, i = [], 3
    while i < len(t):
        if t[i] == "none":
            forces.append(None)
            i += 1
        else:
            forces.append(t[i:i + 3])
            i += 3
    if len(forces) != nbody - 1:
        raise common.Infra("drv_c29 gcstage: %d forces for %d bodies" % (len(forces), nbody))
    return t[0] == "1", t[1] == "1", t[2] == "1", forces


def lean_lines_pass2(s, out1, idx, flags_impl=None):
    """accumulation + summation ops built from the Lean outputs of pass 1; returns [(line, engine value bits, what)]"""
    zero = fbits(0.0)
    base_s, base_d = [zero] * s.nv, [zero] * s.nv
    for j in range(s.njnt):
        t, da = s.jtype[j], s.jdadr[j]
        if t in (JSLIDE, JHINGE):
            base_s[da] = out1[idx[("js", j)]]
        else:
            if t == JFREE:
                base_s[da:da + 3] = out1[idx[("jl", j)]].split()
                da += 3
            base_s[da:da + 3] = out1[idx[("jb", j)]].split()
    for i in range(s.nv):
        base_d[i] = out1[idx[("dd", i)]]
    terms_s, terms_d = [[] for _ in range(s.nv)], [[] for _ in range(s.nv)]
    Jb = s.bits("ten_J")
    for i in range(s.ntendon):
        o = out1[idx[("tt", i)]]
        if o == "none":
            continue
        f_s, f_d = o.split()
        for a in range(s.rowadr[i], s.rowadr[i] + s.rownnz[i]):
            terms_s[s.colind[a]] += [Jb[a], f_s]
            terms_d[s.colind[a]] += [Jb[a], f_d]
    cases = []
    es, ed, eg, ep = s.bits("qfrc_spring"), s.bits("qfrc_damper"), s.bits("qfrc_gravcomp"), s.bits("qfrc_passive")
    passive_has, entry, has, gforces = parse_gcstage(out1[idx[("gc",)]], s.nbody)
    fl = s.flagbits()
    # the model constants ngravcomp / flg_gravcomp of the compiled model (read by harness/c/c29_gate.c)
    if flags_impl is not None:
        cases.append((gcflags_line(s.bits("body_gravcomp")), flags_impl, "m->ngravcomp m->flg_gravcomp after mj_compile", out1[idx[("gf",)]]))
    for i in range(s.nv):
        cases.append(("accum %s %d%s" % (base_s[i], len(terms_s[i]) // 2, "".join(" " + x for x in terms_s[i])), es[i], "qfrc_spring[%d]" % i))
        cases.append(("accum %s %d%s" % (base_d[i], len(terms_d[i]) // 2, "".join(" " + x for x in terms_d[i])), ed[i], "qfrc_damper[%d]" % i))
        g = (" " + eg[i]) if (passive_has and not s.actgc[s.djnt[i]]) else ""
        cases.append(("g:psum %s %s %s%s" % (fl, es[i], ed[i], g), ep[i], "qfrc_passive[%d]" % i))
    if not passive_has:
        # the Lean model says mj_gravcomp applies nothing: the vector keeps the +0.0 it was cleared to
        cases.append((gcstage_line(s, s.bits("body_gravcomp")), " ".join(eg), "qfrc_gravcomp (has_gravcomp = 0 in the model: stays cleared)",
                      " ".join([fbits(0.0)] * s.nv)))
    # gravity compensation on the translational dofs of top-level free joints: J = identity there, so the entry is the
    # sum of the compensation forces of the bodies of that subtree, in body order
    hg = passive_has
    if hg:
        gb, mb, cb = s.bits("opt.gravity"), s.bits("body_mass"), s.bits("body_gravcomp")
        for j in range(s.njnt):
            if s.jtype[j] != JFREE or s.parent[s.jbody[j]] != 0:
                continue
            root = s.jbody[j]
            sub = []
            for b in range(1, s.nbody):
                a = b
                while a != 0 and a != root:
                    a = s.parent[a]
                if a == root and gforces[b - 1] is not None:     # bodies the Lean body loop applies a force to
                    sub.append(b)
            if not sub:
                continue
            da = s.jdadr[j]
            cases.append(("gravsum %s %d%s" % (" ".join(gb), len(sub), "".join(" %s %s" % (mb[b], cb[b]) for b in sub)),
                          " ".join(eg[da:da + 3]), "qfrc_gravcomp[%d..%d] (free joint %d)" % (da, da + 2, j)))
    return cases


# ------------------------------------------------------------------------------------------ the oracle
def close(a, b, scale, tol=RTOL):
    return abs(a - b) <= tol * (scale + 1e-300) + 1e-300 or (a != a and b != b)


def oracle_snapshot(s, fail, rp, stats):
    es, ed = s.expected()
    sc_s = max([abs(x) for x in es + s.fs] + [1e-9])
    sc_d = max([abs(x) for x in ed + s.fd] + [1e-9])
    for i in range(s.nv):
        dev = abs(es[i] - s.fs[i]) / sc_s
        stats["max_dev_spring"] = max(stats["max_dev_spring"], dev)
        if not close(es[i], s.fs[i], sc_s):
            fail("c29:spring-law", "qfrc_spring[%d] = %r, documented law gives %r" % (i, s.fs[i], es[i]), dict(rp, dof=i))
            return
        dev = abs(ed[i] - s.fd[i]) / sc_d
        stats["max_dev_damper"] = max(stats["max_dev_damper"], dev)
        if not close(ed[i], s.fd[i], sc_d):
            fail("c29:damper-law", "qfrc_damper[%d] = %r, documented law gives %r" % (i, s.fd[i], ed[i]), dict(rp, dof=i))
            return
    hg = s.has_gravcomp()
    for i in range(s.nv):
        e = s.fs[i] + s.fd[i]
        if hg and not s.actgc[s.djnt[i]]:
            e += s.fg[i]
        if not close(e, s.fp[i], abs(e) + abs(s.fs[i]) + abs(s.fd[i]) + abs(s.fg[i])):
            fail("c29:passive-sum", "qfrc_passive[%d] = %r but spring + damper (+ gravcomp) = %r" % (i, s.fp[i], e), dict(rp, dof=i))
            return
    # dissipation (generated damping coefficients are non-negative)
    terms = [s.qvel[i] * s.fd[i] for i in range(s.nv)]
    pw, sc = sum(terms), sum(abs(t) for t in terms)
    stats["dissipation_checked"] += 1
    if pw > 1e-12 * sc + 1e-300:
        fail("c29:damper-adds-energy", "qvel . qfrc_damper = %r > 0 (scale %r)" % (pw, sc), rp)
        return
    if not hg and any(x != 0 for x in s.fg):
        fail("c29:gravcomp-without-gravity", "qfrc_gravcomp non-zero although gravity compensation is off", rp)


class LeanDrv:
    """one drv_c29 process for the whole run (the driver answers and flushes line by line)"""

    def __init__(self, exe):
        self.p = subprocess.Popen([exe], stdin=subprocess.PIPE, stdout=subprocess.PIPE, stderr=subprocess.DEVNULL, text=True, bufsize=1)
        self.lines = 0

    def call(self, lines):
        out = []
        for l in lines:
            try:
                self.p.stdin.write(l + "\n")
                self.p.stdin.flush()
                o = self.p.stdout.readline()
            except (BrokenPipeError, OSError) as e:
                raise common.Infra("drv_c29 died: %r" % (e,))
            if not o.endswith("\n"):
                raise common.Infra("drv_c29 stopped answering (rc=%r) at %r" % (self.p.poll(), l[:200]))
            o = o[:-1]
            if o == "bad-op":
                raise common.Infra("drv_c29 rejected %r" % l[:300])
            out.append(o)
        self.lines += len(lines)
        return out

    def close(self):
        try:
            self.p.stdin.close()
            self.p.wait(timeout=30)
        except Exception:
            self.p.kill()


KEY_ACTGC = "c29:actgravcomp-dropped-without-actuators"
KEY_NEGGC = "c29:gravcomp-negative-only-dropped"


def gate_experiments(gate_exe, text, s, st, rng, fail, rp, stats):
    """harness/c/c29_gate.c on one model: the model constants ngravcomp / flg_gravcomp after mj_compile and after a
    runtime edit of body_gravcomp followed by mj_setConst, and the END-TO-END clause of the property: the generalized
    force that gravity compensation adds to the dynamics (qfrc_smooth with the model's gravcomp minus qfrc_smooth with
    gravcomp = 0, i.e. through qfrc_passive or, for actgravcomp joints, qfrc_actuator) equals J^T(-gravcomp m g) as the
    engine's own applied-force path computes it (xfrc_applied at the body COMs).
    Returns {"flags0", "flags1", "gc1", "G1"} for the tie with the Lean model, or None if the harness failed."""
    zeros_b = [0.0] * s.nbody
    # runtime edit: a fresh structured placement on the compiled body ids
    mode1, placed = choose_placement(rng, s.nbody, s.jointed(), s.parent)
    if rng.random() < 0.15:
        mode1, placed = "none", {}
    gc1 = [placed.get(b, 0.0) for b in range(s.nbody)]

    def law(gc):
        xf = [0.0] * (6 * s.nbody)
        for b in range(1, s.nbody):
            for i in range(3):
                xf[6 * b + i] = -gc[b] * s.mass[b] * s.grav[i]
        return xf

    cmds, tags = [], []

    def C(c, tag=None):
        cmds.append(c)
        tags.append(tag)

    def setstate():
        C("set qpos " + fmtv(st["qpos"]))
        C("set qvel " + fmtv(st["qvel"]))

    def triple(gc, k):
        setstate()
        C("forward")
        C("get qfrc_smooth", ("A", k))
        C("get qfrc_gravcomp", ("G", k))
        C("setgc " + fmtv(zeros_b))
        C("forward")
        C("get qfrc_smooth", ("B", k))
        C("set xfrc_applied " + fmtv(law(gc)))
        C("forward")
        C("get qfrc_smooth", ("C", k))
        C("set xfrc_applied " + fmtv([0.0] * (6 * s.nbody)))

    C("flags", "flags0")
    triple(s.gc, 0)
    C("setgc " + fmtv(gc1))
    C("setconst")
    C("flags", "flags1")
    C("get body_gravcomp", "gc1")
    triple(gc1, 1)
    inp = "model\n" + text.rstrip("\n") + "\n" + "\n".join(cmds) + "\n"
    r = subprocess.run([gate_exe], input=inp, capture_output=True, text=True, timeout=600)
    out = r.stdout.split("\n")
    if out and out[-1] == "":
        out.pop()
    rpg = dict(rp, gate_commands=cmds, how_gate="feed `model` + description + `end`, then gate_commands, to harness/c/c29_gate.c "
                                               "(setgc writes body_gravcomp, setconst calls mj_setConst)")
    if r.returncode != 0 or len(out) != len(cmds) + 1 or not out[0].startswith("ok"):
        fail("c29:engine-crash", "harness c29_gate failed (rc=%s, %d answers for %d commands): %s %s" % (r.returncode, len(out), len(cmds) + 1, out[:1], r.stderr[-300:]), rpg)
        return None
    res = {tg: o for tg, o in zip(tags, out[1:]) if tg is not None}
    if any(o.startswith("error") or o == "bad-op" for o in out[1:]):
        fail("c29:engine-crash", "harness c29_gate: %s" % [o for o in out[1:] if o.startswith("error") or o == "bad-op"][:2], rpg)
        return None
    limited_dofs = {i for i in range(s.nv) if s.actfrclimited[s.djnt[i]]}
    for k, gc, label in ((0, s.gc, "compiled model"), (1, gc1, "after body_gravcomp := %r and mj_setConst" % (gc1,))):
        A, B, Cc, G = F(res[("A", k)]), F(res[("B", k)]), F(res[("C", k)]), F(res[("G", k)])
        on = s.has_gravcomp(gc)
        sc = max([abs(x) for x in A + B + Cc] + [1e-9])
        cls = s.gc_class(gc)
        stats["gravcomp_placement_classes"][cls] = stats["gravcomp_placement_classes"].get(cls, 0) + 1
        stats["gravcomp_endtoend_checked"] += 1
        actgc_reported = False
        for i in range(s.nv):
            want = (Cc[i] - B[i]) if on else 0.0
            # (1) the qfrc_gravcomp vector itself
            dev = abs(G[i] - want) / sc
            stats["max_gravcomp_dev"] = max(stats["max_gravcomp_dev"], dev)
            if dev > 1e-10:
                fail("c29:gravcomp-law", "%s (compensated bodies: %s): qfrc_gravcomp[%d] = %r but applying -gravcomp*m*g at the body COMs gives %r"
                     % (label, cls, i, G[i], want), dict(rpg, dof=i, experiment=k))
                break
            # (2) what reaches the dynamics
            if i in limited_dofs:
                continue
            got = A[i] - B[i]
            dev = abs(got - want) / sc
            if dev <= 1e-10:
                stats["max_endtoend_dev"] = max(stats["max_endtoend_dev"], dev)
                continue
            j = s.djnt[i]
            if s.actgc[j] and (s.nact == 0 or s.dA):
                # recorded finding; the other dofs of the model are still checked
                if not actgc_reported:
                    actgc_reported = True
                    fail(KEY_ACTGC, "%s: joint %d has actgravcomp and the model has %s: dof %d receives %r from gravity compensation instead of %r "
                         "(neither qfrc_passive nor qfrc_actuator carries qfrc_gravcomp)" % (label, j, "no actuators" if s.nact == 0 else "mjDSBL_ACTUATION", i, got, want),
                         dict(rpg, dof=i, experiment=k))
                continue
            fail("c29:gravcomp-not-cancelling", "%s (compensated bodies: %s): gravity compensation changes qfrc_smooth[%d] by %r, the compensated "
                 "fraction of gravity is %r" % (label, cls, i, got, want), dict(rpg, dof=i, experiment=k))
            break
    stats["runtime_edit_modes"][mode1] = stats["runtime_edit_modes"].get(mode1, 0) + 1
    return {"flags0": res["flags0"], "flags1": res["flags1"], "gc1": toks(res["gc1"]), "G1": toks(res[("G", 1)])}


def new_stats():
    return {"models": 0, "snapshots": 0, "bitwise_cases": 0, "bitwise_bad": 0, "max_dev_spring": 0.0, "max_dev_damper": 0.0,
            "dissipation_checked": 0, "fd_checked": 0, "max_fd_dev": 0.0, "gravcomp_xfrc_checked": 0, "max_gravcomp_dev": 0.0,
            "gravcomp_uniform_checked": 0, "rest_checked": 0, "joint_types": {}, "tendons": 0, "poly_models": 0, "variants": {},
            "actuator_damping_modes": {}, "gravcomp_endtoend_checked": 0, "max_endtoend_dev": 0.0, "gravcomp_placement_classes": {},
            "runtime_edit_modes": {}, "placement_modes": {}, "switches": {}, "actgravcomp_joints": 0}


def run_models(ctx, exe, gate_exe, drv_exe, nmodels):
    stats = new_stats()
    failures = {}
    mism = []
    drv = LeanDrv(drv_exe)

    def fail(key, what, replay):
        failures[key] = failures.get(key, 0) + 1
        if failures[key] <= 3:
            ctx.oracle_failure(key, what, replay)

    for mi in range(nmodels):
        variant = ("plain", "nogravity", "uniform", "placed", "nogravity", "placed")[mi % 6]
        mdl = make_model(ctx, variant)
        if mdl.nv == 0:
            continue
        rng = ctx.rng
        st = mdl.random_state(rng)
        text = mdl.text()
        R = Repl(exe)
        R.cmd("model\n" + text.rstrip("\n"), "model")
        for f in MODEL_FIELDS:
            R.cmd("getm " + f, ("m", f))
        R.cmd("data 0")
        R.cmd("set 0 qpos " + fmtv(st["qpos"]))
        R.cmd("set 0 qvel " + fmtv(st["qvel"]))
        R.cmd("forward 0", "fwd")
        for f in DATA_FIELDS:
            R.cmd("get 0 " + f, ("s0", f))
        rc, out, res, err = R.run()
        rp = {"model": text, "qpos": st["qpos"], "qvel": st["qvel"], "variant": variant,
              "how": "feed `model` + description, then `data 0`, `set 0 qpos ...`, `set 0 qvel ...`, `forward 0`, `num 0 qfrc_spring` ... to harness/c/engine_repl.c"}
        if rc != 0 or len(out) != len(R.cmds):
            fail("c29:engine-crash", "engine REPL crashed (rc=%s): %s" % (rc, err[-300:]), rp)
            continue
        if not res["model"].startswith("ok") or res["fwd"].startswith("error"):
            continue
        s = Snapshot(res, "s0")
        stats["models"] += 1
        stats["snapshots"] += 1
        stats["variants"][variant] = stats["variants"].get(variant, 0) + 1
        if mdl.placement:
            stats["placement_modes"][mdl.placement] = stats["placement_modes"].get(mdl.placement, 0) + 1
        sw = "".join(c for c, on in (("S", s.dS), ("D", s.dD), ("G", s.dG)) if on) or "-"
        stats["switches"][sw] = stats["switches"].get(sw, 0) + 1
        stats["actgravcomp_joints"] += sum(1 for x in s.actgc if x)
        stats["tendons"] += s.ntendon
        for t in s.jtype:
            stats["joint_types"][str(t)] = stats["joint_types"].get(str(t), 0) + 1
        for kind, n in (("joint", s.njnt), ("tendon", s.ntendon)):
            for ident in range(n):
                mode = "%s:%d" % (kind, s.contributors(kind, ident)[0])
                stats["actuator_damping_modes"][mode] = stats["actuator_damping_modes"].get(mode, 0) + 1
        if any(x != 0 for x in s.jpoly + s.dpoly + s.tkpoly + s.tbpoly):
            stats["poly_models"] += 1
        # ---- gates of gravity compensation on the real code (model constants, runtime edit, end-to-end clause)
        gate = gate_experiments(gate_exe, text, s, st, rng, fail, rp, stats) if gate_exe else None
        # ---- T: bitwise per-dof differential against the Lean model
        o0 = drv.call(lean_lines_pass0(s))
        l1, idx = lean_lines_pass1(s, o0)
        o1 = drv.call(l1)
        cases = lean_lines_pass2(s, o1, idx, gate["flags0"] if gate else None)
        if gate:
            cases.append((gcflags_line(gate["gc1"]), gate["flags1"], "m->ngravcomp m->flg_gravcomp after a runtime edit of body_gravcomp and mj_setConst", None))
            ph1 = parse_gcstage(drv.call([gcstage_line(s, gate["gc1"])])[0], s.nbody)[0]
            if not ph1:
                cases.append((gcstage_line(s, gate["gc1"]), " ".join(gate["G1"]), "qfrc_gravcomp after the runtime edit (has_gravcomp = 0 in the model: stays cleared)",
                              " ".join([fbits(0.0)] * s.nv)))
        send = [c[0] for c in cases if len(c) == 3 or c[3] is None]
        o2 = iter(drv.call(send))
        first = None
        for c in cases:
            line, want, what = c[0], c[1], c[2]
            got = next(o2) if (len(c) == 3 or c[3] is None) else c[3]
            if first is None:
                first = (c, got)
            stats["bitwise_cases"] += 1
            ctx.count((mi, what, line))
            # -0.0 vs +0.0: the engine clears entries with memset (+0.0) and skips joints without springs; the model
            # does the same, so signs of zero are compared too
            if got != want:
                stats["bitwise_bad"] += 1
                if len(mism) < 20:
                    mism.append({"what": what, "line": line[:600], "model": got, "impl": want, "model_text": text, "qpos": st["qpos"], "qvel": st["qvel"]})
        if stats["models"] <= 3 and first:
            ctx.sample({"variant": variant, "nv": s.nv, "ntendon": s.ntendon, "case": first[0][2], "lean_line": first[0][0][:160],
                        "engine_bits": first[0][1], "lean_bits": first[1]})
        # ---- S: oracle on the engine's values alone
        oracle_snapshot(s, fail, rp, stats)
        # follow-up experiments need further engine runs
        R2 = Repl(exe)
        R2.cmd("model\n" + text.rstrip("\n"), "model")
        R2.cmd("data 0")
        R2.cmd("set 0 qvel " + fmtv(st["qvel"]))
        exps = []
        if variant == "nogravity":
            dofs = list(range(s.nv))
            if len(dofs) > 6:
                dofs = sorted(rng.sample(dofs, 6))
            for dof in dofs:
                for sg in (+1, -1):
                    R2.cmd("set 0 qpos " + fmtv(perturb(s, dof, sg * FD_EPS)))
                    R2.cmd("forward 0")
                    R2.cmd("get 0 energy", ("fd", dof, sg))
            exps.append(("fd", dofs))
        if s.has_gravcomp():
            # the engine's own applied-force path: xfrc_applied = -gravcomp*m*g at every body, difference of qfrc_smooth
            xf = [0.0] * (6 * s.nbody)
            for b in range(1, s.nbody):
                for i in range(3):
                    xf[6 * b + i] = -s.gc[b] * s.mass[b] * s.grav[i]
            R2.cmd("set 0 qpos " + fmtv(st["qpos"]))
            R2.cmd("set 0 xfrc_applied " + fmtv(xf))
            R2.cmd("forward 0")
            R2.cmd("get 0 qfrc_smooth", ("xfrc",))
            R2.cmd("set 0 xfrc_applied " + fmtv([0.0] * (6 * s.nbody)))
            exps.append(("xfrc", None))
            if mdl.uniform is not None:
                R2.cmd("set 0 qvel " + fmtv([0.0] * s.nv))
                R2.cmd("forward 0")
                R2.cmd("get 0 qfrc_bias", ("ub",))
                R2.cmd("get 0 qfrc_gravcomp", ("ug",))
                exps.append(("uniform", None))
        # rest at the spring reference
        R2.cmd("set 0 qpos " + fmtv(s.qspring))
        R2.cmd("set 0 qvel " + fmtv([0.0] * s.nv))
        R2.cmd("forward 0")
        R2.cmd("get 0 qfrc_spring", ("rest", "s"))
        R2.cmd("get 0 qfrc_damper", ("rest", "d"))
        R2.cmd("get 0 ten_length", ("rest", "l"))
        rc, out, res2, err = R2.run()
        if rc != 0 or len(out) != len(R2.cmds):
            fail("c29:engine-crash", "engine REPL crashed in the follow-up experiments (rc=%s): %s" % (rc, err[-300:]), rp)
            continue
        for kind, arg in exps:
            if kind == "fd":
                for dof in arg:
                    ep, em = F(res2[("fd", dof, 1)])[0], F(res2[("fd", dof, -1)])[0]
                    g = (ep - em) / (2 * FD_EPS)
                    dev = abs(g + s.fs[dof]) / (1 + abs(s.fs[dof]))
                    stats["fd_checked"] += 1
                    stats["max_fd_dev"] = max(stats["max_fd_dev"], dev)
                    if dev > FD_TOL:
                        fail("c29:force-not-gradient-of-energy", "dof %d: dE/dq = %r (central difference of energy[0]) but qfrc_spring = %r" % (dof, g, s.fs[dof]),
                             dict(rp, dof=dof, eps=FD_EPS))
                        break
                pe = s.potential()
                if not close(pe, s.energy[0], abs(pe) + 1e-9, 1e-10):
                    fail("c29:energy-law", "energy[0] = %r, documented spring potential %r" % (s.energy[0], pe), rp)
            elif kind == "xfrc":
                sm = F(res2[("xfrc",)])
                sc = max([abs(x) for x in sm + s.smooth] + [1e-9])
                for i in range(s.nv):
                    d = sm[i] - s.smooth[i]
                    dev = abs(d - s.fg[i]) / sc
                    stats["max_gravcomp_dev"] = max(stats["max_gravcomp_dev"], dev)
                    if dev > 1e-10:
                        fail("c29:gravcomp-law", "qfrc_gravcomp[%d] = %r but applying -gravcomp*m*g at the body COMs gives %r" % (i, s.fg[i], d), dict(rp, dof=i))
                        break
                stats["gravcomp_xfrc_checked"] += 1
            elif kind == "uniform":
                ub, ug = F(res2[("ub",)]), F(res2[("ug",)])
                sc = max([abs(x) for x in ub] + [1e-9])
                for i in range(s.nv):
                    if abs(ug[i] - mdl.uniform * ub[i]) > 1e-10 * sc:
                        fail("c29:gravcomp-fraction", "uniform gravcomp %r at rest: qfrc_gravcomp[%d] = %r, gravcomp*qfrc_bias = %r" % (mdl.uniform, i, ug[i], mdl.uniform * ub[i]),
                             dict(rp, dof=i))
                        break
                stats["gravcomp_uniform_checked"] += 1
        rs, rd, rl = F(res2[("rest", "s")]), F(res2[("rest", "d")]), F(res2[("rest", "l")])
        # "all springs at their reference": every tendon inside its springlength deadband too (an explicit springlength
        # may exclude the length at qpos_spring; then the tendon legitimately pulls)
        inband = all(s.tls[2 * i] - 1e-13 <= rl[i] <= s.tls[2 * i + 1] + 1e-13 for i in range(s.ntendon))
        ksc = max([abs(x) for x in s.jk + s.tk] + [1.0])
        if any(x != 0 for x in rd):
            fail("c29:force-at-rest", "at qvel = 0: qfrc_damper = %r" % (rd,), rp)
        elif inband:
            stats["rest_checked"] += 1
            if any(abs(x) > 1e-13 * ksc for x in rs):
                fail("c29:force-at-rest", "at qpos = qpos_spring (tendons inside their deadbands), qvel = 0: qfrc_spring = %r" % (rs,), rp)
    drv.close()
    stats["lean_driver_lines"] = drv.lines
    stats["failure_keys"] = failures
    return stats, mism


def probe_negative_damping(exe):
    """does the compiler accept a negative damping coefficient?"""
    desc = ["body 1 0", "name 1 b", "set 1 pos 0 0 1", "joint 2 1", "name 2 j", "set 2 type %d" % JHINGE, "set 2 damping -1",
            "geom 3 1", "set 3 type %d" % E("mjGEOM_SPHERE"), "set 3 size 0.1", "end"]
    inp = "model\n" + "\n".join(desc) + "\ndata 0\nset 0 qvel 1\nforward 0\nnum 0 qfrc_damper\n"
    r = subprocess.run([exe], input=inp, capture_output=True, text=True, timeout=120)
    out = r.stdout.split("\n")
    return {"compiles": bool(out and out[0].startswith("ok")), "qfrc_damper_at_qvel_1": out[4] if len(out) > 4 else None}


def probe_negative_gravcomp(gate_exe, fail):
    """the compiler accepts a negative gravcomp; setFixed counts `gravcomp > 0` while the body loop of mj_gravcomp tests
    `gravcomp != 0`: is the force of a body with a negative coefficient applied or not depending on OTHER bodies?"""
    def desc(extra):
        d = ["body 1 0", "name 1 b", "set 1 pos 0 0 1", "set 1 gravcomp -0.5", "joint 2 1", "name 2 j", "set 2 type %d" % JHINGE,
             "set 2 axis 0 1 0", "geom 3 1", "set 3 type %d" % E("mjGEOM_SPHERE"), "set 3 size 0.1", "set 3 pos 0.3 0 0"]
        if extra:
            # a body welded to the world (cannot contribute to any dof) with a tiny positive coefficient
            d += ["body 4 0", "name 4 w", "set 4 pos 2 0 0", "set 4 gravcomp 0.001", "geom 5 4", "set 5 type %d" % E("mjGEOM_SPHERE"), "set 5 size 0.1"]
        return "\n".join(d) + "\nend"
    vals = []
    for extra in (False, True):
        inp = "model\n" + desc(extra) + "\nflags\nforward\nget qfrc_gravcomp\n"
        r = subprocess.run([gate_exe], input=inp, capture_output=True, text=True, timeout=120)
        out = r.stdout.split("\n")
        if r.returncode != 0 or len(out) < 4 or not out[0].startswith("ok"):
            return {"compiles": False, "output": out[:2]}
        vals.append((out[1], F(out[3])[0]))
    rec = {"compiles": True, "alone": {"flags": vals[0][0], "qfrc_gravcomp": vals[0][1]},
           "with_unrelated_positive_body": {"flags": vals[1][0], "qfrc_gravcomp": vals[1][1]}}
    if vals[0][1] != vals[1][1]:
        fail(KEY_NEGGC, "hinge body with gravcomp = -0.5: qfrc_gravcomp = %r (ngravcomp flg_gravcomp = %s); after adding a body welded to the world with "
             "gravcomp = 0.001 the SAME dof gets %r (= +0.5 x weight torque, flags %s): setFixed counts gravcomp > 0, mj_gravcomp applies gravcomp != 0"
             % (vals[0][1], vals[0][0], vals[1][1], vals[1][0]),
             {"model_alone": desc(False), "model_with_unrelated_positive_body": desc(True),
              "how": "feed `model` + description, `forward`, `get qfrc_gravcomp` to harness/c/c29_gate.c"})
    return rec


def run(ctx):
    quick = ctx.tier != "thorough"
    ctx.rule = ("generated models (free/ball/slide/hinge joints with linear and polynomial stiffness / damping, fixed and spatial tendons with "
                "springlength deadbands, gravcomp, actgravcomp joints, the switches mjDSBL_SPRING / DAMPER / GRAVITY; variants plain / nogravity / "
                "uniform-gravcomp / placed = gravcomp on a structured subset of the bodies (only jointless bodies welded to moving ones, only jointed, "
                "single, only world-fixed, leaves, mixed) with extra payload bodies and arbitrary gravity directions) at random states; every model "
                "additionally after a runtime edit of body_gravcomp + mj_setConst; a case is one (model, dof, quantity) or (model, derived constant) "
                "bit comparison; oracle per model: laws, passive sum, dissipation, energy finite differences, gravcomp law and its end-to-end effect "
                "on qfrc_smooth, rest")
    import time
    T, t0 = {}, [time.time()]

    def lap(nm):
        T[nm] = round(time.time() - t0[0], 1)
        t0[0] = time.time()
        ctx.extra["stage_seconds"] = T
    manifest = kernelval.regen(ctx)
    lap("regen")
    ctx.lean_props(THEOREMS)
    lap("lean_props")
    kernelval.validate(ctx, manifest, KERNELS, 150 if quick else 2000, label="c2lean kernels used by the passive-force model")
    npoly = None
    try:
        import re
        src = open(common.REPO + "/include/mujoco/mjmodel.h").read()
        npoly = int(re.search(r"#define\s+mjNPOLY\s+(\d+)", src).group(1))
    except Exception:
        pass
    ctx.oblige("mjNPOLY == 2 (the specialisation the kernels are translated with)", "translator", npoly == 2, "mjNPOLY = %r" % npoly)
    lap("kernel_validation")
    drv = ctx.driver("drv_c29")
    exe = ctx.harness("harness/c/engine_repl.c", "engine_repl", deps=["harness/mjbuild.h"])
    gate_exe = ctx.harness("harness/c/c29_gate.c", "c29_gate", deps=["harness/mjbuild.h"])
    if drv and exe and gate_exe:
        stats, mism = run_models(ctx, exe, gate_exe, drv, 48 if quick else 720)
        ok = stats["bitwise_bad"] == 0 and stats["bitwise_cases"] > 0
        import json
        ctx.oblige("correspondence Lean passive-force model (Float) vs qfrc_spring / qfrc_damper / qfrc_passive / qfrc_gravcomp and the derived constants "
                   "ngravcomp / flg_gravcomp (after mj_compile and after mj_setConst) of the real engine, bitwise (%d cases)" % stats["bitwise_cases"],
                   "correspondence", ok, json.dumps(mism[:4])[:3000])
        ctx.disagreements += [dict(m, stream="passive") for m in mism[:20]]
        stats["negative_damping_probe"] = probe_negative_damping(exe)

        def fail_probe(key, what, replay):
            stats["failure_keys"][key] = stats["failure_keys"].get(key, 0) + 1
            ctx.oracle_failure(key, what, replay)
        stats["negative_gravcomp_probe"] = probe_negative_gravcomp(gate_exe, fail_probe)
        ctx.extra["passive_oracle"] = stats
        lap("engine_differential_and_oracle")
        ctx.extra["max_float_deviation"] = {"spring_rel": stats["max_dev_spring"], "damper_rel": stats["max_dev_damper"],
                                            "fd_rel": stats["max_fd_dev"], "gravcomp_rel": stats["max_gravcomp_dev"],
                                            "gravcomp_endtoend_rel": stats["max_endtoend_dev"],
                                            "tolerances": {"law": RTOL, "fd": FD_TOL, "gravcomp": 1e-10}}

        def directed(c):
            """a tie / proof obligation broke but the sampled oracle found nothing: search the structured placements harder"""
            import random
            r = random.Random(c.seed * 7919 + 29)
            found = []

            def f(key, what, replay):
                if key not in (KEY_ACTGC, KEY_NEGGC):
                    found.append({"key": key, "what": what, "replay": replay})
            st2 = new_stats()
            for k in range(120 if quick else 600):
                mdl = make_model(c, "placed", rng=r)
                if mdl.nv == 0:
                    continue
                stt = mdl.random_state(r)
                text = mdl.text()
                R = Repl(exe)
                R.cmd("model\n" + text.rstrip("\n"), "model")
                for fld in MODEL_FIELDS:
                    R.cmd("getm " + fld, ("m", fld))
                R.cmd("data 0")
                R.cmd("set 0 qpos " + fmtv(stt["qpos"]))
                R.cmd("set 0 qvel " + fmtv(stt["qvel"]))
                R.cmd("forward 0", "fwd")
                for fld in DATA_FIELDS:
                    R.cmd("get 0 " + fld, ("s0", fld))
                rc, out, res, err = R.run()
                if rc != 0 or len(out) != len(R.cmds) or not res["model"].startswith("ok") or res["fwd"].startswith("error"):
                    continue
                sn = Snapshot(res, "s0")
                gate_experiments(gate_exe, text, sn, stt, r, f, {"model": text, "qpos": stt["qpos"], "qvel": stt["qvel"], "variant": "placed (directed search)"}, st2)
                if found:
                    return found[0]
            return None
        ctx.directed_search = directed


if __name__ == "__main__":
    common.main(run, "C29")
