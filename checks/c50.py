"""C50  Visualization scene construction is bounded and faithful (DESIGN.md §5.C50).

P  Lean theorems (Props/C50.lean) about the model of acquireGeom / releaseGeom and of the geom pass of
   mjv_addGeoms (Model/Scene.lean): capacity invariants for *every* sequence of add attempts, the scene as a
   filter of the model geoms truncated at capacity, status <-> overflow, pose/size faithfulness, independence of
   the scene's history.
T  exact differential correspondence: the real mjv_makeScene / mjv_updateScene of the tree (harness/c/c50_scene.c,
   generated models, simulated states, scenes with histories) against the compiled Lean model on the inputs the
   real call reads (dumped by the harness, checked bit-for-bit against the live mjModel/mjData/mjvScene on the
   differential run); header constants compared through a `consts` op.
S  property oracle on the implementation's output alone (filter recomputed independently in Python).
"""
import os
import struct
import tempfile

from checks import common
from gen.enums import E
from gen.models import ModelGen

USES_GEN = False

META = {
    "technique": "Lean 4 proof (invariant over arbitrary attempt sequences by induction; refinement of the geom-pass loop to "
                 "filter/take) + exact differential correspondence with the real mjv_updateScene on generated models x "
                 "capacities x option sets x scene histories + independent filter oracle with a guard zone behind the geom buffer",
    "text": "Proved for every sequence of add attempts (any pass, kept or abandoned geoms, any return policy), every capacity "
            "and previous scene: ngeom <= maxgeom, no slot >= maxgeom and no released geom is written, the status flag "
            "equals old-status-or-some-acquisition-failed with exactly one warning.  Proved for the geom pass reached from "
            "mjv_updateScene with only geom visualization enabled, for every geom list, option set, capacity, previous scene "
            "and every float-conversion instance: it is such an attempt sequence; the scene equals the model geoms with "
            "enabled category, enabled (clamped) group and non-zero alpha, in order, truncated at capacity, each with its "
            "index, type-dependent size, world orientation and (except infinite planes) world position converted to float; "
            "status is set iff it was set or an acquiring geom meets a full buffer; more shown geoms than capacity => status; "
            "two scenes of equal capacity get identical geoms whatever their history when no geom is an infinite plane.",
    "note": "hand model; ties are differential (bitwise, float32 bit patterns).  Modelled path: matid < 0 (generated models "
            "have no materials; the harness refuses otherwise), mjVIS_STATIC / mjVIS_TRANSPARENT variable, every other vis flag, "
            "label, frame, perturbation and every other group array off (that is what 'only geom visualization' means here; the "
            "harness fills the other group arrays with a different mask so a wrong-array read shows).  Findings about the code "
            "that are part of the model and stated in the theorems, not defects: scn->status is sticky (never cleared by "
            "mjv_updateScene); geoms with alpha 0 are skipped; infinite planes are re-centred under the scene's *previous* "
            "camera, so their position depends on scene history.",
}

THEOREMS = [
    "MjProof.C50.ngeom_le_maxgeom",
    "MjProof.C50.no_write_beyond_capacity",
    "MjProof.C50.overflow_sets_status",
    "MjProof.C50.attempt_footprint",
    "MjProof.C50.geomPass_is_attempt_sequence",
    "MjProof.C50.updateScene_bounded",
    "MjProof.C50.geom_only_scene_eq_filter",
    "MjProof.C50.updateScene_ngeom",
    "MjProof.C50.status_iff_overflow",
    "MjProof.C50.overflow_reported",
    "MjProof.C50.complete_when_fits",
    "MjProof.C50.clampGroup_spec",
    "MjProof.C50.scene_geom_faithful",
    "MjProof.C50.updateScene_history_independent",
]

PLANE, SPHERE, CAPSULE, CYLINDER, MESH, SDF = (E("mjGEOM_PLANE"), E("mjGEOM_SPHERE"), E("mjGEOM_CAPSULE"),
                                              E("mjGEOM_CYLINDER"), E("mjGEOM_MESH"), E("mjGEOM_SDF"))
OBJ_GEOM = E("mjOBJ_GEOM")
CAT_STATIC, CAT_DYNAMIC = E("mjCAT_STATIC"), E("mjCAT_DYNAMIC")
SCRATCH_SCENE = 63


# ------------------------------------------------------------------------------------------ float helpers
def d64(t):
    return struct.unpack("<d", struct.pack("<Q", int(t, 16)))[0]


def f32(t):
    return struct.unpack("<f", struct.pack("<I", int(t, 16)))[0]


def to32bits(x):
    """bits of (float) x, round-to-nearest-even, inf on overflow"""
    try:
        b = struct.pack("<f", x)
    except OverflowError:
        b = struct.pack("<f", float("inf") if x > 0 else float("-inf"))
    return "%08x" % struct.unpack("<I", b)[0]


# ------------------------------------------------------------------------------------------ parsing
def parse_inputs(toks):
    """tokens of a dump (after 'dump' / after '|') -> dict"""
    p = 0
    st0 = int(toks[p].split("=")[1]); p += 1
    alpha = toks[p].split("=")[1]; p += 1
    zfar = toks[p].split("=")[1]; p += 1
    extent = toks[p].split("=")[1]; p += 1
    assert toks[p] == "cam"; p += 1
    cam = toks[p:p + 6]; p += 6
    n = int(toks[p].split("=")[1]); p += 1
    geoms = []
    for _ in range(n):
        assert toks[p] == "g"
        ty, gr, st, di, mi = (int(x) for x in toks[p + 1:p + 6])
        size = toks[p + 6:p + 9]
        xpos = toks[p + 9:p + 12]
        xmat = toks[p + 12:p + 21]
        rgba = toks[p + 21:p + 25]
        geoms.append({"type": ty, "group": gr, "static": st, "dataid": di, "matid": mi, "size": size, "xpos": xpos,
                      "xmat": xmat, "rgba": rgba})
        p += 25
    assert p == len(toks)
    return {"st0": st0, "alpha": alpha, "zfar": zfar, "extent": extent, "cam": cam, "geoms": geoms}


def model_part(toks):
    """the part of the dump that does not depend on the scene (alpha zfar extent n geoms)"""
    return toks[2:5] + toks[12:]


def parse_output(out):
    head, _, body = out.partition("|")
    h = dict(kv.split("=") for kv in head.split())
    geoms = []
    for rec in body.split(";"):
        t = rec.split()
        if not t:
            continue
        geoms.append({"objid": int(t[0]), "objtype": int(t[1]), "category": int(t[2]), "segid": int(t[3]),
                      "type": int(t[4]), "dataid": int(t[5]), "size": t[6:9], "pos": t[9:12], "mat": t[12:21],
                      "rgba": t[21:25], "raw": " ".join(t)})
    return {"n": int(h["n"]), "st": int(h["st"]), "w": int(h["w"]), "guard": h["guard"], "geoms": geoms}


# ------------------------------------------------------------------------------------------ independent filter (oracle)
def expected_filter(inp, opts):
    """indices reaching acquireGeom / shown, from the documented rules (independent of the Lean model)"""
    mask = opts["catmask"]
    if not opts["static"]:
        mask &= ~CAT_STATIC
    acq, shown = [], []
    for i, g in enumerate(inp["geoms"]):
        cat = CAT_STATIC if g["static"] else CAT_DYNAMIC
        if not (cat & mask):
            continue
        grp = max(0, min(5, g["group"]))
        if opts["groups"][grp] != "1":
            continue
        acq.append(i)
        a = f32(g["rgba"][3])
        if opts["transp"] and not g["static"]:
            a = f32(to32bits(a * f32(inp["alpha"])))   # product of two floats is exact in double: one rounding
        if a != 0:
            shown.append(i)
    return acq, shown


def is_infinite_plane(g):
    return g["type"] == PLANE and (d64(g["size"][0]) <= 0 or d64(g["size"][1]) <= 0)


def oracle(inp, opts, cap, out):
    """property oracle on one implementation output; returns list of (key, what)"""
    bad = []
    if out["guard"] != "ok":
        bad.append(("c50:write-beyond-geom-buffer", "bytes behind the geom buffer were overwritten"))
    if out["n"] > cap:
        bad.append(("c50:ngeom-exceeds-maxgeom", "scene reports %d geoms for capacity %d" % (out["n"], cap)))
    acq, shown = expected_filter(inp, opts)
    want = shown[:cap]
    got = [g["objid"] for g in out["geoms"]]
    if out["n"] <= cap and got != want:
        bad.append(("c50:scene-not-the-enabled-geoms", "scene geoms %s, enabled-group geoms truncated at capacity %s" % (got, want)))
    if len(shown) > cap and out["st"] != 1:
        bad.append(("c50:overflow-not-reported", "%d shown geoms, capacity %d, status %d" % (len(shown), cap, out["st"])))
    if len(acq) <= cap and out["st"] != inp["st0"]:
        bad.append(("c50:status-changed-without-overflow", "status %d -> %d although everything fits" % (inp["st0"], out["st"])))
    if inp["st0"] == 1 and out["st"] != 1:
        bad.append(("c50:status-cleared", "status was 1 before the update and is %d after" % out["st"]))
    if got == want:
        for k, (i, vg) in enumerate(zip(want, out["geoms"])):
            g = inp["geoms"][i]
            cat = CAT_STATIC if g["static"] else CAT_DYNAMIC
            if (vg["objtype"], vg["category"], vg["segid"], vg["type"]) != (OBJ_GEOM, cat, k, g["type"]):
                bad.append(("c50:geom-header-wrong", "geom %d: objtype/category/segid/type = %s" % (i, (vg["objtype"], vg["category"], vg["segid"], vg["type"]))))
            if vg["mat"] != [to32bits(d64(x)) for x in g["xmat"]]:
                bad.append(("c50:orientation-not-geom_xmat", "geom %d: mat is not (float) geom_xmat" % i))
            s = [d64(x) for x in g["size"]]
            if g["type"] == SPHERE:
                s = [s[0], s[0], s[0]]
            elif g["type"] in (CAPSULE, CYLINDER):
                s = [s[0], s[0], s[1]]
            if vg["size"] != [to32bits(x) for x in s]:
                bad.append(("c50:size-not-geom_size", "geom %d (type %d): size %s" % (i, g["type"], vg["size"])))
            if not is_infinite_plane(g):
                if vg["pos"] != [to32bits(d64(x)) for x in g["xpos"]]:
                    bad.append(("c50:position-not-geom_xpos", "geom %d: pos is not (float) geom_xpos" % i))
            else:
                # re-centred in its own plane only: the component along the plane normal (3rd column of xmat) is unchanged
                nrm = [d64(g["xmat"][2]), d64(g["xmat"][5]), d64(g["xmat"][8])]
                dz = sum((f32(vg["pos"][j]) - d64(g["xpos"][j])) * nrm[j] for j in range(3))
                scale = 1 + max(abs(f32(vg["pos"][j])) for j in range(3))
                if not abs(dz) <= 1e-4 * scale:
                    bad.append(("c50:infinite-plane-moved-off-plane", "geom %d: normal offset %g" % (i, dz)))
    return bad


# ------------------------------------------------------------------------------------------ generation
def rand_mask(rng):
    r = rng.random()
    if r < 0.25:
        return "111111"
    if r < 0.4:
        return "111000"
    if r < 0.45:
        return "000000"
    return "".join(rng.choice("01") for _ in range(6))


def upd_line(scene, model, cap, o):
    return "upd scene=%d model=%d cap=%d catmask=%d static=%d transp=%d groups=%s sgroups=%s" % (
        scene, model, cap, o["catmask"], o["static"], o["transp"], o["groups"], o["sgroups"])


def gen_models(ctx, nmodels):
    rng = ctx.rng
    mdls = []
    for _ in range(nmodels):
        prof = {"nbody": (1, rng.choice((2, 4, 7))), "geoms": (1, rng.choice((1, 2, 3))), "plane": 0.75,
                "static_body": 0.25, "mocap": 0.15, "sleep": 0.0}
        mdls.append(ModelGen(rng, prof).make())
    return mdls


def gen_script(ctx, mdls, nepoch, nconf):
    """state-changing lines + per (model, epoch) a list of option sets; capacities are chosen after the probe pass"""
    rng = ctx.rng
    script = []  # entries: ("line", text) | ("probe", model, epoch, opts)
    for k, m in enumerate(mdls):
        ng = len(m.geoms)
        for ep in range(nepoch):
            # model edits: groups outside 0..5, invisible geoms, infinite planes, alpha scale
            for gi in range(ng):
                r = rng.random()
                if r < 0.35:
                    script.append(("line", "poke %d group %d %d" % (k, gi, rng.choice((-7, -1, 0, 1, 2, 3, 4, 5, 6, 9, 1000)))))
                if rng.random() < 0.18:
                    script.append(("line", "poke %d rgba %d %r %r %r %r" % (k, gi, rng.random(), rng.random(), rng.random(),
                                                                            rng.choice((0.0, 0.0, 1.0, 0.25, 1e-30)))))
                if m.geoms[gi]["type"] == "plane" and rng.random() < 0.4:
                    script.append(("line", "poke %d size %d %s 0.1" % (k, gi, rng.choice(("0 0", "0 3", "2 0", "5 5", "-1 2")))))
            if rng.random() < 0.5:
                script.append(("line", "poke %d alpha %s" % (k, rng.choice(("0", "0.3", "1", "0.5", "1e-30")))))
            script.append(("line", "qpos %d %d" % (k, rng.randrange(1 << 30)) if rng.random() < 0.6 else "step %d %d" % (k, rng.randint(1, 8))))
            confs = []
            for _ in range(nconf):
                confs.append({"catmask": rng.choice((7, 7, 3, 1, 2, 5, 6, 0, 4)), "static": int(rng.random() < 0.8),
                              "transp": int(rng.random() < 0.35), "groups": rand_mask(rng), "sgroups": rand_mask(rng)})
            script.append(("probe", k, ep, confs))
    return script


def run(ctx):
    ctx.rule = ("models from gen/models.py (1-7 bodies, 1-3 geoms per body, ground plane, static/mocap bodies) x 2-3 epochs of "
                "edits (geom groups -7..1000, alpha 0 / tiny, infinite planes, vis.map.alpha) and states (random qpos+forward or "
                "mj_step) x option sets (catmask, mjVIS_STATIC, mjVIS_TRANSPARENT, geomgroup mask, a different mask in the other "
                "group arrays) x capacities {0, 1, n-1, n, n+1, acquiring count, large, random} relative to the shown count n x "
                "3 calls on scenes with different histories; a case is distinct by its full input line; non-trivial = an upd call")
    ctx.lean_props(THEOREMS)
    drv = ctx.driver("drv_c50")
    impl = ctx.harness("harness/c/c50_scene.c", "c50_scene", deps=["harness/mjbuild.h"])
    if not drv or not impl:
        return
    thorough = ctx.tier == "thorough"
    nbatch, per_batch = (5, 100) if thorough else (1, 30)
    nepoch, nconf = (3, 12) if thorough else (2, 7)
    hist = {"cap<shown": 0, "cap=shown": 0, "shown<cap<acquiring": 0, "cap>=acquiring": 0, "cap=0": 0,
            "infinite-plane-shown": 0, "alpha0-geoms": 0, "status-sticky": 0}
    tot_fail = 0
    for b in range(nbatch):
        tot_fail += run_batch(ctx, drv, impl, per_batch, nepoch, nconf, hist, first=(b == 0))
    ctx.extra["case_histogram"] = hist
    ctx.extra["oracle_failures"] = tot_fail
    if thorough:
        ctx.leanchecker(["MjProof.Props.C50"])

    def directed(c):
        # a proof/tie obligation broke and the sampled oracle found nothing: search further seeds with the oracle only
        import random
        for extra in range(1, 6):
            c2 = common.Ctx(c.pid, c.tier, c.seed + 1000 * extra)
            c2.rng = random.Random(c.seed * 7919 + extra)
            run_batch(c2, None, impl, 40, 3, 10, dict(hist), first=False)
            if c2.oracle_failures:
                f = c2.oracle_failures[0]
                return {"key": f["key"], "what": f["what"], "replay": f["replay"]}
        return None
    ctx.directed_search = directed


def crashed(ctx, phase, rc, outs, lines, err, mdls):
    """the real code crashed (or stopped answering) inside a call: a failing input, not an infrastructure problem"""
    idx = min(len(outs), len(lines) - 1)
    line = lines[idx]
    t = line.split()
    k = int(t[1]) if t[0] in ("poke", "qpos", "step") else int(dict(x.split("=") for x in t[1:9]).get("model", 0)) if t[0] == "upd" else 0
    prefix = [l.split("|")[0].strip() for l in lines[:idx]
              if (l.split()[0] in ("poke", "qpos", "step") and int(l.split()[1]) == k) or (" model=%d " % k) in l]
    ctx.oracle_failure("c50:crash", "mjv_makeScene/mjv_updateScene harness died (rc=%s) in the %s pass on: %s" % (rc, phase, line[:200]),
                       {"line": line.split("|")[0].strip(), "earlier_lines_for_this_model": prefix[-60:], "model": mdls[k].text(),
                        "stderr": err[-400:],
                        "replay": "write `model` to a file F (it becomes model 0: replace model=%d / the model index by 0) and feed "
                                  "the earlier lines then `line` to: c50_scene F" % k})
    return 1


def run_batch(ctx, drv, impl, nmodels, nepoch, nconf, hist, first):
    rng = ctx.rng
    mdls = gen_models(ctx, nmodels)
    script = gen_script(ctx, mdls, nepoch, nconf)
    fd, mpath = tempfile.mkstemp(prefix="c50_models_", suffix=".txt", dir=common.CACHE)
    try:
        with os.fdopen(fd, "w") as f:
            f.write("".join(m.text() for m in mdls))
        # ---- pass A: probe the model-side inputs of every (model, epoch) on a scratch scene
        la, where = [], []
        for e in script:
            if e[0] == "line":
                la.append(e[1])
            else:
                where.append(len(la))
                la.append(upd_line(SCRATCH_SCENE, e[1], 100000, e[3][0]))
        rc, oa, err = ctx.run_lines([impl, mpath], la)
        if rc != 0 or len(oa) != len(la):
            return crashed(ctx, "probe", rc, oa, la, err, mdls)
        probes = {}
        pi = 0
        for e in script:
            if e[0] == "probe":
                t = oa[where[pi]].split()
                if t[0] != "dump":
                    raise common.Infra("c50 probe: unexpected harness output " + oa[where[pi]][:200])
                probes[(e[1], e[2])] = t
                pi += 1
        # ---- choose capacities and build the call sequence (pass B lines: without inputs)
        lb, meta = [], []   # meta[i] = None | dict(model, epoch, opts, cap, scene)
        nscene = 0
        for e in script:
            if e[0] == "line":
                lb.append(e[1]); meta.append(None)
                continue
            k, ep, confs = e[1], e[2], e[3]
            inp = parse_inputs(probes[(k, ep)][1:])
            for o in confs:
                acq, shown = expected_filter(inp, o)
                n, na = len(shown), len(acq)
                caps = {0, 1, max(0, n - 1), n, n + 1, na, 1000}
                cap = rng.choice(sorted(caps)) if rng.random() < 0.8 else rng.randint(0, len(inp["geoms"]) + 2)
                s1 = rng.randrange(0, 8)
                s2 = 8 + rng.randrange(0, 8)
                # s1, then s2 (different history), then s1 again (history: the same call just before)
                for sc in (s1, s2, s1):
                    lb.append(upd_line(sc, k, cap, o)); meta.append({"model": k, "epoch": ep, "opts": o, "cap": cap, "scene": sc})
                hist["cap=0"] += cap == 0
                hist["cap<shown"] += cap < n
                hist["cap=shown"] += cap == n
                hist["shown<cap<acquiring"] += n < cap < na
                hist["cap>=acquiring"] += cap >= na
                hist["infinite-plane-shown"] += any(is_infinite_plane(inp["geoms"][i]) for i in shown)
                hist["alpha0-geoms"] += na > n
        rc, ob, err = ctx.run_lines([impl, mpath], lb)
        if rc != 0 or len(ob) != len(lb):
            return crashed(ctx, "dump", rc, ob, lb, err, mdls)
        # ---- pass C: differential on lines carrying the inputs the real call reads
        lc = []
        for l, o, mt in zip(lb, ob, meta):
            if mt is None:
                lc.append(l)
            else:
                if not o.startswith("dump "):
                    raise common.Infra("c50 dump pass: unexpected harness output " + o[:200])
                t = o.split()
                if model_part(t) != model_part(probes[(mt["model"], mt["epoch"])]):
                    raise common.Infra("c50: model inputs changed between the probe and the dump pass")
                lc.append(l + " | " + o[5:])
        if first:
            lc = ["consts"] + lc + ["frob 1 2", "upd scene=0 model=0 cap=3"]
            meta = [None] + meta + [None, None]
        rc, oc, err = ctx.run_lines([impl, mpath], lc)
        if drv:
            ctx.differential("mjv_updateScene (geom pass) vs Lean model, %d models" % nmodels, [drv], [impl, mpath], lc,
                             keyf=lambda l: (" ".join(l.split()[2:]) if l.startswith("upd ") and "|" in l else None))
        # ---- S: property oracle on the implementation's outputs
        nfail = 0
        if rc != 0 or len(oc) != len(lc):
            return crashed(ctx, "differential", rc, oc, lc, err, mdls)
        groups = {}
        for l, o, mt in zip(lc, oc, meta):
            if mt is None:
                continue
            if o.startswith("input-mismatch") or o.startswith("unsupported") or o.startswith("error"):
                raise common.Infra("c50 differential pass: harness says '%s' for %s" % (o[:100], l[:200]))
            inp = parse_inputs(l.split("|", 1)[1].split())
            out = parse_output(o)
            mdl_text = mdls[mt["model"]].text()
            for key, what in oracle(inp, mt["opts"], mt["cap"], out):
                nfail += 1
                if nfail <= 5:
                    ctx.oracle_failure(key, what, {"line": l[:6000], "impl_output": o[:3000], "model": mdl_text,
                                                  "replay": "write `model` to a file F and feed `line` (after replaying this model's "
                                                            "poke/qpos/step lines of the run) to: c50_scene F"})
            if inp["st0"] == 1 and out["st"] == 1 and out["w"] == 0:
                hist["status-sticky"] += 1
            # determinism: same model/data/options/capacity (and same previous camera when an infinite plane is
            # visible) => same geoms, whichever scene and whatever its history
            _, shown = expected_filter(inp, mt["opts"])
            camkey = tuple(inp["cam"]) if any(is_infinite_plane(inp["geoms"][i]) for i in shown[:mt["cap"]]) else None
            gk = (mt["model"], mt["epoch"], tuple(sorted(mt["opts"].items())), mt["cap"], camkey)
            body = (out["n"], tuple(g["raw"] for g in out["geoms"]))
            if gk in groups and groups[gk][0] != body:
                nfail += 1
                if nfail <= 5:
                    ctx.oracle_failure("c50:scene-depends-on-history", "two updates with the same model, data, options and capacity "
                                       "produced different geoms (scenes %d and %d)" % (groups[gk][1], mt["scene"]),
                                       {"line": l[:6000], "impl_output": o[:2000], "other_output": groups[gk][2][:2000], "model": mdl_text})
            groups.setdefault(gk, (body, mt["scene"], o))
        ctx.extra["oracle_checked"] = ctx.extra.get("oracle_checked", 0) + sum(1 for m in meta if m)
        ctx.extra["determinism_groups"] = ctx.extra.get("determinism_groups", 0) + len(groups)
        if first:
            ups = [(l, o) for l, o, mt in zip(lc, oc, meta) if mt]
            for l, o in ups[:2] + ups[len(ups) // 2:len(ups) // 2 + 1]:
                ctx.sample({"op": l.split("|")[0].strip(), "ngeom_model": l.count(" g "), "impl_and_model_output": o[:160] + " ..."})
        return nfail
    finally:
        try:
            os.remove(mpath)
        except OSError:
            pass
