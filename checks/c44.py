"""C44  MJX batching, compilation and data transfer are transparent (DESIGN.md §5.C44)."""
import json
import os
import shutil
import subprocess
import sys

from . import common
from . import c43_mjxgen as G

META = {
    "technique": "Lean 4 proof over translator-regenerated tables (state API of MJX = state API of C, as modelled) + exact "
                 "differential correspondence of the Lean model with the real mjx.state_size/get_state/set_state + "
                 "property oracle on the real MJX (state round trips vs the tree's C engine, put_data/get_data, "
                 "make_data, jit/vmap vs eager)",
    "text": "State-API clause: translate/c44_tables.py re-extracts, with Python's ast, _STATE_MAP, the size expression that "
            "_state_elem_size returns for every entry (symbolic execution), the loop templates of state_size/get_state/"
            "set_state (matched statement for statement against the model in Model/MjxState.lean) and the shapes make_data "
            "allocates; mjx_table_eq_c_table (kernel-decided) shows this table equals, element for element and in order, the "
            "table translate/c26_tables.py extracts from engine_support.c/mjtype.h/mjxmacro.h (enumerator, bit, field, size "
            "normal form, conversion, allocated dimension, storage type). Proved for every table, all model sizes, all data "
            "and EVERY integer spec: the Python functions as modelled (unbounded spec, two's-complement bit test, whole-array "
            "flatten/replace, size guard) equal the C-model functions on [0,2^mjNSTATE) and on the 'too large' error branch; "
            "state_size = len(get_state); set_state(get_state) restores the selected components and nothing else; frame; size "
            "guard; a negative spec is served with its low mjNSTATE bits (C raises) — so the C26 theorems transfer. The Lean "
            "model is run against the real mjx functions on integer-valued data (exact comparison).",
    "note": "jit/vmap = eager, put_data/get_data round trip and make_data vs put_data(fresh) are NOT claimed by any theorem "
            "(a semantics of JAX tracing / of the pybind containers is outside the model): they are examined by the oracle on "
            "the real code only (x64, CPU; iterative-solver outputs compared with a looser tolerance and reported as "
            "evidence). The mujoco wheel in /venv (not built from the tree) is used as MjModel/MjData container and as a "
            "source of arbitrary MjData contents; the C engine compared against is the tree build (engine_repl).",
}

THEOREMS = [
    "MjProof.C44.mjx_get_state_eq_model",
    "MjProof.C44.mjx_state_size_eq_model",
    "MjProof.C44.mjx_set_state_eq_model",
    "MjProof.C44.mjx_spec_mod",
    "MjProof.C44.mjx_spec_too_large",
    "MjProof.C44.mjx_size_eq_length_get_state",
    "MjProof.C44.mjx_set_get_id",
    "MjProof.C44.mjx_set_state_frame",
    "MjProof.C44.mjx_set_state_size_guard",
    "MjProof.C44.mjx_get_state_total",
]
THEOREMS_GEN = [
    "MjProof.C44.mjx_table_eq_c_table",
    "MjProof.C44.mjx_table_wf",
    "MjProof.C44.mjx_scalar_ok",
    "MjProof.C44.shaped_iff",
    "MjProof.C44.mjx_state_api_eq_c_state_api_partial",
    "MjProof.C44.gen_mjx_size_eq_length_get_state",
    "MjProof.C44.gen_mjx_set_get_id",
]

GEN_DIR = os.path.join(common.LEAN, "MjProof", "Gen")
GEN_FILES = ["StateTable.lean", "MjxStateTable.lean"]
MJX_JSON = os.path.join(GEN_DIR, "MjxStateTable.json")

# tolerances: |x-y| / (1+|y|).  Without an iterative solver the only differences are XLA fusion / batching
# re-associations: observed <= 4e-16 (calibration on seeds 0..7), bound 1e-12 as the design states.
TOL_EXACT = 1e-12


# ------------------------------------------------------------------------------------------ translators
def run_translators(ctx):
    env = dict(os.environ, VERIF_REPO=common.REPO)
    r1 = subprocess.run([sys.executable, os.path.join(common.VERIF, "translate", "c26_tables.py")], capture_output=True, text=True, env=env)
    r2 = subprocess.run([sys.executable, os.path.join(common.VERIF, "translate", "c44_tables.py")], capture_output=True, text=True, env=env)
    ok = r1.returncode == 0 and r2.returncode == 0
    ctx.oblige("translator c44_tables (_STATE_MAP, _state_elem_size, state_size/get_state/set_state templates, make_data shapes) "
               "+ c26_tables (C side)", "translator", ok, (r1.stdout + r1.stderr + r2.stdout + r2.stderr)[-2500:])
    if not ok:
        for p in (os.path.join(GEN_DIR, "MjxStateTable.lean"), MJX_JSON):
            if os.path.exists(p):
                os.remove(p)
        return None
    return json.load(open(MJX_JSON))


# ------------------------------------------------------------------------------------------ reference
def eval_size(fs, sizes):
    n = 1
    for k, v in fs:
        n *= v if k == "const" else sizes[v]
    return n


class Ref:
    """documented meaning of the state API (mjtype.h comments / programming guide "State"), from the C table rows:
    used by the oracle only, to generate vectors of the right length and to name the components"""

    def __init__(self, info, sizes):
        self.nstate = info["nstate"]
        self.rows = sorted(info["c_elems"], key=lambda r: r["bit"])
        self.sizes = sizes
        self.fields = [r["field"] for r in self.rows]
        self.n = {r["field"]: eval_size(r["size"], sizes) for r in self.rows}
        self.isbool = {r["field"]: r["special"] is not None for r in self.rows}

    def low(self, spec):
        return spec & ((1 << self.nstate) - 1)

    def comps(self, spec):
        s = self.low(spec)
        return [r for r in self.rows if s >> r["bit"] & 1]

    def size(self, spec):
        return sum(self.n[r["field"]] for r in self.comps(spec))

    def fill(self, base, p, f):
        n = self.n[f]
        if self.isbool[f]:
            return [(base + p + j) % 2 for j in range(n)]
        return [base + 1000 * (p + 1) + j for j in range(n)]


def parse_dump(o):
    out = {}
    for part in o.split("|"):
        k, _, v = part.partition(":")
        out[k] = [int(x) for x in v.split()]
    return out


def parse_vec(o):
    if not o.startswith("vec"):
        return None
    return [int(x) for x in o.split()[1:]]


# ------------------------------------------------------------------------------------------ lines
def gen_specs(rng, ref, info, n_random):
    ns = ref.nstate
    full = (1 << ns) - 1
    specs = [0, full] + [1 << b for b in range(ns)] + [v["value"] for v in info["c_named"]]
    specs += [full ^ (1 << b) for b in range(0, ns, 3)]
    specs += [rng.randrange(0, full + 1) for _ in range(n_random)]
    out_of_range = [-1, -2, -(1 << ns), -(1 << ns) - 5, -rng.randrange(1, full), 1 << ns, (1 << ns) + 3, (1 << 40) + 5, -(1 << 40) + 9,
                    (1 << ns) + rng.randrange(0, full)]
    return specs, out_of_range


def model_lines(rng, ref, info, mid, desc, quick):
    fields = ref.fields
    sz = " ".join("%s=%d" % (k, ref.sizes[k]) for k in info["c_sizes"])
    L = ["model %d %s ; %s" % (mid, sz, desc)]
    b0, b1 = rng.randrange(1, 50), rng.randrange(-60, -10)
    L.append("fill 0 %d %s" % (b0, " ".join(fields)))
    L.append("fill 1 %d %s" % (b1, " ".join(fields)))
    L.append("dump 0 " + " ".join(fields))
    specs, oor = gen_specs(rng, ref, info, 12 if quick else 60)
    for s in specs + oor:
        L.append("size %d" % s)
        L.append("get 0 %d" % s)
    # set: vector of the documented length, then read back + dump everything (frame)
    for s in specs[:2] + rng.sample(specs[2:], 10 if quick else 40) + oor[:6]:
        n = ref.size(s) if s < (1 << ref.nstate) else 3
        vec = []
        for r in ref.comps(s) if s < (1 << ref.nstate) else []:
            m = ref.n[r["field"]]
            vec += [(j + s) % 2 for j in range(m)] if ref.isbool[r["field"]] else [7000 + 10 * r["bit"] + j + (s % 7) for j in range(m)]
        if s >= (1 << ref.nstate):
            vec = [1] * n
        L.append("dump 1 " + " ".join(fields))
        L.append("set 1 %d %s" % (s, " ".join(map(str, vec))))
        L.append("get 1 %d" % s)
        L.append("dump 1 " + " ".join(fields))
    # wrong lengths
    for s in rng.sample(specs[2:], 4):
        n = ref.size(s)
        for m in {max(n - 1, 0), n + 1, n + 5} - {n}:
            L.append("set 2 %d %s" % (s, " ".join(["3"] * m)))
    # set(get) between slots: slot 0 -> slot 3
    for s in [specs[1]] + rng.sample(specs, 3):
        v = []
        for r in ref.comps(s):
            v += ref.fill(b0, fields.index(r["field"]), r["field"])
        L.append("set 3 %d %s" % (s, " ".join(map(str, v))))
        L.append("get 3 %d" % s)
    L.append("frob 1")
    L.append("get 9 1")
    return L, (b0, b1)


# ------------------------------------------------------------------------------------------ oracle
class Oracle:
    def __init__(self, ctx):
        self.ctx = ctx
        self.n = 0
        self.nfail = 0
        self.keys = {}

    def fail(self, key, what, replay):
        self.nfail += 1
        self.keys[key] = self.keys.get(key, 0) + 1
        if self.keys[key] <= 2:
            self.ctx.oracle_failure(key, what, replay)


def state_oracle(orc, ref, lines, outs, cengine, bases, desc):
    """property oracle on the implementation's outputs alone (+ the tree's C engine for the same state)"""
    ns = ref.nstate
    last_size = {}
    dumps = {}
    rp = {"model": desc, "how": "feed the lines to harness/py/c44_mjx.py (env of checks/c43_mjxgen.mjx_env)"}
    prev_dump = {}
    pending_set = None
    c_checked = 0
    for i, (l, o) in enumerate(zip(lines, outs)):
        w = l.split()
        orc.n += 1
        if w[0] == "size":
            s = int(w[1])
            last_size[s] = o
            if o.startswith("error") or not o.lstrip("-").isdigit():
                orc.fail("c44:state_size-raises", "state_size raised / returned a non-integer for spec %d: %s" % (s, o), dict(rp, line=l))
            elif int(o) != ref.size(s):
                orc.fail("c44:state_size-wrong", "state_size(spec=%d) = %s, documented size of the selected components = %d" % (s, o, ref.size(s)),
                         dict(rp, line=l, sizes=ref.sizes))
        elif w[0] == "get" and w[1] == "0":
            s = int(w[2])
            if s >= (1 << ns):
                if o != "error:specRange":
                    orc.fail("c44:get_state-accepts-oversized-spec", "get_state accepted spec %d >= 2^mjNSTATE: %s" % (s, o[:80]), dict(rp, line=l))
                continue
            v = parse_vec(o)
            if v is None:
                orc.fail("c44:get_state-raises", "get_state raised for spec %d: %s" % (s, o[:100]), dict(rp, line=l))
                continue
            if str(len(v)) != last_size.get(s):
                orc.fail("c44:size-ne-length", "state_size(spec=%d) = %s but get_state returned %d values" % (s, last_size.get(s), len(v)), dict(rp, line=l))
            # documented content: the selected components of slot 0, in bit order
            want = []
            for r in ref.comps(s):
                want += ref.fill(bases[0], ref.fields.index(r["field"]), r["field"])
            if v != want:
                orc.fail("c44:get_state-content", "get_state(spec=%d) is not the concatenation of the selected components in bit order" % s,
                         dict(rp, line=l, got=v[:60], want=want[:60]))
            # the tree's C engine on the same state
            if 0 <= s < (1 << ns) and cengine is not None:
                co = cengine.ask("getstate 0 %d" % s)
                cs = cengine.ask("statesize %d" % s)
                c_checked += 1
                cv = None
                if co and ":" in co:
                    import struct
                    cv = [int(round(struct.unpack("<d", bytes.fromhex(h)[::-1])[0])) for h in co.split(":", 1)[1].split()]
                if cv != v or cs != str(len(v)):
                    orc.fail("c44:get_state-differs-from-C", "mjx.get_state(spec=%d) differs from mj_getState of the tree's C engine on the same state" % s,
                             dict(rp, line=l, mjx=v[:60], c=(cv or co)[:60] if cv else co, c_statesize=cs))
        elif w[0] == "dump":
            k = int(w[1])
            prev_dump[k] = dumps.get(k)
            dumps[k] = parse_dump(o)
            if pending_set and pending_set[0] == k:
                _, s, vec, res, before = pending_set
                pending_set = None
                after = dumps[k]
                if before is None:
                    continue
                if res == "ok":
                    sel = {r["field"] for r in ref.comps(s)}
                    off = 0
                    for r in ref.comps(s):
                        f, m = r["field"], ref.n[r["field"]]
                        seg = vec[off:off + m]
                        off += m
                        seg = [1 if x else 0 for x in seg] if ref.isbool[f] else seg
                        if after.get(f) != seg:
                            orc.fail("c44:set_state-component", "after set_state(spec=%d) field %s does not hold its slice of the vector" % (s, f),
                                     dict(rp, line=l, field=f, got=after.get(f), want=seg))
                    for f in ref.fields:
                        if f not in sel and after.get(f) != before.get(f):
                            orc.fail("c44:set_state-frame", "set_state(spec=%d) changed field %s which is not selected" % (s, f),
                                     dict(rp, line=l, field=f, before=before.get(f), after=after.get(f)))
                elif after != before:
                    orc.fail("c44:set_state-failed-but-wrote", "set_state raised (%s) but the data changed" % res, dict(rp, line=l))
        elif w[0] == "set":
            k, s = int(w[1]), int(w[2])
            vec = [int(x) for x in w[3:]]
            if k == 1:
                pending_set = (k, s, vec, o, dumps.get(k))
            if s >= (1 << ns):
                if o != "error:specRange":
                    orc.fail("c44:set_state-accepts-oversized-spec", "set_state accepted spec %d: %s" % (s, o[:80]), dict(rp, line=l))
            elif len(vec) != ref.size(s):
                if not o.startswith("error:sizeMismatch"):
                    orc.fail("c44:set_state-accepts-wrong-length", "set_state(spec=%d) accepted %d values, state_size is %d: %s" % (s, len(vec), ref.size(s), o[:80]),
                             dict(rp, line=l))
            elif o != "ok":
                orc.fail("c44:set_state-raises", "set_state(spec=%d) with a vector of the documented length raised: %s" % (s, o[:100]), dict(rp, line=l))
        elif w[0] == "get" and w[1] in ("1", "3"):
            # read back right after a set with the same spec
            s = int(w[2])
            prev = lines[i - 1].split()
            if prev[0] == "set" and prev[1] == w[1] and int(prev[2]) == s and outs[i - 1] == "ok":
                vec = [int(x) for x in prev[3:]]
                off, want = 0, []
                for r in ref.comps(s):
                    m = ref.n[r["field"]]
                    seg = vec[off:off + m]
                    off += m
                    want += [1 if x else 0 for x in seg] if ref.isbool[r["field"]] else seg
                if parse_vec(o) != want:
                    orc.fail("c44:get-after-set", "get_state after set_state(spec=%d) does not return the vector that was set" % s,
                             dict(rp, line=l, got=(parse_vec(o) or o)[:60] if parse_vec(o) else o, want=want[:60]))
    return c_checked


def c_fill(cengine, ref, base):
    cengine.ask("data 0")
    for p, f in enumerate(ref.fields):
        v = ref.fill(base, p, f)
        if v:
            r = cengine.ask("set 0 %s %s" % (f, " ".join(map(str, v))))
            if r != "ok":
                return "C engine rejected 'set 0 %s' (%d values): %s" % (f, len(v), r)
    return None


# ------------------------------------------------------------------------------------------ run
def run(ctx):
    tmp = []
    procs = []
    try:
        with G.Pin(["c44_tables"]):
            _run(ctx, tmp, procs)
    finally:
        for p in procs:
            try:
                p.close()
            except Exception:
                pass
        for p in tmp:
            if os.path.exists(p):
                os.remove(p)


def build_lean(ctx, info, tmp):
    """P + the compiled model driver, making sure that what lake compiles is the table of THIS tree"""
    ctx.lean_props(THEOREMS)
    drv = None
    if info:
        want = {f: open(os.path.join(GEN_DIR, f)).read() for f in GEN_FILES}

        def ours():
            return all(os.path.exists(os.path.join(GEN_DIR, f)) and open(os.path.join(GEN_DIR, f)).read() == want[f] for f in GEN_FILES)
        for _ in range(4):
            if not ours():
                for f in GEN_FILES:
                    with open(os.path.join(GEN_DIR, f), "w") as fh:
                        fh.write(want[f])
            n0 = len(ctx.obligations)
            ctx.lean_props(THEOREMS_GEN, module="MjProof.Props.C44Gen")
            d = ctx.driver("drv_c44")
            if d:
                os.makedirs(os.path.join(common.CACHE, "c44"), exist_ok=True)
                drv = os.path.join(common.CACHE, "c44", "drv_c44.%d" % os.getpid())
                shutil.copy2(d, drv)
                tmp.append(drv)
                r = common.sh([drv], inp="tableid\n")
                if r.stdout.strip() != info["table_id"]:
                    drv = None
            if ours() and (drv or not d):
                break
            del ctx.obligations[n0:]
            drv = None
        else:
            raise common.Infra("lean/MjProof/Gen/*StateTable.lean keep being modified concurrently")
    else:
        for t in THEOREMS_GEN:
            ctx.oblige("theorem " + t, "theorem", False, "no generated table: the translator refused the source shape")
    with open(os.path.join(common.LEAN, "Audit", "C44.lean"), "w") as f:
        f.write("import MjProof.Props.C44\nimport MjProof.Props.C44Gen\n" + "".join("#print axioms %s\n" % t for t in THEOREMS + THEOREMS_GEN))
    return drv


def c_table_fallback():
    """when the MJX translator refuses, the oracle still needs the documented table: take the C one"""
    sys.path.insert(0, os.path.join(common.VERIF, "translate"))
    os.environ.setdefault("VERIF_REPO", common.REPO)
    import importlib
    c26_tables = importlib.import_module("c26_tables")
    c26_tables.REPO = common.REPO
    _, ci = c26_tables.translate()
    return {"nstate": ci["nstate"], "c_elems": ci["elems"], "c_named": ci["named"], "c_sizes": ci["sizes"], "c_fields": ci["fields"],
            "table_id": None}


def _run(ctx, tmp, procs):
    quick = ctx.tier != "thorough"
    rng = ctx.rng
    ctx.rule = ("models: seeded gen/models.py descriptions restricted to MJX's feature set (free/ball/slide/hinge trees, mocap bodies, "
                "actuators with activation, equalities, userdata), instantiated in C (tree build) and through the wheel's MjSpec "
                "for MJX; specs: 0, all, every single bit, the named unions, all-but-one, seeded random, negative and oversized "
                "integers; a case is distinct by (model, op line); non-trivial = op on a spec selecting a non-empty component")
    ctx.checker_cmd = ("cd /verif && python3 translate/c44_tables.py && cd lean && lake build MjProof.Props.C44 MjProof.Props.C44Gen "
                       "&& lake env lean Audit/C44.lean")
    import time
    tm = ctx.extra.setdefault("timing_s", {})
    t0 = time.time()
    info = run_translators(ctx)
    tm["translators"] = round(time.time() - t0, 1)
    t0 = time.time()
    drv = build_lean(ctx, info, tmp)
    tm["lean (incl. waiting for the shared lake lock)"] = round(time.time() - t0, 1)
    tinfo = info or c_table_fallback()
    t0 = time.time()

    ceng = G.CEngine(ctx)
    if not ceng.exe:
        return
    procs.append(ceng)
    hx = G.start_mjx("harness/py/c44_mjx.py")
    procs.append(hx)
    env = hx.ask("env", timeout=600)
    if env is None:
        rc, err = hx.close()
        raise common.Infra("MJX harness did not start: %s" % err[-800:])
    env = json.loads(env)
    ctx.extra["environment"] = env
    ctx.oblige("environment: every enumerator of the tree's headers has the same value in the wheel's bindings; MJX imported from the tree; x64",
               "environment", not env["enum_mismatches"] and env["x64"] and env["float"] == "float64"
               and os.path.realpath(env["mjx_file"]).startswith(os.path.realpath(common.REPO)), json.dumps(env)[:1500])
    ctx.assumptions.append("the mujoco wheel of /venv is only a container (MjSpec compiler output is cross-checked against the tree's compiler on "
                           "the model sizes; MjData contents for put_data come from the wheel's engine as arbitrary data)")

    orc = Oracle(ctx)
    directed_cases(ctx, orc, hx)
    nmodels = 3 if quick else 7
    all_lines, all_model, all_impl = [], [], []
    hist = {}
    c_checked = 0
    models_ok = []
    for mi in range(nmodels):
        kind = ("rich", "minimal", "rich")[mi] if mi < 3 else "rich"
        if kind == "minimal":
            over = {"nbody": (1, 1), "actuators": (0, 0), "mocap": 0.0, "equalities": 0.0, "tendons": 0.0, "sensors": (0, 1)}
            pre = []
        else:
            over = {"nbody": (2, 5), "mocap": 0.6, "equalities": 0.7, "actuators": (1, 3), "free": 0.5,
                    "actuator_kinds": ("motor", "position", "intvelocity", "cylinder", "muscle", "general")}
            pre = ["spec nuserdata %d" % rng.choice((0, 2, 5))]
        for _ in range(20):
            mdl = G.make_model(rng, over, pre)
            if mdl.nv > 0:      # mjx.kinematics/forward raise on a model without degrees of freedom (a C43 finding, not a C44 matter)
                break
        csz = ceng.model(mdl.lines)
        if csz is None or isinstance(csz, tuple):
            ctx.oblige("tree build compiles generated model %d" % mi, "environment", False, str(csz))
            continue
        ceng.ask("data 0")
        sizes = dict(csz)
        sizes["nhistory"] = ceng.field_len(0, "history")
        sizes["nuserdata"] = ceng.field_len(0, "userdata")
        sizes["npluginstate"] = ceng.field_len(0, "plugin_state")
        ref = Ref(tinfo, sizes)
        desc = G.one_line(mdl.lines)
        lines, bases = model_lines(rng, ref, tinfo, mi, desc, quick)
        # implementation: the real MJX
        outs = []
        for l in lines:
            o = hx.ask(l)
            if o is None:
                rc, err = hx.close()
                orc.fail("c44:harness-died", "MJX harness died / hung on an op", {"line": l[:300], "stderr": err[-600:], "model": desc[:2000]})
                return
            outs.append(o)
        if outs[0] != "ok":
            ctx.oblige("model %d accepted by put_model / same sizes in the wheel and the tree" % mi, "environment", False, outs[0])
            continue
        models_ok.append(mi)
        why = c_fill(ceng, ref, bases[0])
        if why:
            ctx.oblige("C engine holds the same state as slot 0 (model %d)" % mi, "environment", False, why)
        c_checked += state_oracle(orc, ref, lines, outs, None if why else ceng, bases, desc)
        all_lines += lines
        all_impl += outs
        for l in lines:
            op = l.split()[0]
            hist[op] = hist.get(op, 0) + 1
        ctx.sample({"model": mi, "sizes": sizes, "op": lines[6], "mjx_output": outs[6][:200]})
        # ---- oracle-only ops on this model
        extra_ops(ctx, orc, hx, mi, kind, desc, quick)
    tm["mjx harness + C engine + oracle"] = round(time.time() - t0, 1)
    ctx.extra["op_histogram"] = hist
    ctx.extra["models_run"] = models_ok
    ctx.extra["specs_compared_with_C_engine"] = c_checked
    # ---- T: the Lean model on the same lines
    if drv and all_lines:
        rc, om, em = ctx.run_lines([drv], all_lines)
        if rc != 0 or len(om) != len(all_lines):
            raise common.Infra("model driver failed: rc=%d %s" % (rc, em[-300:]))
        bad = [{"line": l[:400], "model": a[:300], "impl": b[:300]} for l, a, b in zip(all_lines, om, all_impl) if a != b]
        for l in all_lines:
            w = l.split()
            nontriv = w[0] in ("get", "set", "size") and len(w) > 1
            ctx.count(l, nontrivial=nontriv)
        ctx.oblige("correspondence mjx.state_size/get_state/set_state (real, tree) vs Lean model on the generated table (%d ops)" % len(all_lines),
                   "correspondence", not bad, json.dumps(bad[:5]))
        ctx.disagreements += [dict(b, stream="mjx-state") for b in bad[:50]]
    ctx.extra["putget_comparison"] = (
        "every field of mjx.Data / mjx.DataJAX that MjData also has is compared EXACTLY (x64 copies) after get_data(put_data(d)), d from "
        "mj_forward / mj_step of the wheel on a random state; representation changes are compared through a canonical form: contacts as a "
        "multiset of (geoms, dim, dist, pos, frame, includemargin, friction, solref, solreffriction, solimp); constraint rows as a multiset of "
        "(type, dense J row, pos, margin, frictionloss, D, aref, force); actuator_moment and ten_J densified through the sparsity pattern their "
        "consumers use; solver_niter: first entry only (documented: MJX has no islands). Not compared: qLD, qLDiagInv (get_data recomputes them "
        "with mj_factorM by design), efc_J sparsity arrays, arena bookkeeping, timers, warnings.")
    ctx.extra["oracle_checked"] = orc.n
    ctx.extra["oracle_failures"] = orc.nfail
    ctx.extra["oracle_failure_keys"] = orc.keys
    if ctx.tier == "thorough":
        ctx.leanchecker(["MjProof.Props.C44", "MjProof.Props.C44Gen"])


def directed_cases(ctx, orc, hx):
    """fixed inputs on which the real code was confirmed to deviate from the property; each has a stable key"""
    o = hx.ask("directed", timeout=900)
    if o is None or not o.startswith("{"):
        orc.fail("c44:directed-cases-raise", "put_data/get_data/make_data raised on the directed cases: %s" % o, {"op": "directed"})
        return
    r = json.loads(o)
    ctx.extra["directed_cases"] = r
    a = r["inactive-limit"]
    orc.n += 3
    if any(a["orig"][k] != a["roundtrip"][k] for k in ("ne", "nf", "nl")):
        orc.fail("c44:putget:ne-nf-nl-not-recomputed",
                 "get_data(put_data(d)) changes ne/nf/nl: a hinge with an inactive joint limit has d.nl = %d, nefc = %d; after the round trip nl = %d, "
                 "nefc = %d (get_data recomputes nefc/ncon from the active rows but copies MJX's static ne/nf/nl)"
                 % (a["orig"]["nl"], a["orig"]["nefc"], a["roundtrip"]["nl"], a["roundtrip"]["nefc"]), {"xml": a["xml"], "result": a})
    b = r["margin-contact"]
    if b["orig"]["ncon"] != b["roundtrip"]["ncon"]:
        orc.fail("c44:putget:contact-positive-dist-dropped",
                 "get_data keeps only contacts with dist <= 0: a sphere 0.02 above a plane with margin 0.05 has ncon = %d (dist %s), after "
                 "put_data/get_data ncon = %d while nefc stays %d" % (b["orig"]["ncon"], b["orig_contact_dist"], b["roundtrip"]["ncon"], b["roundtrip"]["nefc"]),
                 {"xml": b["xml"], "result": b})
    if b["get_data_of_make_data_ncon"] != b["get_data_of_put_data_fresh_ncon"]:
        orc.fail("c44:makedata:contact-dist",
                 "make_data initialises contact.dist to 0 for every potential contact, put_data(fresh MjData) pads with 1e10: "
                 "get_data(make_data(m)).ncon = %d, get_data(put_data(m, MjData(m))).ncon = %d"
                 % (b["get_data_of_make_data_ncon"], b["get_data_of_put_data_fresh_ncon"]), {"xml": b["xml"], "result": b})
    t = r["tendon-zero-entry"]
    orc.n += 1
    if t["ten_J_orig"] != t["ten_J_roundtrip"]:
        orc.fail("c44:putget:ten_J",
                 "a fixed tendon with coefficients (0, 1): read through the model's sparsity pattern, ten_J is %s before and %s after put_data/get_data "
                 "(get_data compresses the dense Jacobian with mju_dense2sparse, which drops the numerically zero first entry, and writes the values "
                 "into MjData.ten_J while the pattern ten_J_rownnz/rowadr/colind lives in the model and is not changed)" % (t["ten_J_orig"], t["ten_J_roundtrip"]),
                 {"xml": t["xml"], "result": t})
    z = r["zero-jacobian-rows"]
    orc.n += 1
    if z["orig_nefc"] != z["roundtrip_nefc"]:
        orc.fail("c44:putget:zero-jacobian-rows-dropped",
                 "a weld on a body that can only translate: MjData has nefc = %d (%d rows with an all-zero Jacobian: the rotational rows of the weld), "
                 "after put_data/get_data nefc = %d (get_data takes the rows with a non-zero Jacobian as the active ones)"
                 % (z["orig_nefc"], z["orig_zero_rows"], z["roundtrip_nefc"]), {"xml": z["xml"], "result": z})


def ask_json(orc, hx, l, rp, timeout=None):
    """an oracle op of the harness: None when the process died; False when the real code raised (reported)"""
    o = hx.ask(l, timeout=timeout)
    if o is None:
        orc.fail("c44:harness-died", "MJX harness died / hung on " + l, dict(rp, line=l))
        return None
    if not o.startswith("{"):
        orc.fail("c44:op-raised:" + l.split()[0] + (":" + l.split()[2] if l.startswith("jitvmap") else ""),
                 "the real MJX code raised while serving the op '%s' (see the harness's stderr): %s" % (l, o[:100]), dict(rp, line=l))
        return False
    return json.loads(o)


def extra_ops(ctx, orc, hx, mi, kind, desc, quick):
    ev = ctx.extra.setdefault("transfer_and_tracing", [])
    rp = {"model": desc, "how": "model line + the op line to harness/py/c44_mjx.py"}
    seeds = [ctx.rng.randrange(1, 10 ** 6) for _ in range(2 if quick else 6)]
    for i, sd in enumerate(seeds):
        l = "putget %d %d" % (sd, (0, 3)[i % 2])
        r = ask_json(orc, hx, l, rp)
        if r is None:
            return
        if r is False:
            continue
        orc.n += r.get("checked", 0)
        ev.append({"model": mi, "op": l, "ncon": r.get("ncon"), "nefc": r.get("nefc"), "fields_checked": r.get("checked"), "differing": r.get("fields")})
        if "raised" in r:
            orc.fail("c44:putget:raised", "get_data(put_data(d)) raised: " + r["raised"], dict(rp, line=l))
            continue
        for f, d in r["fields"].items():
            if f in ("ne", "nf", "nl"):
                key = "c44:putget:ne-nf-nl-not-recomputed"
                what = ("get_data(put_data(d)).%s differs from d.%s: get_data recomputes nefc/ncon from the active rows but copies MJX's static "
                        "ne/nf/nl (all potential equality/friction/limit rows), so ne+nf+nl+nc != nefc whenever a constraint is inactive" % (f, f))
            elif f in ("contact", "ncon") and r.get("positive_dist_contacts"):
                key = "c44:putget:contact-positive-dist-dropped"
                what = ("get_data keeps only contacts with dist <= 0: the %d contact(s) of the original MjData that are inside the margin "
                        "but not penetrating (0 < dist < margin) are lost (%s)" % (r["positive_dist_contacts"], r["fields"].get("contact")))
            elif f == "contact":
                key = "c44:putget:contact"
                what = "contacts differ after put_data/get_data: " + str(d)
            elif f in ("efc", "nefc") and "all-zero Jacobian" in str(r["fields"].get("efc", "")) and not str(r["fields"]["efc"]).endswith("(0 original rows have an all-zero Jacobian)"):
                key = "c44:putget:zero-jacobian-rows-dropped"
                what = ("get_data takes the constraint rows with a non-zero Jacobian as the active ones: rows of the original MjData whose Jacobian "
                        "is all zero (e.g. the rotational rows of a weld on a body without rotational degrees of freedom) are lost: " + str(r["fields"]["efc"]))
            elif f == "efc":
                key = "c44:putget:efc"
                what = "constraint rows differ after put_data/get_data: " + str(d)
            else:
                key = "c44:putget:" + f
                what = "field %s differs after put_data/get_data (%s)" % (f, d)
            orc.fail(key, what, dict(rp, line=l, detail=r["fields"]))
    if mi == 0 or not quick:
        l = "makedata"
        r = ask_json(orc, hx, l, rp)
        if r is None:
            return
        if r is False:
            r = {"fields": {}}
        orc.n += r.get("checked", 0)
        notes = {k: v for k, v in r["fields"].items() if isinstance(v, str) and v.startswith("dtype")}
        real = {k: v for k, v in r["fields"].items() if k not in notes}
        ev.append({"model": mi, "op": l, "leaves_checked": r.get("checked"), "dtype_only_differences_x64": notes, "differing": real})
        if "raised" in r:
            orc.fail("c44:makedata:raised", "make_data / put_data(fresh) raised: " + r["raised"], dict(rp, line=l))
        for f, d in real.items():
            if f.endswith("contact.dist"):
                key = "c44:makedata:contact-dist"
                what = ("make_data initialises contact.dist to 0 for every potential contact, put_data(fresh MjData) pads with 1e10: "
                        "get_data(make_data(m)) reports every potential contact as active (dist <= 0)")
            else:
                key = "c44:makedata:" + f
                what = "make_data and put_data(fresh MjData) differ in %s (%s)" % (f, d)
            orc.fail(key, what, dict(rp, line=l, detail=real))
    # jit / vmap / eager
    jobs = [("state", "vmap+eager"), ("kinematics", "vmap+eager" if (mi == 0 or not quick) else "vmap")]
    if mi == 0 or not quick:
        jobs.append(("forward", "vmap" if (quick or mi > 1) else "vmap+eager"))
    if mi == 2 or not quick:
        jobs.append(("step_nocon", "vmap" if (quick or mi > 1) else "vmap+eager"))
    if not quick:
        jobs.append(("step", "vmap"))
    for fn, mode in jobs:
        l = "jitvmap %d %s %s" % (ctx.rng.randrange(1, 10 ** 6), fn, mode)
        r = ask_json(orc, hx, l, rp, timeout=1500)
        if r is None:
            return
        if r is False:
            continue
        ev.append(dict(r, model=mi))
        for k in ("jit_vmap_vs_jit_per_sample", "vmap_vs_jit_per_sample", "eager_vs_jit"):
            if k not in r:
                continue
            for part, (dev, where) in r[k].items():
                orc.n += 1
                mx = ctx.extra.setdefault("max_relative_deviation", {})
                tag = "%s:%s:%s" % (fn, k, part)
                mx[tag] = max(mx.get(tag, 0.0), dev)
                # iterative solver: termination depends on rounding, ill-conditioned random states amplify it;
                # reported as evidence only (DESIGN §7: jit/vmap transparency is not claimed)
                if part == "solver_dependent" or fn == "step":
                    continue
                if not dev <= TOL_EXACT:
                    orc.fail("c44:jitvmap:%s:%s" % (fn, k), "%s: %s deviates by %.3g (relative) at %s" % (fn, k, dev, where), dict(rp, line=l, result=r))
