"""C35  Compiled mass properties match the geometry (DESIGN.md §5.C35).

P  Lean theorems over ℝ (lean/MjProof/Props/C35.lean) about the executable model lean/MjProof/Model/MassProps.lean,
   whose straight-line kernels (mjuu_quat2mat, mjuu_globalinertia, mjuu_offcenter, …) are the definitions
   *generated* from src/user/user_util.cc by translate/c35_userutil.py (c2lean) on every run.
T  (a) translation validation of the generated kernels: Lean on Float vs the compiled C++ functions, bitwise;
   (b) bitwise differential of the whole hand model (GetVolume, SetInertia, geom mass branch, InertiaFromGeom incl.
       the Jacobi iteration mjuu_eig3 / mjuu_fullInertia, body bounds) against bodies compiled through the mjSpec API;
   (c) bitwise differential of `bodyCompile` / `applyTotalmass` (the inertial part of mjCBody::Compile: explicit inertial
       clause with diagonal or full inertia in any slot order, valid / lamina / non-physical / negative / indefinite,
       inertiafromgeom false|true|auto, inertiagrouprange, boundmass, boundinertia, balanceinertia, settotalmass)
       against bodies compiled with those mjsBody fields and compiler options (`ibody` lines);
   (d) bitwise differential of `bodyCompileState` (the same code with the compile state mjCGeom::mass_ / inertia that
       CopyFromSpec does not reset, threaded through the stages) against edit-then-recompile sequences on ONE mjSpec
       (`redit` lines: 2-4 stages, every later stage edits 1-3 mass-relevant fields — geom density/mass/size/type/
       shell/pose/group/order, body inertial clause, compiler options — and compiles again by mj_compile or mj_recompile).
S  property oracle on the compiled output alone: analytic composition recomputed independently in Python (density ×
   volume, parallel axis), triangle inequality, reconstruction of the full tensor from (body_iquat, body_inertia),
   ellipsoid shell (Thomsen area, finite-difference shell inertia), exact polyhedral meshes, and convergence of
   procedural / generated tessellations of the primitives; for `ibody` cases: EVERY compiled body has non-negative
   moments with A + B >= C and respects the bounds, explicit clauses are stored as given / as the principal
   decomposition of the given tensor, non-physical clauses are rejected or balanced, valid ones (incl. A + B == C) compile;
   for `redit` sequences: every stage of the recompiled spec equals, bitwise, a FRESH spec built with the stage's values
   (and is then judged by the analytic `ibody` oracle).
"""
import json
import math
import os
import struct
import sys

from checks import common

META = {
    "technique": "c2lean translation of the user_util.cc helper kernels (regenerated every run) + hand model of mjCGeom::GetVolume/SetInertia, mjCBody::InertiaFromGeom/AccumulateInertia, mjuu_eig3/mjuu_fullInertia over a law-free number class + Lean 4 proofs over the reals (field_simp/ring against textbook formulas, induction over the geom list, quadratic-form argument for the triangle inequality) + bitwise differential of the model (Lean Float) against bodies compiled through the mjSpec C API + independent analytic oracle in Python incl. mesh tessellations",
    "text": "Proved over the reals, for the model instantiated with pi = Real.pi: for every primitive geom type the volume (and the surface area used for shell inertia) computed by GetVolume equals the analytic value (sphere 4/3 pi r^3 / 4 pi r^2, capsule, cylinder incl. end disks, ellipsoid volume, box); with mass = density x volume the principal moments set by SetInertia equal the textbook composition for solid AND shell variants (solid sphere 2/5 M r^2, spherical shell 2/3 M r^2, solid/thin-walled cylinder with end disks, capsule = cylinder + two hemispheres moved by the parallel-axis theorem with centres of mass at 3r/8 resp. r/2, solid ellipsoid, solid box, box surface as six thin plates) for all positive sizes; a geom given by mass has the properties of density mass/volume; every primitive with non-negative mass and positive sizes satisfies A+B>=C (all ten type/shell cases except the ellipsoid shell); the inertia accumulated by the geom loop of InertiaFromGeom (and of AccumulateInertia) about a point c is exactly sum_i R_i diag(I_i) R_i^T + m_i(|d_i|^2 1 - d_i d_i^T) with the generated mjuu_globalinertia / mjuu_offcenter kernels (parallel_axis), the first loop yields total mass and the mass-weighted mean position, and the Huygens-Steiner theorem holds for the list (inertia about the origin = inertia about the centre of mass + M(|c|^2 1 - c c^T)); sums of parts with unit orientations, non-negative masses and A+B>=C satisfy the coordinate-free triangle inequality, hence every exact principal decomposition (unit q, lambda) of the accumulated tensor has lambda with A+B>=C; for a unit iquat the columns of its rotation matrix are eigenvectors of R diag(inertia) R^T with the stored moments as eigenvalues (principal_axes_reconstruct: the certificate the oracle checks on compiled bodies); for the inertial part of mjCBody::Compile (bodyCompile: explicit inertial clause with diagonal or full inertia, inertiafromgeom false/true/auto, inertiagrouprange, boundmass/boundinertia clamp, sign check, triangle check, balanceinertia) EVERY successful result, for all inputs and options, has non-negative mass and moments within the bounds satisfying A+B>=C in all three arrangements (bodyCompile_triangle / bodyFinish_triangle), physically valid values within the bounds incl. the lamina A+B=C pass unchanged and an explicit clause with unit quaternion is stored exactly as given (bodyFinish_physical, bodyCompile_explicit), non-physical moments in ANY slot order are rejected, or replaced by their mean under balanceinertia (bodyFinish_nonphysical); mj_setTotalmass multiplies all masses and moments by one positive factor, keeps the triangle inequality and reaches the requested total (setTotalmass_eq/_triangle/_total); compile state across compiles of an edited spec (bodyCompileState threads mjCGeom::mass_/inertia, the only mass-relevant members CopyFromSpec does not reset): a first compile is the stateless model (geomCompileState_fresh); what InertiaFromGeom selects from an inferred geom, the selected list, and the body's compiled mass properties are INDEPENDENT of the state left by earlier compiles (recompiled = fresh) whenever the body infers inertia from geoms and no geom in the group range is staleGeom (defined non-zero mass with volume <= mjEPS: Compile then writes neither mass_ nor inertia) (geomCompileState_indep, compileGeoms_sel_indep, bodyCompileState_indep), and likewise for an explicit inertial clause that the geoms do not override (bodyCompileState_explicit_indep); the two excluded classes are exactly the two stale-state findings on /repo.",
    "note": "Partial: the Jacobi iteration mjuu_eig3 is modelled and tied bitwise but NOT proved to diagonalise (inertiaFromGeom_spec_partial states the result is mjuu_fullInertia of the analytic tensor about the weighted-mean point; diagonalisation is checked per compiled body by the reconstruction certificate, measured accuracy ~1e-6 relative because the C loop stops when cos > 1 - 1e-12). Not modelled, oracle only: mesh volume/inertia integrals of user_mesh.cc (exact polyhedra compared at 1e-9, tessellations of sphere / ellipsoid / cylinder / capsule / box converge to the primitive; collision meshes need qhull which is stubbed, so only non-colliding mesh geoms are compiled; mjMESH_INERTIA_CONVEX cannot be exercised), the ellipsoid shell (std::pow Thomsen area: compared with a numerical surface integral at 1.5%; finite-difference shell inertia compared with the analytic thin-shell limit at 1e-4), free-joint alignment (alignfree) and bodies with a non-default body frame or a parent frame (the `ibody` body is a static child of the world with default frame), ialt orientation alternatives of the inertial frame (C36 covers the orientation resolver). bodyCompile / bodyFinish / setTotalmass are hand models tied by the bitwise differential over all branch combinations (distribution in ibody_distribution), not by c2lean (struct member access). pi is a parameter of the model: the driver passes the mjPI literal, the theorems Real.pi. The specification formulas are closed forms (textbook decomposition), not Lebesgue integrals. Reals vs IEEE doubles: rounding is outside the proofs. src/xml is stubbed: bodies are built through the mjSpec C API.",
}

P = "MjProof.C35."
THEOREMS = [P + t for t in (
    "volume_eq_spec_sphere", "volume_eq_spec_capsule", "volume_eq_spec_cylinder", "volume_eq_spec_ellipsoid",
    "volume_eq_spec_box",
    "inertia_eq_spec_sphere", "inertia_eq_spec_capsule", "inertia_eq_spec_cylinder", "inertia_eq_spec_ellipsoid",
    "inertia_eq_spec_box", "mass_branch_eq_density_branch",
    "primitive_inertia_triangle",
    "globalinertia_eq_rotateDiag", "offcenter_eq_pointMass", "parallel_axis", "parallel_axis_accumulate", "massCom_eq",
    "inertiaAbout_shift", "parallel_axis_steiner", "inertiaFromGeom_spec_partial", "inertiaFromGeom_single",
    "triangleFull_diag", "triangleFull_add", "triangleFull_pointMass", "triangleFull_rotateDiag",
    "triangleFull_inertiaAbout", "triangle_of_triangleFull", "sum_preserves_triangle",
    "principal_axes_reconstruct",
    "bodyFinish_triangle", "bodyFinish_frame", "bodyFinish_physical", "bodyFinish_nonphysical",
    "bodyCompile_triangle", "bodyCompile_explicit",
    "setTotalmass_eq", "setTotalmass_triangle", "setTotalmass_total",
    "geomCompileState_fresh", "geomCompileState_indep", "compileGeoms_sel_indep", "bodyCompileState_indep",
    "bodyCompileState_explicit_indep",
)]

# generated kernels the model / theorems depend on (a refusal breaks the tie)
KERNELS = ["mjuu_dot3", "mjuu_quat2mat", "mjuu_mulvecmat", "mjuu_crossvec", "mjuu_frameinvert",
           "mjuu_globalinertia", "mjuu_offcenter", "mjuu_mulvecmatT", "mjuu_mulRMRT", "mjuu_localaxis", "mjuu_localpos"]

SPHERE, CAPSULE, ELLIPSOID, CYLINDER, BOX = 2, 3, 4, 5, 6
TYPES = (SPHERE, CAPSULE, ELLIPSOID, CYLINDER, BOX)
TNAME = {2: "sphere", 3: "capsule", 4: "ellipsoid", 5: "cylinder", 6: "box"}
PI = math.pi

REL = 1e-9          # mass, centre of mass, principal moments, exact polyhedra (observed <= ~1e-13)
# reconstruction of the full tensor from (iquat, inertia): mjuu_eig3 stops when the Jacobi cosine exceeds 1 - 1e-12
# (rotation angle < 1.5e-6) or the off-diagonal element is below 1e-12 absolute: measured <= ~2e-6 relative
REL_RECON = 5e-5
ABS_RECON = 1e-10
ABS_MOMENT = 1e-11   # absolute termination threshold kEigEPS = 1e-12 of mjuu_eig3, x10


def fb(x):
    x = float(x)
    if x != x:
        return "nan"
    return "%016x" % struct.unpack("<Q", struct.pack("<d", x))[0]


def unb(t):
    if t == "nan":
        return float("nan")
    return struct.unpack("<d", struct.pack("<Q", int(t, 16)))[0]


# ------------------------------------------------------------------------------------------ independent spec (Python)
def volume(t, shell, s):
    a, b, c = s
    if t == SPHERE:
        return 4 * PI * a * a if shell else 4.0 / 3 * PI * a ** 3
    if t == CAPSULE:
        h = 2 * b
        return (2 * PI * a * h + 4 * PI * a * a) if shell else (PI * a * a * h + 4.0 / 3 * PI * a ** 3)
    if t == CYLINDER:
        h = 2 * b
        return (2 * PI * a * h + 2 * PI * a * a) if shell else PI * a * a * h
    if t == ELLIPSOID:
        if shell:
            p = 1.6075   # Thomsen (what the code documents); checked against quadrature separately
            return 4 * PI * (((a * b) ** p + (b * c) ** p + (c * a) ** p) / 3) ** (1 / p)
        return 4.0 / 3 * PI * a * b * c
    if t == BOX:
        return 8 * (a * b + b * c + c * a) if shell else 8 * a * b * c
    raise ValueError(t)


def inertia(t, shell, M, s):
    """principal moments of the shape with total mass M (textbook composition)"""
    a, b, c = s
    if t == SPHERE:
        k = (2.0 / 3 if shell else 2.0 / 5) * M * a * a
        return [k, k, k]
    if t == CYLINDER:
        r, hh = a, b
        h = 2 * hh
        if not shell:
            return [M * (3 * r * r + h * h) / 12] * 2 + [M * r * r / 2]
        A = 2 * PI * r * h + 2 * PI * r * r
        Mw, Md = M * 2 * PI * r * h / A, M * PI * r * r / A
        ix = Mw * (r * r / 2 + h * h / 12) + 2 * (Md * r * r / 4 + Md * hh * hh)
        return [ix, ix, Mw * r * r + 2 * Md * r * r / 2]
    if t == CAPSULE:
        r, hh = a, b
        h = 2 * hh
        if not shell:
            V = PI * r * r * h + 4.0 / 3 * PI * r ** 3
            Mc, Mh = M * PI * r * r * h / V, M * (2.0 / 3 * PI * r ** 3) / V
            d = 3 * r / 8
            ix = Mc * (3 * r * r + h * h) / 12 + 2 * (0.4 * Mh * r * r - Mh * d * d + Mh * (hh + d) ** 2)
            return [ix, ix, Mc * r * r / 2 + 2 * 0.4 * Mh * r * r]
        A = 2 * PI * r * h + 4 * PI * r * r
        Mw, Mh = M * 2 * PI * r * h / A, M * 2 * PI * r * r / A
        d = r / 2
        ix = Mw * (r * r / 2 + h * h / 12) + 2 * (2.0 / 3 * Mh * r * r - Mh * d * d + Mh * (hh + d) ** 2)
        return [ix, ix, Mw * r * r + 2 * 2.0 / 3 * Mh * r * r]
    if t == ELLIPSOID:
        if not shell:
            return [M * (b * b + c * c) / 5, M * (a * a + c * c) / 5, M * (a * a + b * b) / 5]
        # thin-shell limit of "expanded ellipsoid minus ellipsoid" (uniform offset t of every semi-axis):
        # I_k = M * d/dt[V(t) J_k(t)] / V'(t) at t = 0, V = 4/3 pi a b c, J_x = (b^2 + c^2)/5
        dV = b * c + a * c + a * b      # d(abc)/dt
        V0 = a * b * c
        out = []
        for (p, q, dp, dq) in ((b, c, 1, 1), (a, c, 1, 1), (a, b, 1, 1)):
            J = (p * p + q * q) / 5
            dJ = (2 * p + 2 * q) / 5
            out.append(M * (dV * J + V0 * dJ) / dV)
        return out
    if t == BOX:
        if not shell:
            return [M * (b * b + c * c) / 3, M * (a * a + c * c) / 3, M * (a * a + b * b) / 3]
        A = 8 * (a * b + b * c + c * a)
        Mz, Mx, My = M * 4 * a * b / A, M * 4 * b * c / A, M * 4 * c * a / A
        return [2 * (Mz * (b * b / 3 + c * c) + Mx * (b * b + c * c) / 3 + My * (c * c / 3 + b * b)),
                2 * (Mz * (a * a / 3 + c * c) + Mx * (c * c / 3 + a * a) + My * (a * a + c * c) / 3),
                2 * (Mz * (a * a + b * b) / 3 + Mx * (b * b / 3 + a * a) + My * (a * a / 3 + b * b))]
    raise ValueError(t)


def qnorm(q):
    n = math.sqrt(sum(x * x for x in q))
    return [x / n for x in q]


def qmat(q):
    w, x, y, z = q
    return [[w * w + x * x - y * y - z * z, 2 * (x * y - w * z), 2 * (x * z + w * y)],
            [2 * (x * y + w * z), w * w - x * x + y * y - z * z, 2 * (y * z - w * x)],
            [2 * (x * z - w * y), 2 * (y * z + w * x), w * w - x * x - y * y + z * z]]


def rdrt(R, d):
    return [[sum(R[i][k] * d[k] * R[j][k] for k in range(3)) for j in range(3)] for i in range(3)]


def compose(parts):
    """parts: list of (mass, pos, unit quat, principal moments) -> (M, com, full 3x3 tensor about com)"""
    M = sum(p[0] for p in parts)
    com = [sum(p[0] * p[1][k] for p in parts) / M for k in range(3)]
    T = [[0.0] * 3 for _ in range(3)]
    for m, pos, q, I in parts:
        G = rdrt(qmat(q), I)
        d = [pos[k] - com[k] for k in range(3)]
        dd = sum(x * x for x in d)
        for i in range(3):
            for j in range(3):
                T[i][j] += G[i][j] + m * ((dd if i == j else 0.0) - d[i] * d[j])
    return M, com, T


def eigvals_sym3(T):
    """cyclic Jacobi to full double precision; returns eigenvalues sorted descending"""
    A = [row[:] for row in T]
    for _ in range(60):
        off = abs(A[0][1]) + abs(A[0][2]) + abs(A[1][2])
        if off < 1e-300 or off < 1e-17 * (abs(A[0][0]) + abs(A[1][1]) + abs(A[2][2])):
            break
        for p, q in ((0, 1), (0, 2), (1, 2)):
            if A[p][q] == 0:
                continue
            th = (A[q][q] - A[p][p]) / (2 * A[p][q])
            t = (1.0 if th >= 0 else -1.0) / (abs(th) + math.sqrt(th * th + 1))
            c = 1 / math.sqrt(t * t + 1)
            s = t * c
            J = [[1.0 if i == j else 0.0 for j in range(3)] for i in range(3)]
            J[p][p] = c; J[q][q] = c; J[p][q] = s; J[q][p] = -s
            A = [[sum(J[k][i] * A[k][l] * J[l][j] for k in range(3) for l in range(3)) for j in range(3)] for i in range(3)]
    return sorted((A[0][0], A[1][1], A[2][2]), reverse=True)


# ------------------------------------------------------------------------------------------ generators
def rsize(rng):
    r = rng.random()
    if r < 0.6:
        return rng.uniform(0.02, 0.5)
    if r < 0.8:
        return rng.uniform(0.005, 0.05)
    if r < 0.95:
        return rng.uniform(0.5, 3.0)
    return rng.choice((0.01, 0.1, 0.25, 1.0, 2.0))


def rquat(rng):
    r = rng.random()
    if r < 0.15:
        return [1.0, 0.0, 0.0, 0.0]
    q = [rng.gauss(0, 1) for _ in range(4)]
    n = math.sqrt(sum(x * x for x in q))
    q = [x / n for x in q]
    if r < 0.25:   # 90 degree rotations: degenerate pivots in the Jacobi iteration
        q = rng.choice(([0.7071067811865476, 0.7071067811865476, 0, 0], [0.5, 0.5, 0.5, 0.5], [0.0, 1.0, 0.0, 0.0],
                        [0.7071067811865476, 0, 0, 0.7071067811865476]))
        q = [float(x) for x in q]
    elif r < 0.4:  # not normalised: the geom compiler normalises
        k = rng.uniform(0.3, 3.0)
        q = [x * k for x in q]
    elif r < 0.5:  # tiny rotation
        q = [1.0, rng.uniform(-1e-7, 1e-7), rng.uniform(-1e-7, 1e-7), rng.uniform(-1e-7, 1e-7)]
    return q


def rgeom(rng, allow_eshell=False):
    t = rng.choice(TYPES)
    sh = rng.random() < 0.4
    if t == ELLIPSOID and not allow_eshell:
        sh = False
    um = rng.random() < 0.35
    md = rng.uniform(0.05, 20.0) if um else rng.choice((1000.0, rng.uniform(50, 5000), rng.uniform(0.5, 50)))
    s = [rsize(rng) for _ in range(3)]
    if rng.random() < 0.1:
        s[1] = s[0]
    if rng.random() < 0.05:
        s[2] = s[1] = s[0]
    pr = rng.random()
    pos = [0.0, 0.0, 0.0] if pr < 0.1 else [rng.uniform(-1, 1) * (0.05 if pr < 0.3 else 1.0) for _ in range(3)]
    return {"t": t, "sh": int(sh), "um": int(um), "md": md, "s": s, "pos": pos, "q": rquat(rng)}


def geom_tokens(g):
    return [str(g["t"]), str(g["sh"]), str(g["um"]), fb(g["md"])] + [fb(x) for x in g["s"] + g["pos"] + g["q"]]


def body_line(gs):
    toks = []
    for g in gs:
        toks += geom_tokens(g)
    return "body %d %s" % (len(gs), " ".join(toks))


def gen_diff_lines(ctx):
    rng = ctx.rng
    thorough = ctx.tier == "thorough"
    lines, meta = [], []
    hist = {}
    nprim = 3000 if thorough else 400
    for _ in range(nprim):
        t = rng.choice(TYPES)
        sh = int(rng.random() < 0.5)
        s = [rsize(rng) for _ in range(3)]
        if not (t == ELLIPSOID and sh):
            lines.append("vol %d %d %s" % (t, sh, " ".join(map(fb, s))))
            meta.append(("vol", t, sh, s))
        m = rng.uniform(0.01, 50)
        lines.append("inert %d %d %s %s" % (t, sh, fb(m), " ".join(map(fb, s))))
        meta.append(("inert", t, sh, m, s))
        k = "prim:%s:%s" % (TNAME[t], "shell" if sh else "solid")
        hist[k] = hist.get(k, 0) + 1
    nbody = 5000 if thorough else 200
    for _ in range(nbody):
        n = rng.choice((1, 1, 2, 2, 3, 3, 4, 5))
        gs = [rgeom(rng) for _ in range(n)]
        r = rng.random()
        if r < 0.06 and n >= 2:      # identical parts: degenerate eigenvalues
            gs = [dict(gs[0]) for _ in range(n)]
            for i, g in enumerate(gs):
                g["pos"] = [0.3 * i, 0.0, 0.0]
        elif r < 0.10:               # one geom below the mass threshold mjEPS: not selected
            gs[0]["um"], gs[0]["md"] = 1, rng.choice((1e-15, 5e-15, 0.0))
        elif r < 0.13:               # zero density
            gs[-1]["um"], gs[-1]["md"] = 0, 0.0
        lines.append(body_line(gs))
        meta.append(("body", gs))
        hist["body:n=%d" % n] = hist.get("body:n=%d" % n, 0) + 1
    # malformed ops: both sides must reject
    lines += ["frob 1 2", "vol 7 0 %s %s %s" % (fb(1), fb(1), fb(1)), "vol 2 0 zz %s %s" % (fb(1), fb(1)),
              "body 2 " + " ".join(geom_tokens(rgeom(rng))), "inert 2 2 %s %s %s %s" % (fb(1), fb(1), fb(1), fb(1))]
    meta += [("bad",)] * 5
    ctx.extra["differential_distribution"] = hist
    return lines, meta


# ---- bodies with an inertial clause and non-default compiler options (the inertial part of mjCBody::Compile)
def perm3(rng, v):
    v = list(v)
    rng.shuffle(v)
    return v


def rdiag(rng):
    """(kind, [d0, d1, d2]) for an explicit diagonal inertia"""
    k = rng.choice(("valid-sorted", "valid-unsorted", "valid-unsorted", "boundary", "nonphys", "nonphys", "nonphys",
                    "negative", "zero", "equal"))
    sc = 10 ** rng.uniform(-4, 2)
    if k.startswith("valid") or k == "nonphys":
        a, b = sorted((rng.uniform(0.05, 1.0), rng.uniform(0.05, 1.0)))
        if k == "nonphys":
            c = (a + b) * (1 + rng.choice((1e-6, 1e-3, 0.05, 1.0, 9.0)))
            slot = rng.randrange(3)             # where the offending (largest) moment goes
            d = [a, b]
            rng.shuffle(d)
            d.insert(slot, c)
            return "nonphys:slot%d" % slot, [x * sc for x in d]
        c = rng.uniform(b, (a + b) * (1 - 1e-6))   # b <= c < a + b
        d = [c, b, a] if k == "valid-sorted" else perm3(rng, (a, b, c))
        return k, [x * sc for x in d]
    if k == "boundary":                            # A + B == C exactly (dyadic): a lamina, physically valid
        a, b = rng.randint(1, 64) / 64.0, rng.randint(1, 64) / 64.0
        return k, perm3(rng, (a, b, a + b))
    if k == "negative":
        d = perm3(rng, (rng.uniform(0.1, 1), rng.uniform(0.1, 1), -rng.choice((1e-9, 0.01, 0.5))))
        return k, d
    if k == "zero":
        return k, [0.0, 0.0, 0.0]
    x = rng.uniform(0.01, 2)
    return "equal", [x, x, x]


def ribody(rng):
    """one `ibody` case: compiler options + inertial clause + geoms"""
    c = {}
    c["bm"] = 0.0 if rng.random() < 0.65 else rng.choice((rng.uniform(0.001, 5.0), 100.0))
    c["bi"] = 0.0 if rng.random() < 0.65 else 10 ** rng.uniform(-6, 0.5)
    c["bal"] = int(rng.random() < 0.4)
    c["ifg"] = rng.choice((2, 2, 2, 1, 1, 0))
    r = rng.random()
    c["range"] = [0, 5] if r < 0.65 else (sorted((rng.randint(0, 5), rng.randint(0, 5))) if r < 0.92 else
                                           rng.choice(([3, 2], [-2, -1], [6, 9], [-1, 7])))
    c["stm"] = rng.choice((0.0, -1.0)) if rng.random() < 0.8 else rng.uniform(0.1, 20.0)
    kind = rng.choice(("none", "diag", "diag", "diag", "full", "full"))
    c["mass"] = 0.0
    c["ipos"] = [0.0, 0.0, 0.0]
    c["iquat"] = [1.0, 0.0, 0.0, 0.0]
    c["diag"] = [0.0, 0.0, 0.0]
    c["full"] = [0.0] * 6
    c["hasfull"] = 0
    c["expl"] = c["hasipos"] = 0
    c["ikind"] = kind
    if kind != "none":
        c["expl"] = c["hasipos"] = 1
        r = rng.random()
        c["mass"] = rng.uniform(0.01, 50.0) if r < 0.85 else (0.0 if r < 0.93 else -rng.uniform(0.01, 1.0))
        c["ipos"] = [rng.uniform(-1, 1) for _ in range(3)] if rng.random() < 0.8 else [0.0, 0.0, 0.0]
        c["iquat"] = rquat(rng)
        if kind == "diag":
            c["ikind"], c["diag"] = rdiag(rng)
            c["ikind"] = "diag:" + c["ikind"]
        else:
            fk = rng.choice(("valid", "valid", "diagonal", "nonphys", "nonphys", "indefinite", "with-diag"))
            if fk in ("valid", "diagonal", "with-diag"):
                _, ev = rdiag(rng)
                while min(ev) <= 1e-6 or 2 * max(ev) > sum(ev) * (1 - 1e-6):
                    _, ev = rdiag(rng)
            elif fk == "nonphys":
                k2, ev = rdiag(rng)
                while not k2.startswith("nonphys"):
                    k2, ev = rdiag(rng)
                ev = [max(x, 1e-3) for x in ev]
            else:
                ev = perm3(rng, (rng.uniform(0.1, 1), rng.uniform(0.1, 1), -rng.uniform(0.001, 0.5)))
            q = [1.0, 0.0, 0.0, 0.0] if fk == "diagonal" else qnorm([rng.gauss(0, 1) for _ in range(4)])
            T = rdrt(qmat(q), ev)
            c["full"] = [T[0][0], T[1][1], T[2][2], T[0][1], T[0][2], T[1][2]]
            c["hasfull"] = 1
            c["fullev"] = sorted(ev, reverse=True)
            if fk == "with-diag":
                c["diag"] = perm3(rng, (0.0, 0.0, rng.choice((1.0, 1e-300, -0.5))))
            c["ikind"] = "full:" + fk
        r = rng.random()
        if r < 0.04:
            c["expl"] = 0          # inconsistent flag combinations of the mjSpec API
        elif r < 0.08:
            c["hasipos"] = 0
    n = rng.choice((0, 0, 1, 1, 2, 3)) if kind != "none" else rng.choice((0, 1, 1, 2, 2, 3, 4))
    c["geoms"] = []
    for _ in range(n):
        g = rgeom(rng)
        g["group"] = rng.randint(0, 5)
        c["geoms"].append(g)
    return c


def ibody_line(c):
    toks = [fb(c["bm"]), fb(c["bi"]), str(c["bal"]), str(c["ifg"]), str(c["range"][0]), str(c["range"][1]), fb(c["stm"]),
            str(c["expl"]), fb(c["mass"]), str(c["hasipos"])]
    toks += [fb(x) for x in c["ipos"] + c["iquat"] + c["diag"]] + [str(c["hasfull"])] + [fb(x) for x in c["full"]]
    toks.append(str(len(c["geoms"])))
    for g in c["geoms"]:
        toks += [str(g["group"])] + geom_tokens(g)
    return "ibody " + " ".join(toks)


def gen_ibody_lines(ctx):
    rng = ctx.rng
    n = 6000 if ctx.tier == "thorough" else 350
    lines, cases, hist = [], [], {}
    for _ in range(n):
        c = ribody(rng)
        lines.append(ibody_line(c))
        cases.append(c)
        for k in ("inertial=" + c["ikind"], "fromgeom=%d" % c["ifg"], "balance=%d" % c["bal"],
                  "boundmass=%s" % ("0" if c["bm"] == 0 else ">0"), "boundinertia=%s" % ("0" if c["bi"] == 0 else ">0"),
                  "grouprange=%s" % ("default" if c["range"] == [0, 5] else "narrowed"),
                  "settotalmass=%s" % (">0" if c["stm"] > 0 else "off"), "ngeom=%d" % len(c["geoms"])):
            hist[k] = hist.get(k, 0) + 1
    # malformed: both sides must reject
    good = ibody_line(ribody(rng)).split()
    for bad in (good[:20], good[:4] + ["3"] + good[5:], good[:3] + ["2x"] + good[4:], good + ["0"],
                good[:28] + [str(int(good[28]) + 1)] + good[29:]):
        lines.append(" ".join(bad))
        cases.append(None)
    ctx.extra["ibody_distribution"] = hist
    return lines, cases


# ---- edit-then-recompile sequences on ONE spec (compile state surviving between compiles)
INERTIAL_KEYS = ("mass", "ipos", "iquat", "diag", "full", "hasfull", "expl", "hasipos", "ikind", "fullev")
OPTION_KEYS = ("bm", "bi", "bal", "ifg", "range", "stm")


def redit_edit(rng, c):
    """one edit of a mass-relevant field of the stage `c` (in place); returns its name"""
    import copy
    kinds = ["opt"] * 2 + ["inertial"] * 2
    if c["geoms"]:
        kinds += ["density0", "density0", "mass0", "density", "mass", "size", "tiny", "type", "shell", "pose", "group",
                  "density0", "swap", "size", "type", "shell"]
    k = rng.choice(kinds)
    if k == "opt":
        f = ribody(rng)
        key = rng.choice(OPTION_KEYS)
        c[key] = f[key]
        return "compiler." + key
    if k == "inertial":
        f = ribody(rng)
        for key in INERTIAL_KEYS:
            if key in f:
                c[key] = copy.deepcopy(f[key])
            else:
                c.pop(key, None)
        return "inertial"
    g = rng.choice(c["geoms"])
    if k == "density0":
        g["um"], g["md"] = 0, 0.0
    elif k == "mass0":
        g["um"], g["md"] = 1, 0.0
    elif k == "density":
        g["um"], g["md"] = 0, rng.choice((1000.0, rng.uniform(0.5, 5000)))
    elif k == "mass":
        g["um"], g["md"] = 1, rng.uniform(0.05, 20.0)
    elif k == "size":
        g["s"] = [rsize(rng) for _ in range(3)]
    elif k == "tiny":          # volume / area below mjEPS: a defined mass is then not applied
        e = rng.choice((1e-6, 1e-8))
        g["s"] = [e * rng.uniform(0.5, 1.0) for _ in range(3)]
        if rng.random() < 0.7:
            g["um"], g["md"] = 1, rng.uniform(0.05, 20.0)
    elif k == "type":
        g["t"] = rng.choice(TYPES)
        if g["t"] == ELLIPSOID:
            g["sh"] = 0
    elif k == "shell":
        g["sh"] = 0 if (g["sh"] or g["t"] == ELLIPSOID) else 1
    elif k == "pose":
        g["pos"] = [rng.uniform(-1, 1) for _ in range(3)]
        g["q"] = rquat(rng)
    elif k == "group":
        g["group"] = rng.randint(0, 5)
    elif k == "swap" and len(c["geoms"]) >= 2:
        a, b = rng.sample(range(len(c["geoms"])), 2)
        c["geoms"][a], c["geoms"][b] = c["geoms"][b], c["geoms"][a]
    return "geom." + k


def gen_redit_lines(ctx):
    import copy
    rng = ctx.rng
    ncase = 2500 if ctx.tier == "thorough" else 220
    lines, seqs, hist = [], [], {}
    for _ in range(ncase):
        c = ribody(rng)
        n = rng.choice((1, 2, 2, 3, 4)) if rng.random() < 0.9 else 0
        while len(c["geoms"]) < n:
            g = rgeom(rng)
            g["group"] = rng.randint(0, 5)
            c["geoms"].append(g)
        c["geoms"] = c["geoms"][:n]
        if rng.random() < 0.5:        # plain body first: defaults, inertia inferred from all geoms
            c.update({"bm": 0.0, "bi": 0.0, "bal": 0, "ifg": 2, "range": [0, 5], "stm": -1.0})
        k = rng.choice((2, 2, 3, 4))
        stages, edits = [c], [[]]
        for _ in range(k - 1):
            d = copy.deepcopy(stages[-1])
            ed = [redit_edit(rng, d) for _ in range(rng.choice((1, 1, 2, 3)))]
            stages.append(d)
            edits.append(ed)
        api = rng.randrange(2)
        toks = ["redit", str(api), str(k), str(n)]
        for st in stages:
            toks += ibody_line(st).split()[1:28]
            for g in st["geoms"]:
                toks += [str(g["group"])] + geom_tokens(g)
        lines.append(" ".join(toks))
        seqs.append({"api": api, "stages": stages, "edits": edits})
        for ed in edits[1:]:
            for e in ed:
                hist[e] = hist.get(e, 0) + 1
        hist["api=%d" % api] = hist.get("api=%d" % api, 0) + 1
        hist["stages=%d" % k] = hist.get("stages=%d" % k, 0) + 1
    good = lines[0].split()
    for bad in (good[:40], [good[0], "2"] + good[2:], good[:2] + ["0"] + good[3:], good + ["0"]):
        lines.append(" ".join(bad))
        seqs.append(None)
    ctx.extra["redit_distribution"] = hist
    return lines, seqs


def gen_kernel_lines(ctx, manifest):
    rng = ctx.rng
    per = 600 if ctx.tier == "thorough" else 60
    lines = []
    for k in KERNELS:
        info = manifest["kernels"].get(k)
        if not info:
            continue
        for _ in range(per):
            style = rng.choice(("gauss", "unit", "wide", "special"))
            vals = []
            for nm, kind in info["inputs"]:
                if style == "gauss":
                    v = rng.gauss(0, 1)
                elif style == "unit":
                    v = rng.uniform(-1, 1)
                elif style == "wide":
                    v = rng.uniform(-1, 1) * 10 ** rng.randint(-8, 8)
                else:
                    v = rng.choice((0.0, -0.0, 1.0, -1.0, 0.5, 2.0, 1e-15, 1e300, math.pi))
                vals.append(v)
            if "quat" in " ".join(n for n, _ in info["inputs"]) and rng.random() < 0.2:
                # exact identity quaternion: the short-cut branch of mjuu_quat2mat
                for i, (nm, kind) in enumerate(info["inputs"]):
                    if nm.startswith("quat_") or nm.startswith("oldquat_"):
                        vals[i] = 1.0 if nm.endswith("_0") else 0.0
            lines.append(k + " " + " ".join(fb(v) for v in vals))
    lines.append("mjuu_nosuchkernel " + fb(1.0))
    return lines


# ------------------------------------------------------------------------------------------ oracle
class Oracle:
    def __init__(self, ctx):
        self.ctx = ctx
        self.nfail = 0
        self.checked = 0
        self.maxdev = {"mass": 0.0, "com": 0.0, "moments": 0.0, "reconstruct": 0.0, "unit_iquat": 0.0, "mesh_exact": 0.0,
                       "moments_individual": 0.0}

    def fail(self, key, what, replay):
        self.nfail += 1
        # at most 3 reports per key and 24 in all, so that a frequent (e.g. recorded) class cannot crowd out another one
        self.perkey = getattr(self, "perkey", {})
        self.perkey[key] = self.perkey.get(key, 0) + 1
        if self.perkey[key] <= 3 and sum(min(v, 3) for v in self.perkey.values()) <= 24:
            self.ctx.oracle_failure("c35:" + key, what, replay)

    def dev(self, k, v):
        if v == v and v > self.maxdev[k]:
            self.maxdev[k] = v

    def expected_parts(self, gs):
        parts = []
        for g in gs:
            t, sh, s = g["t"], bool(g["sh"]), g["s"]
            V = volume(t, sh, s)
            if g["um"]:
                M = g["md"] if (g["md"] != 0 and V > 1e-14) else 0.0
            else:
                M = g["md"] * V
            if M > 1e-14:
                parts.append((M, g["pos"], qnorm(g["q"]), inertia(t, sh, M, s)))
        return parts

    def check_body(self, line, out, gs, label="body"):
        self.checked += 1
        rp = {"line": line[:3000], "impl_output": out, "replay": "echo '<line>' | <c35_mass harness>"}
        toks = out.split()
        if len(toks) != 11:
            return self.fail(label + ":no-result", "compile failed or malformed output for a valid body: " + out[:100], rp)
        v = [unb(x) for x in toks]
        mass, ipos, iquat, I = v[0], v[1:4], v[4:8], v[8:11]
        parts = self.expected_parts(gs)
        if not parts:
            if mass != 0 or any(I):
                self.fail(label + ":mass-from-nothing", "no geom above the mass threshold but mass/inertia non-zero", rp)
            return
        has_eshell = any(g["t"] == ELLIPSOID and g["sh"] for g in gs)
        rel = 1.5e-2 if has_eshell else REL   # Thomsen area is a 1.06 % approximation used for both sides' mass? no: only impl
        M, com, T = compose(parts)
        scale = max(1e-300, abs(M))
        self.dev("mass", abs(mass - M) / scale) if not has_eshell else None
        if abs(mass - M) > rel * scale:
            return self.fail(label + ":mass", "body_mass %r differs from density x volume %r" % (mass, M), rp)
        if len(parts) == 1:
            # single selected geom: frame and moments are copied
            pexp, qexp, Iexp = parts[0][1], parts[0][2], parts[0][3]
            if max(abs(a - b) for a, b in zip(ipos, pexp)) > REL * (1 + max(abs(x) for x in pexp)):
                return self.fail(label + ":ipos", "body_ipos %r != geom pos %r" % (ipos, pexp), rp)
            if min(max(abs(a - b) for a, b in zip(iquat, qexp)), max(abs(a + b) for a, b in zip(iquat, qexp))) > 1e-9:
                return self.fail(label + ":iquat", "body_iquat %r != geom quat %r" % (iquat, qexp), rp)
            tr = sum(Iexp)
            d = max(abs(a - b) for a, b in zip(I, Iexp)) / max(tr, 1e-300)
            if not has_eshell:
                self.dev("moments", d)
            if d > (1e-4 if has_eshell else rel):
                return self.fail(label + ":inertia:%s:%s" % (TNAME[gs[0]["t"]], "shell" if gs[0]["sh"] else "solid"),
                                 "body_inertia %r differs from the analytic moments %r" % (I, Iexp), rp)
        else:
            L = 1 + max(abs(x) for p in parts for x in p[1])
            dc = max(abs(a - b) for a, b in zip(ipos, com)) / L
            self.dev("com", dc) if not has_eshell else None
            if dc > rel:
                return self.fail(label + ":com", "body_ipos %r differs from the centre of mass %r" % (ipos, com), rp)
            tr = T[0][0] + T[1][1] + T[2][2]
            ev = eigvals_sym3(T)
            # mjuu_eig3 stops as soon as the LARGEST off-diagonal element needs a rotation with cos > 1 - 1e-12 (or is below
            # 1e-12 absolute), so smaller off-diagonal elements between nearly equal moments may stay: individual stored
            # moments are only accurate to ~1e-6 relative in near-degenerate cases (observed 2.4e-10).  What holds to rounding
            # for ANY orthogonal frame is the trace, and the Frobenius norm up to the square of the residual:
            dtr = abs(sum(I) - tr) / (tr + ABS_MOMENT / REL)
            fro = sum(T[i][j] ** 2 for i in range(3) for j in range(3))
            dfro = abs(sum(x * x for x in I) - fro) / (fro + (ABS_MOMENT / REL) ** 2)
            dm = max(abs(a - b) for a, b in zip(sorted(I, reverse=True), ev)) / (tr + ABS_MOMENT / REL)
            if not has_eshell:
                self.dev("moments", max(dtr, dfro))
                self.dev("moments_individual", dm)
            if max(dtr, dfro) > (1e-3 if has_eshell else rel):
                return self.fail(label + ":moments", "trace / Frobenius norm of body_inertia %r differ from those of the parallel-axis sum (eigenvalues %r)" % (I, ev), rp)
            if dm > (1e-3 if has_eshell else REL_RECON):
                return self.fail(label + ":moments", "body_inertia %r differs from the eigenvalues %r of the parallel-axis sum" % (I, ev), rp)
            if not (I[0] >= I[1] - 1e-12 * tr - 2e-12 and I[1] >= I[2] - 1e-12 * tr - 2e-12):   # the sort swaps only beyond kEigEPS = 1e-12 absolute
                return self.fail(label + ":order", "principal moments not in decreasing order: %r" % (I,), rp)
            nq = abs(sum(x * x for x in iquat) - 1)
            self.dev("unit_iquat", nq)
            if nq > 1e-9:
                return self.fail(label + ":iquat-norm", "body_iquat is not a unit quaternion: %r" % (iquat,), rp)
            Rc = rdrt(qmat(iquat), I)
            dr = max(abs(Rc[i][j] - T[i][j]) for i in range(3) for j in range(3))
            self.dev("reconstruct", dr / tr) if not has_eshell else None
            if dr > (1e-3 if has_eshell else REL_RECON) * tr + ABS_RECON:
                return self.fail(label + ":reconstruct", "R(iquat) diag(inertia) R^T differs from the parallel-axis tensor by %g (trace %g)" % (dr, tr), rp)
        # triangle inequality of the stored moments
        tr = sum(I)
        if I[0] + I[1] < I[2] - 1e-12 * tr or I[0] + I[2] < I[1] - 1e-12 * tr or I[1] + I[2] < I[0] - 1e-12 * tr or min(I) < 0:
            self.fail(label + ":triangle", "compiled body_inertia violates A + B >= C: %r" % (I,), rp)


    # ---- bodies with an inertial clause / non-default compiler options (`ibody` lines)
    def check_ibody(self, line, out, c):
        """Independent statement of what the compiler must deliver for an `ibody` case (implementation output alone):
        every compiled body has non-negative moments satisfying A + B >= C and respects boundmass / boundinertia /
        settotalmass; an explicit inertial clause is stored as given (diaginertia) or as the principal decomposition of
        the given tensor (fullinertia); non-physical clauses are rejected, or balanced to their mean with balanceinertia;
        physically valid ones (incl. the lamina A + B == C) compile."""
        self.checked += 1
        rp = {"line": line[:3000], "impl_output": out, "case": c, "replay": "echo '<line>' | <c35_mass harness>"}
        toks = out.split()
        compiled = len(toks) == 11
        if not compiled and out != "error":
            return self.fail("ibody:malformed-output", "unexpected output: " + out[:100], rp)
        bm, bi, stm = c["bm"], c["bi"], c["stm"]
        if compiled:
            v = [unb(x) for x in toks]
            mass, ipos, iquat, I = v[0], v[1:4], v[4:8], v[8:11]
            tr = sum(I)
            if not (mass >= 0 and min(I) >= 0):
                return self.fail("ibody:negative", "compiled body has negative mass or moments: %r %r" % (mass, I), rp)
            if 2 * max(I) - tr > 1e-12 * tr:
                return self.fail("ibody:triangle", "compiled body_inertia violates A + B >= C: %r (inertial %s, balanceinertia=%d)"
                                 % (I, c["ikind"], c["bal"]), rp)
            if abs(sum(x * x for x in iquat) - 1) > 1e-9:
                return self.fail("ibody:iquat-norm", "body_iquat is not a unit quaternion: %r" % (iquat,), rp)
            if stm <= 0 and (mass < bm * (1 - 1e-12) or min(I) < bi * (1 - 1e-12)):
                return self.fail("ibody:bound", "boundmass %r / boundinertia %r not enforced: mass %r inertia %r" % (bm, bi, mass, I), rp)
        if c["expl"] != c["hasipos"]:
            return   # flag combinations that no MJCF can express: bitwise differential + the clauses above only
        lo, hi = c["range"]
        from_geoms = c["ifg"] == 1 or (c["ifg"] == 2 and not c["expl"])
        sel = [g for g in c["geoms"] if lo <= g["group"] <= hi] if from_geoms else []
        parts = self.expected_parts(sel)
        if any(g["t"] == ELLIPSOID and g["sh"] for g in c["geoms"]):
            return
        frame = None      # expected unit iquat (up to sign) when it is determined
        full = None       # expected full tensor in the body frame (before bounds / balancing / scaling)
        elementwise = False
        fullmom = None
        if c["hasfull"]:
            # an inertial clause is validated even when the geoms override it (inertiafromgeom = true)
            if any(x != 0 for x in c["diag"]):
                if compiled:
                    self.fail("ibody:full+diag-accepted", "fullinertia together with a diagonal inertia was accepted", rp)
                return
            f = c["full"]
            full = [[f[0], f[3], f[4]], [f[3], f[1], f[5]], [f[4], f[5], f[2]]]
            fullmom = eigvals_sym3(full)
            if fullmom[2] < -1e-9 * abs(fullmom[0]):
                if compiled:
                    self.fail("ibody:indefinite-accepted", "fullinertia with eigenvalues %r was accepted" % (fullmom,), rp)
                return
            if fullmom[2] < 1e-9 * abs(fullmom[0]) + 1e-12:
                return   # at the positivity threshold mjEPS: either outcome
        if parts:
            M, p0, T = compose(parts)
            if len(parts) == 1:
                mom, frame, elementwise, p0 = list(parts[0][3]), parts[0][2], True, parts[0][1]
            else:
                mom, full = eigvals_sym3(T), T
                if mom[2] < 1e-11:
                    return   # mjuu_fullInertia rejects eigenvalues below mjEPS = 1e-14: at that scale either outcome
            m0, kind = M, "geoms"
        else:
            m0, p0, kind = c["mass"], (c["ipos"] if c["hasipos"] else [0.0, 0.0, 0.0]), c["ikind"]
            if c["hasfull"]:
                mom = fullmom
            else:
                mom, frame, elementwise = list(c["diag"]), (qnorm(c["iquat"]) if c["hasipos"] else [1.0, 0.0, 0.0, 0.0]), True
        # bounds, sign check, triangle inequality, balancing
        m1 = max(m0, bm)
        mom1 = [max(x, bi) for x in mom]
        changed = mom1 != mom
        if m1 < 0 or min(mom1) < 0:
            if compiled:
                self.fail("ibody:negative-accepted", "negative mass / inertia (%r, %r) was accepted" % (m1, mom1), rp)
            return
        tr1 = sum(mom1)
        viol = 2 * max(mom1) - tr1
        exact_ok = tr1 == 0 or mom1[0] == mom1[1] == mom1[2] or (c["ikind"] == "diag:boundary" and kind != "geoms" and not changed)
        if not exact_ok and abs(viol) <= 1e-9 * tr1:
            return       # within rounding of A + B == C: either outcome
        if viol > 0 and not exact_ok:
            if not c["bal"]:
                if compiled:
                    self.fail("ibody:nonphysical-accepted", "non-physical inertia %r (inertial %s) compiled without balanceinertia: body_inertia %r"
                              % (mom1, kind, I), rp)
                return
            mom1, changed = [tr1 / 3.0] * 3, True
        if not compiled:
            return self.fail("ibody:valid-rejected", "physically valid mass %r / inertia %r (inertial %s) was rejected" % (m1, mom1, kind), rp)
        scale = 1.0
        if stm > 0:
            scale = max(1e-15, stm / max(1e-15, m1))
            if scale > 1e12:
                return
        m2, mom2 = m1 * scale, [x * scale for x in mom1]
        tr2 = sum(mom2)
        tolm = REL if kind == "geoms" else 1e-12
        if abs(mass - m2) > tolm * abs(m2) + 1e-300:
            return self.fail("ibody:mass", "body_mass %r, expected %r (inertial %s, boundmass %r, settotalmass %r)" % (mass, m2, kind, bm, stm), rp)
        if max(abs(a - b) for a, b in zip(ipos, p0)) > tolm * (1 + max(abs(x) for x in p0)):
            return self.fail("ibody:ipos", "body_ipos %r, expected %r (inertial %s)" % (ipos, p0, kind), rp)
        if elementwise:
            if max(abs(a - b) for a, b in zip(I, mom2)) > tolm * tr2 + 1e-300:
                return self.fail("ibody:inertia", "body_inertia %r, expected %r (inertial %s, boundinertia %r, balanceinertia %d, settotalmass %r)"
                                 % (I, mom2, kind, bi, c["bal"], stm), rp)
            if min(max(abs(a - b) for a, b in zip(iquat, frame)), max(abs(a + b) for a, b in zip(iquat, frame))) > 1e-9:
                return self.fail("ibody:iquat", "body_iquat %r, expected %r" % (iquat, frame), rp)
        else:
            d = max(abs(a - b) for a, b in zip(sorted(I, reverse=True), sorted(mom2, reverse=True)))
            if d > REL_RECON * tr2 + ABS_MOMENT * max(1.0, scale):
                return self.fail("ibody:moments", "body_inertia %r differs from the eigenvalues %r of the given tensor (inertial %s)" % (I, mom2, kind), rp)
            if not changed:
                Rc = rdrt(qmat(iquat), I)
                dr = max(abs(Rc[i][j] - full[i][j] * scale) for i in range(3) for j in range(3))
                self.dev("reconstruct", dr / max(tr2, 1e-300))
                if dr > REL_RECON * tr2 + ABS_RECON * max(1.0, scale):
                    return self.fail("ibody:reconstruct", "R(iquat) diag(inertia) R^T differs from the given tensor by %g (trace %g, inertial %s)"
                                     % (dr, tr2, kind), rp)
        self.nibody_full = getattr(self, "nibody_full", 0) + 1


def ellipsoid_area_quadrature(a, b, c, n=120):
    """surface area by Gauss-free midpoint quadrature on the (theta, phi) parametrisation"""
    tot = 0.0
    for i in range(n):
        th = (i + 0.5) * math.pi / n
        st, ct = math.sin(th), math.cos(th)
        for j in range(2 * n):
            ph = (j + 0.5) * math.pi / n
            sp, cp = math.sin(ph), math.cos(ph)
            # |r_theta x r_phi|
            ex = b * c * st * st * cp
            ey = a * c * st * st * sp
            ez = a * b * st * ct
            tot += math.sqrt(ex * ex + ey * ey + ez * ez)
    return tot * (math.pi / n) ** 2


# ---- tessellations generated here (vertices as floats are exact for the coordinates chosen where exactness is claimed)
def box_mesh(a, b, c):
    V = [(-a, -b, -c), (a, -b, -c), (a, b, -c), (-a, b, -c), (-a, -b, c), (a, -b, c), (a, b, c), (-a, b, c)]
    F = [(0, 2, 1), (0, 3, 2), (4, 5, 6), (4, 6, 7), (0, 1, 5), (0, 5, 4), (1, 2, 6), (1, 6, 5), (2, 3, 7), (2, 7, 6), (3, 0, 4), (3, 4, 7)]
    return V, F


def prism_mesh(r, hh, n):
    V = [(0.0, 0.0, -hh), (0.0, 0.0, hh)]
    for k in range(n):
        a = 2 * math.pi * k / n
        V.append((r * math.cos(a), r * math.sin(a), -hh))
        V.append((r * math.cos(a), r * math.sin(a), hh))
    F = []
    for k in range(n):
        b0, t0 = 2 + 2 * k, 3 + 2 * k
        b1, t1 = 2 + 2 * ((k + 1) % n), 3 + 2 * ((k + 1) % n)
        F += [(0, b1, b0), (1, t0, t1), (b0, b1, t1), (b0, t1, t0)]
    return V, F


def capsule_mesh(r, hh, n):
    """latitude-longitude capsule: n longitudes, n/2 latitudes per hemisphere"""
    nl = max(2, n // 2)
    V, rings = [], []
    V.append((0.0, 0.0, hh + r))
    for i in range(1, nl + 1):       # top hemisphere, down to the equator
        th = (math.pi / 2) * i / nl
        rings.append([len(V) + k for k in range(n)])
        for k in range(n):
            ph = 2 * math.pi * k / n
            V.append((r * math.sin(th) * math.cos(ph), r * math.sin(th) * math.sin(ph), hh + r * math.cos(th)))
    for i in range(nl, 0, -1):       # bottom hemisphere, from the equator down
        th = (math.pi / 2) * i / nl
        rings.append([len(V) + k for k in range(n)])
        for k in range(n):
            ph = 2 * math.pi * k / n
            V.append((r * math.sin(th) * math.cos(ph), r * math.sin(th) * math.sin(ph), -hh - r * math.cos(th)))
    bot = len(V)
    V.append((0.0, 0.0, -hh - r))
    F = []
    for k in range(n):
        F.append((0, rings[0][k], rings[0][(k + 1) % n]))
    for a, b in zip(rings[:-1], rings[1:]):
        for k in range(n):
            k1 = (k + 1) % n
            F += [(a[k], b[k], b[k1]), (a[k], b[k1], a[k1])]
    for k in range(n):
        F.append((bot, rings[-1][(k + 1) % n], rings[-1][k]))
    return V, F


def mesh_user_line(density, inertia_kind, scale, V, F, refpos=(0, 0, 0), refquat=(1, 0, 0, 0)):
    return "mesh %r %d %s %s %s user %d %d %s %s" % (
        density, inertia_kind, " ".join(repr(float(x)) for x in scale), " ".join(repr(float(x)) for x in refpos),
        " ".join(repr(float(x)) for x in refquat), len(V), len(F),
        " ".join(repr(float(x)) for v in V for x in v), " ".join(str(i) for f in F for i in f))


def mesh_builtin_line(density, inertia_kind, scale, kind, params):
    return "mesh %r %d %s 0 0 0 1 0 0 0 builtin %d %s" % (
        density, inertia_kind, " ".join(repr(float(x)) for x in scale), kind, " ".join(repr(float(p)) for p in params))


def parse_body_out(out):
    t = out.split()
    if len(t) != 11:
        return None
    v = [unb(x) for x in t]
    return v[0], v[1:4], v[4:8], v[8:11]


def mesh_oracle(ctx, orc, impl):
    """exact polyhedra and convergence of tessellations (implementation output alone)"""
    rng = ctx.rng
    thorough = ctx.tier == "thorough"
    from gen.enums import E as EN
    EXACT, SHELL = EN("mjMESH_INERTIA_EXACT"), EN("mjMESH_INERTIA_SHELL")
    LEGACY = EN("mjMESH_INERTIA_LEGACY")
    BSPHERE = EN("mjMESH_BUILTIN_SPHERE")
    lines, specs = [], []

    def add(line, spec):
        lines.append(line)
        specs.append(spec)

    # (1) exact: box meshes with dyadic half-extents; volume inertia must equal the box primitive
    for _ in range(12 if thorough else 4):
        a, b, c = (rng.randint(1, 64) / 64.0 for _ in range(3))
        rho = rng.choice((1000.0, rng.uniform(10, 3000)))
        V, F = box_mesh(a, b, c)
        for kind in (EXACT, LEGACY, SHELL):
            add(mesh_user_line(rho, kind, (1, 1, 1), V, F), ("exact", BOX, kind == SHELL, rho, (a, b, c), "box-mesh", (0.0, 0.0, 0.0)))
        # the same box obtained by scaling a unit cube mesh, and shifted by refpos (mass properties are shift invariant)
        V1, F1 = box_mesh(1.0, 1.0, 1.0)
        # vertices become (v - refpos) * scale: the centre of mass moves to -refpos * scale
        add(mesh_user_line(rho, EXACT, (a, b, c), V1, F1, refpos=(0.25, -0.5, 0.125)),
            ("exact", BOX, False, rho, (a, b, c), "box-mesh-scaled", (-0.25 * a, 0.5 * b, -0.125 * c)))
    # (2) convergence: builtin sphere with increasing subdivision, scaled to an ellipsoid
    for _ in range(3 if thorough else 1):
        sc = (rng.uniform(0.1, 1.0), rng.uniform(0.1, 1.0), rng.uniform(0.1, 1.0))
        rho = rng.uniform(100, 2000)
        for sub in range(0, 5):
            add(mesh_builtin_line(rho, EXACT, sc, BSPHERE, [sub]), ("conv", "ellipsoid", ELLIPSOID, False, rho, sc, sub))
        r = rng.uniform(0.1, 1.0)
        for sub in range(0, 5):
            add(mesh_builtin_line(rho, SHELL, (r, r, r), BSPHERE, [sub]), ("conv", "sphere-shell", SPHERE, True, rho, (r, r, r), sub))
    # (3) convergence: cylinder prisms and capsules generated here
    for _ in range(2 if thorough else 1):
        r, hh, rho = rng.uniform(0.1, 0.6), rng.uniform(0.1, 0.8), rng.uniform(100, 2000)
        for n in (8, 16, 32, 64, 128):
            V, F = prism_mesh(r, hh, n)
            add(mesh_user_line(rho, EXACT, (1, 1, 1), V, F), ("conv", "cylinder", CYLINDER, False, rho, (r, hh, 0), n))
            add(mesh_user_line(rho, SHELL, (1, 1, 1), V, F), ("conv", "cylinder-shell", CYLINDER, True, rho, (r, hh, 0), n))
        for n in (8, 16, 32, 64):
            V, F = capsule_mesh(r, hh, n)
            add(mesh_user_line(rho, EXACT, (1, 1, 1), V, F), ("conv", "capsule", CAPSULE, False, rho, (r, hh, 0), n))
            add(mesh_user_line(rho, SHELL, (1, 1, 1), V, F), ("conv", "capsule-shell", CAPSULE, True, rho, (r, hh, 0), n))
    # (4) scale: the same tessellations at small absolute sizes (sub-millimetre .. centimetre), thin plates and fine
    #     tessellations, in exact / legacy / shell mode.  Mass properties are homogeneous in the length unit (mass ~ s^3,
    #     inertia ~ s^5; shell s^2, s^4; com ~ s), so the scaled mesh must agree with the unit-size mesh after rescaling and
    #     be as close to the primitive as the unit-size mesh is.  Only faces far above the documented "ignore" cutoff
    #     (2*area < mjMINVAL = 1e-15) are generated: every face has 2*area >= 1e-10.
    def min2area(V, F):
        best = float("inf")
        for (i, j, k) in F:
            b = [V[j][q] - V[i][q] for q in range(3)]
            c = [V[k][q] - V[i][q] for q in range(3)]
            n = (b[1] * c[2] - b[2] * c[1], b[2] * c[0] - b[0] * c[2], b[0] * c[1] - b[1] * c[0])
            best = min(best, math.sqrt(n[0] * n[0] + n[1] * n[1] + n[2] * n[2]))
        return best

    scale_dist = []
    nscale = 10 if thorough else 5
    for ci in range(nscale):
        shape = ("prism", "prism", "capsule", "box", "bsphere")[ci] if ci < 5 else rng.choice(("prism", "capsule", "box", "bsphere"))
        rho = rng.choice((1000.0, rng.uniform(100, 8000)))
        if shape == "prism":
            n = 128 if ci == 0 else rng.choice((32, 64, 128))
            r = rng.uniform(0.3, 1.0)
            hh = r * rng.uniform(0.02, 0.1) if (ci == 0 or rng.random() < 0.5) else rng.uniform(0.3, 1.0)
            V, F = prism_mesh(r, hh, n)
            t, sizes, ubound = CYLINDER, (r, hh, 0), (2 * math.pi / n) ** 2
        elif shape == "capsule":
            n = rng.choice((16, 32))
            r, hh = rng.uniform(0.2, 0.6), rng.uniform(0.1, 0.8)
            V, F = capsule_mesh(r, hh, n)
            t, sizes, ubound = CAPSULE, (r, hh, 0), 4 * (2 * math.pi / n) ** 2
        elif shape == "box":
            a, b = rng.randint(8, 64) / 64.0, rng.randint(8, 64) / 64.0
            c = rng.choice((rng.randint(1, 4) / 128.0, rng.randint(8, 64) / 64.0))
            V, F = box_mesh(a, b, c)
            n, t, sizes, ubound = 0, BOX, (a, b, c), 1e-6
        else:
            n = rng.choice((2, 3))
            r = rng.uniform(0.3, 1.0)
            V, F = None, None
            t, sizes, ubound = SPHERE, (r, r, r), 0.2
        m2a = min2area(V, F) if V else 2 * 4 * math.pi * r * r / (20 * 4 ** n) * 0.5
        # length unit: forced sub-millimetre for the first case, log-uniform otherwise; keep 2*area >= 1e-10
        s = 10 ** (rng.uniform(-3.5, -3.0) if ci == 0 else rng.uniform(-3.5, -2.0))
        s = max(s, math.sqrt(1e-10 / m2a))
        for kind in (EXACT, LEGACY, SHELL):
            sh = kind == SHELL
            if V:
                ref = len(lines)
                add(mesh_user_line(rho, kind, (1, 1, 1), V, F), ("scaleref", shape, t, sh, rho, sizes, ubound))
                add(mesh_user_line(rho, kind, (s, s, s), V, F), ("scale", shape + ":attr", t, sh, rho, sizes, s, ref))
                Vs = [tuple(x * s for x in v) for v in V]
                add(mesh_user_line(rho, kind, (1, 1, 1), Vs, F), ("scale", shape + ":baked", t, sh, rho, sizes, s, ref))
            else:
                ref = len(lines)
                add(mesh_builtin_line(rho, kind, (r, r, r), BSPHERE, [n]), ("scaleref", shape, t, sh, rho, sizes, ubound))
                add(mesh_builtin_line(rho, kind, (r * s, r * s, r * s), BSPHERE, [n]), ("scale", shape + ":attr", t, sh, rho, sizes, s, ref))
        scale_dist.append({"shape": shape, "n": n, "unit_sizes": ["%.4g" % x for x in sizes], "length_unit": "%.3e" % s,
                           "min_2area_scaled": "%.3e" % (m2a * s * s), "density": "%.4g" % rho})
    ctx.extra["mesh_scale_cases"] = {"rule": "shape x {exact, legacy, shell} x {scale attribute, scale baked into the float vertices}; "
                                             "length unit 10^U(-3.5,-2) (first case 10^U(-3.5,-3), 128-gon thin disc), raised so "
                                             "that every face has 2*area >= 1e-10; compared with the unit-size mesh after "
                                             "rescaling (rel 1e-5) and with the primitive",
                                     "cases": scale_dist}
    rc, outs, err = ctx.run_lines([impl], lines)
    if rc != 0 or len(outs) != len(lines):
        orc.fail("mesh:crash", "mesh harness crashed (rc=%s)" % rc, {"stderr": err[-400:]})
        return
    conv = {}
    nexact = 0
    parsed = [parse_body_out(o) for o in outs]
    scale_dev = {"covariance": 0.0, "primitive_excess": 0.0, "unit_primitive": 0.0}

    def prim_err(res, t, sh, rho, sz):
        M = rho * volume(t, sh, sz)
        Iexp = sorted(inertia(t, sh, M, sz), reverse=True)
        return max(abs(res[0] - M) / M, max(abs(x - y) for x, y in zip(sorted(res[3], reverse=True), Iexp)) / sum(Iexp))

    for line, out, sp in zip(lines, outs, specs):
        if sp[0] in ("scale", "scaleref"):
            res = parse_body_out(out)
            rp = {"line": line[:1500], "impl_output": out, "replay": "echo '<line>' | <c35_mass harness>"}
            if res is None:
                orc.fail("mesh:scale:no-result", "mesh body did not compile: " + out[:120], rp)
                continue
            ctx.count(("mesh-scale", line[:80], len(line)))
            if sp[0] == "scaleref":
                _, shape, t, sh, rho, sizes, ubound = sp
                e1 = prim_err(res, t, sh, rho, sizes)
                scale_dev["unit_primitive"] = max(scale_dev["unit_primitive"], e1)
                if e1 > ubound:
                    orc.fail("mesh:scale:unit:" + shape, "unit-size %s tessellation deviates by %g (> %g) from the primitive" % (shape, e1, ubound), rp)
                continue
            _, tag, t, sh, rho, sizes, s, ref = sp
            r0 = parsed[ref]
            if r0 is None:
                continue
            pm, pi_ = (2, 4) if sh else (3, 5)
            m0, c0, _, I0 = r0
            I0s = sorted(I0, reverse=True)
            Is = sorted(res[3], reverse=True)
            d = max(abs(res[0] / s ** pm - m0) / m0, max(abs(x / s ** pi_ - y) for x, y in zip(Is, I0s)) / sum(I0s),
                    max(abs(x / s - y) for x, y in zip(res[1], c0)) / max(sizes))
            scale_dev["covariance"] = max(scale_dev["covariance"], d)
            rp["unit_size_output"] = outs[ref]
            rp["length_unit"] = s
            if d > 1e-5:
                orc.fail("mesh:scale:covariance:" + tag, "%s mesh at length unit %g: mass / inertia / com rescaled to unit size deviate by %g "
                         "from the unit-size mesh (mass ratio %g)" % (tag, s, d, res[0] / s ** pm / m0), rp)
                continue
            ssz = tuple(x * s for x in sizes)
            es, e1 = prim_err(res, t, sh, rho, ssz), prim_err(r0, t, sh, rho, sizes)
            scale_dev["primitive_excess"] = max(scale_dev["primitive_excess"], es - e1)
            if es > e1 + 1e-5:
                orc.fail("mesh:scale:primitive:" + tag, "%s mesh at length unit %g deviates by %g from the primitive's mass properties "
                         "(unit-size mesh: %g)" % (tag, s, es, e1), rp)
            continue
        res = parse_body_out(out)
        rp = {"line": line[:1500], "impl_output": out, "replay": "echo '<line>' | <c35_mass harness>"}
        if res is None:
            orc.fail("mesh:no-result", "mesh body did not compile: " + out[:120], rp)
            continue
        mass, ipos, iquat, I = res
        if sp[0] == "exact":
            _, t, sh, rho, s, tag, cexp = sp
            M = rho * volume(t, sh, s)
            Iexp = sorted(inertia(t, sh, M, s), reverse=True)
            d = max(abs(mass - M) / M, max(abs(x - y) for x, y in zip(sorted(I, reverse=True), Iexp)) / sum(Iexp),
                    max(abs(x - y) for x, y in zip(ipos, cexp)))
            orc.dev("mesh_exact", d)
            nexact += 1
            ctx.count(("mesh-exact", line[:80]))
            if d > REL * 100:   # vertices are floats, coordinates dyadic: observed ~1e-16
                orc.fail("mesh:exact:" + tag, "polyhedral %s mesh: mass/inertia/com deviate by %g from the exact values" % (tag, d), rp)
        else:
            _, name, t, sh, rho, s, level = sp
            M = rho * volume(t, sh, s)
            Iexp = sorted(inertia(t, sh, M, s), reverse=True)
            e = max(abs(mass - M) / M, max(abs(x - y) for x, y in zip(sorted(I, reverse=True), Iexp)) / sum(Iexp))
            conv.setdefault((name, rho, s), []).append((level, e, rp))
            ctx.count(("mesh-conv", line[:80]))
    summary = {}
    for (name, rho, s), seq in conv.items():
        seq.sort(key=lambda x: x[0])
        errs = [e for _, e, _ in seq]
        summary.setdefault(name, []).append(["%.2e" % e for e in errs])
        # errors must shrink with refinement and the finest level must be close to the primitive
        bound = {"ellipsoid": 0.02, "sphere-shell": 0.02, "cylinder": 0.005, "cylinder-shell": 0.005, "capsule": 0.01, "capsule-shell": 0.01}[name]
        if errs[-1] > bound:
            orc.fail("mesh:converge:" + name, "finest tessellation of %s still deviates by %g (> %g) from the primitive" % (name, errs[-1], bound), seq[-1][2])
        elif any(b > a * 0.7 + 1e-12 for a, b in zip(errs[:-1], errs[1:])):
            orc.fail("mesh:monotone:" + name, "tessellation error of %s does not shrink under refinement: %r" % (name, errs), seq[-1][2])
    ctx.extra["mesh_convergence_errors"] = summary
    ctx.extra["mesh_exact_cases"] = nexact
    ctx.extra["mesh_scale_max_deviation"] = {k: "%.3e" % v for k, v in scale_dev.items()}


def fmt_out(o):
    t = o.split()
    if len(t) != 11:
        return o
    v = [unb(x) for x in t]
    return "mass %.6g ipos %s inertia %s" % (v[0], ["%.4g" % x for x in v[1:4]], ["%.6g" % x for x in v[8:11]])


def stale_class(sq, j):
    """stable class of a recompiled != fresh disagreement at stage j.  By bodyCompileState_indep /
    bodyCompileState_explicit_indep the compiled body can depend on the state left by earlier compiles only through
    (1) a geom in the group range whose inertia is inferred and that has a defined non-zero mass with volume <= mjEPS
    (Compile writes neither mass_ nor inertia), or (2) explicitinertial set while ipos is undefined under
    inertiafromgeom = auto (InertiaFromGeom runs over geoms that were not compiled for inertia).  Both are recorded
    findings on /repo; anything else is an unexplained stale state."""
    st = sq["stages"][j]
    infer = (not st["expl"]) or st["ifg"] == 1
    call = st["ifg"] == 1 or (not st["hasipos"] and st["ifg"] == 2)
    lo, hi = st["range"]
    if infer:
        if any(lo <= g["group"] <= hi and g["um"] and g["md"] != 0 and not (g["t"] == ELLIPSOID and g["sh"])
               and volume(g["t"], bool(g["sh"]), g["s"]) <= 1e-14 for g in st["geoms"]):
            return "stale-geom-mass:mass-with-volume-below-mjEPS"
    elif call:
        return "stale-geom-mass:explicitinertial-without-ipos"
    return "stale-state"


def run(ctx):
    ctx.rule = ("op lines: `vol`/`inert` per primitive type x {solid, shell} with sizes in [0.005, 3], `body` with 1-5 posed "
                "geoms (mass or density given, unit / unnormalised / identity / 90-degree quaternions, coincident and identical "
                "parts, parts below the mass threshold), `ibody` with an inertial clause (none / diagonal valid, unsorted, lamina, "
                "non-physical in each slot, negative, zero / full valid, diagonal, non-physical, indefinite, with diagonal) x "
                "compiler options (boundmass, boundinertia, balanceinertia, inertiafromgeom, inertiagrouprange, settotalmass) x "
                "0-4 grouped geoms, `redit` edit+recompile sequences (2-4 stages on one spec, 1-3 field edits per stage, mj_compile / "
                "mj_recompile), kernel lines for the generated user_util.cc kernels, mesh lines "
                "(exact polyhedra, refinement sequences, the same tessellations at sub-millimetre .. centimetre length units in exact / legacy / shell mode); a case is distinct by its full line; non-trivial = every accepted op")
    # ---- T: regenerate the user_util kernels from the working tree
    r = common.sh([sys.executable, os.path.join(common.VERIF, "translate", "c35_userutil.py")], timeout=900)
    ctx.oblige("translate/c35_userutil.py regenerates lean/MjProof/Gen/UserUtil.lean from the working tree", "translator",
               r.returncode == 0, (r.stdout + r.stderr)[-1500:])
    mp = os.path.join(common.LEAN, "MjProof", "Gen", "userutil_manifest.json")
    manifest = json.load(open(mp)) if os.path.exists(mp) else {"kernels": {}, "refused": {}}
    for k in KERNELS:
        if k in manifest["kernels"]:
            ctx.oblige("c2lean translates %s (sha %s)" % (k, manifest["kernels"][k]["sha256"][:12]), "translator", True)
        else:
            ctx.oblige("c2lean translates " + k, "translator", False, manifest.get("refused", {}).get(k, "missing from the manifest"))
    ctx.extra["refused_hand_modelled"] = manifest.get("refused", {})
    # ---- P
    ctx.lean_props(THEOREMS)
    drv = ctx.driver("drv_c35")
    impl = ctx.harness("harness/c/c35_mass.c", "c35_mass")
    hsrc = os.path.join(common.CACHE, "gen", "userutil_harness.cc")
    kimpl = ctx.harness(os.path.relpath(hsrc, common.VERIF), "userutil_harness") if os.path.exists(hsrc) else None
    if not (drv and impl):
        return
    # ---- T (a): generated kernels, bitwise
    if kimpl:
        klines = gen_kernel_lines(ctx, manifest)
        ctx.differential("generated user_util.cc kernels — Lean(Float) vs compiled C++, bitwise", [drv], [kimpl], klines,
                         keyf=lambda l: l)
    # ---- T (b): the hand model end to end, bitwise
    lines, meta = gen_diff_lines(ctx)
    ctx.differential("GetVolume / SetInertia / InertiaFromGeom+eig3 model vs compiled bodies (mjSpec), bitwise",
                     [drv], [impl], lines, keyf=lambda l: l if l.split()[0] in ("vol", "inert", "body") and len(l.split()) > 5 else None)
    # ---- T (c): inertial clause + compiler options (bodyCompile / applyTotalmass), bitwise
    ilines, icases = gen_ibody_lines(ctx)
    ctx.differential("explicit inertial / boundmass / boundinertia / balanceinertia / inertiafromgeom / inertiagrouprange / "
                     "settotalmass: bodyCompile model vs compiled bodies (mjSpec), bitwise",
                     [drv], [impl], ilines, keyf=lambda l: l if len(l.split()) >= 29 else None)
    # ---- S: oracle on the implementation alone
    orc = Oracle(ctx)
    rc, iouts, err = ctx.run_lines([impl], ilines)
    if rc != 0 or len(iouts) != len(ilines):
        ctx.oracle_failure("c35:crash", "c35_mass crashed on ibody lines (rc=%s)" % rc, {"stderr": err[-500:]})
        return
    nerr = 0
    for line, out, c in zip(ilines, iouts, icases):
        if c is None:
            if out != "bad-op":
                orc.fail("malformed-accepted", "malformed op accepted", {"line": line, "impl_output": out})
            continue
        nerr += out == "error"
        orc.check_ibody(line, out, c)
    ctx.extra["ibody_cases"] = {"total": len(ilines) - 5, "rejected_by_compiler": nerr,
                                "fully_predicted_by_oracle": getattr(orc, "nibody_full", 0)}
    # ---- T (d) + S: edit-then-recompile sequences on one spec
    rlines, rseqs = gen_redit_lines(ctx)
    ctx.differential("edit + recompile sequences on one mjSpec: bodyCompileState (geom compile state mass_/inertia threaded "
                     "through the stages) vs mj_compile / mj_recompile of the edited spec, bitwise",
                     [drv], [impl], rlines, keyf=lambda l: l if len(l.split()) >= 31 else None)
    rc, routs, err = ctx.run_lines([impl], rlines)
    if rc != 0 or len(routs) != len(rlines):
        ctx.oracle_failure("c35:crash", "c35_mass crashed on redit lines (rc=%s)" % rc, {"stderr": err[-500:]})
        return
    flines, fidx = [], []
    for i, sq in enumerate(rseqs):
        if sq is None:
            if routs[i] != "bad-op":
                orc.fail("malformed-accepted", "malformed op accepted", {"line": rlines[i][:300], "impl_output": routs[i]})
            continue
        for j, st in enumerate(sq["stages"]):
            flines.append(ibody_line(st))
            fidx.append((i, j))
    rc, fouts, err = ctx.run_lines([impl], flines)
    if rc != 0 or len(fouts) != len(flines):
        ctx.oracle_failure("c35:crash", "c35_mass crashed on the fresh counterparts of redit lines (rc=%s)" % rc, {"stderr": err[-500:]})
        return
    nstage = nstale = 0
    for (i, j), fl, fo in zip(fidx, flines, fouts):
        sq = rseqs[i]
        parts = routs[i].split(" | ")
        if routs[i] == "unsupported":
            continue
        if len(parts) != len(sq["stages"]):
            orc.fail("redit:malformed-output", "unexpected output " + routs[i][:100], {"line": rlines[i][:3000]})
            continue
        nstage += 1
        if parts[j] != fo:
            nstale += 1
            st = sq["stages"][j]
            cls = stale_class(sq, j)
            orc.fail("recompile:" + cls,
                     "stage %d of an edit+recompile sequence (api %s, edits %s) compiles to %s but a fresh spec with the same "
                     "values compiles to %s" % (j + 1, "mj_recompile" if sq["api"] else "mj_compile", sq["edits"][j], fmt_out(parts[j]), fmt_out(fo)),
                     {"line": rlines[i][:6000], "stage": j + 1, "impl_output": routs[i], "fresh_line": fl, "fresh_output": fo,
                      "edits": sq["edits"], "stage_values": st, "replay": "echo '<line>' | <c35_mass harness>; echo '<fresh_line>' | <c35_mass harness>"})
        else:
            # the recompiled result also has to be the analytic one
            orc.check_ibody(rlines[i], parts[j], sq["stages"][j])
    ctx.extra["redit_cases"] = {"sequences": len(rlines) - 4, "stages_compared_with_fresh": nstage, "stages_differing": nstale}
    rc, outs, err = ctx.run_lines([impl], lines)
    if rc != 0 or len(outs) != len(lines):
        ctx.oracle_failure("c35:crash", "c35_mass crashed (rc=%s)" % rc, {"stderr": err[-500:]})
        return
    for line, out, mt in zip(lines, outs, meta):
        if mt[0] == "bad":
            if out != "bad-op":
                orc.fail("malformed-accepted", "malformed op accepted", {"line": line, "impl_output": out})
        elif mt[0] == "vol":
            _, t, sh, s = mt
            orc.checked += 1
            try:
                v = unb(out)
            except Exception:
                orc.fail("vol:no-result", "no volume for a valid geom: " + out[:80], {"line": line, "impl_output": out})
                continue
            ve = volume(t, bool(sh), s)
            if abs(v - ve) > REL * ve:
                orc.fail("volume:%s:%s" % (TNAME[t], "shell" if sh else "solid"),
                         "GetVolume gives %r, analytic %r" % (v, ve),
                         {"line": line, "impl_output": out, "type": TNAME[t], "shell": sh, "size": s, "replay": "echo '<line>' | <c35_mass harness>"})
        elif mt[0] == "inert":
            _, t, sh, m, s = mt
            g = {"t": t, "sh": sh, "um": 1, "md": m, "s": s, "pos": [0.0, 0.0, 0.0], "q": [1.0, 0.0, 0.0, 0.0]}
            toks = out.split()
            if len(toks) != 3:
                orc.fail("inert:no-result", "no inertia for a valid geom: " + out[:80], {"line": line, "impl_output": out})
                continue
            fake = " ".join([fb(m), fb(0), fb(0), fb(0), fb(1), fb(0), fb(0), fb(0)] + toks)
            orc.check_body(line, fake, [g], label="geom")
        else:
            orc.check_body(line, out, mt[1])
    # ellipsoid shell (outside the model): implementation only
    elines, emeta = [], []
    for _ in range(300 if ctx.tier == "thorough" else 40):
        s = [ctx.rng.uniform(0.05, 1.0) for _ in range(3)]
        rho = ctx.rng.uniform(1, 100)
        g = {"t": ELLIPSOID, "sh": 1, "um": 0, "md": rho, "s": s, "pos": [0.1, 0.2, -0.3], "q": rquat(ctx.rng)}
        # density branch through `vol`-like single body: use the mesh-free `inert` (mass given) for the moments
        elines.append("inert %d 1 %s %s" % (ELLIPSOID, fb(2.5), " ".join(map(fb, s))))
        emeta.append(s)
    rc, outs2, err = ctx.run_lines([impl], elines)
    nq = 0
    for line, out, s in zip(elines, outs2 if rc == 0 else [], emeta):
        toks = out.split()
        if len(toks) != 3:
            orc.fail("eshell:no-result", "ellipsoid shell did not compile: " + out[:80], {"line": line, "impl_output": out})
            continue
        I = [unb(x) for x in toks]
        Iexp = inertia(ELLIPSOID, True, 2.5, s)
        d = max(abs(a - b) for a, b in zip(I, Iexp)) / sum(Iexp)
        ctx.count(("eshell", line))
        if d > 1e-4:
            orc.fail("inertia:ellipsoid:shell", "ellipsoid shell inertia %r differs from the thin-shell limit %r" % (I, Iexp),
                     {"line": line, "impl_output": out, "size": s})
        if nq < (20 if ctx.tier == "thorough" else 4):
            nq += 1
            A = ellipsoid_area_quadrature(*s)
            At = volume(ELLIPSOID, True, s)
            if abs(A - At) > 0.015 * A:
                orc.fail("thomsen", "Thomsen area %r vs quadrature %r" % (At, A), {"size": s})
    # Thomsen area as compiled: one body with density 1 (the `vol` op declares the ellipsoid shell unsupported, so use `body` on
    # the implementation only is also unsupported by protocol) -> covered through mass = density x area in check_body tolerance.
    mesh_oracle(ctx, orc, impl)
    ctx.extra["oracle_checked"] = orc.checked
    ctx.extra["oracle_failures"] = orc.nfail
    ctx.extra["max_relative_deviation"] = {k: float("%.3g" % v) for k, v in orc.maxdev.items()}
    ctx.extra["tolerances"] = {"mass/com/moments/exact-mesh": REL, "reconstruct_rel": REL_RECON, "reconstruct_abs": ABS_RECON,
                               "moments_abs": ABS_MOMENT, "ellipsoid_shell_inertia": 1e-4, "thomsen_area": 0.015}
    i = next((k for k, l in enumerate(lines) if l.startswith("body 3")), 0)
    ctx.sample({"op": lines[i][:400], "impl_and_model_output": outs[i]})
    ctx.sample({"op": lines[0], "impl_and_model_output": outs[0]})
    if ctx.tier == "thorough":
        ctx.leanchecker(["MjProof.Props.C35"])
