"""C16  Ray casting returns the nearest intersection (DESIGN.md §5.C16).

P  Lean theorems over the reals about the *generated* per-primitive kernels of src/engine/engine_ray.c
   (translate/kernels_c16.py -> lean/MjProof/Gen/Kernels.lean, regenerated from the working tree on every
   run) and about the hand model of the selection logic (lean/MjProof/Model/Ray.lean): Props/C16.lean.
T  translator regeneration + bitwise translation validation of the kernels (Lean Float vs compiled C);
   exact correspondence of the hand model with the real ray_eliminate (all filter inputs), the real mj_ray
   and the real mj_multiRay on generated scenes (the Lean side gets the per-geom distances computed by the
   real mju_rayGeom / mj_rayMesh and the filter attributes, and must return the same distance bits and
   geom id).
S  property oracle on the real code alone (harness/c/c16_ray.c): mj_ray vs brute force over mju_rayGeom with
   the documented filter recomputed in Python, mj_multiRay vs repeated mj_ray (bitwise), -1 <=> geomid -1,
   returned point on the surface of the returned geom and no robustly nearer hit (independent analytic
   intersection in Python), mju_rayGeom on directed primitive cases (inside / outside / grazing / parallel
   / pointing away / tiny direction).
"""
import json
import math
import os
import struct

from checks import common, kernelval
from gen.enums import E
from gen.models import ModelGen, unit_quat, unit_vec

META = {
    "technique": "c2lean translation of the ray-primitive kernels (regenerated every run) + Lean 4 proofs over the reals "
                 "about the generated definitions (quadratic-root characterisation, case split over every branch) + hand "
                 "model of ray_eliminate / mj_ray / mj_multiRay with fold-invariant proofs + bitwise translation validation "
                 "and exact correspondence on generated scenes + analytic property oracle on the compiled functions",
    "text": "ray_quad returns the smallest non-negative root of a x^2 + 2 b x + c (a >= mjMINVAL) and -1 iff none; "
            "ray-plane, ray-sphere and ray-ellipsoid (the mju_rayGeom paths) return a parameter whose point lies on the surface, "
            "no smaller non-negative parameter does, and -1 iff no admissible intersection exists; ray-box, ray-cylinder and "
            "ray-capsule: see the theorem list (soundness / nearest among the code's candidate set). The selection model "
            "(mj_ray = first argmin over geoms not eliminated, mj_multiRay = per-ray fold with conservative culling) is proved "
            "to return the minimum over eligible geoms, (-1,-1) iff none is hit, and multiRay = map ray when culling is sound.",
    "note": "theorems are over the reals (rounding outside the proofs); meshes, height fields, SDFs and flexes are not "
            "modelled (box meshes are covered by the oracle only); the bounding-angle culling of mj_multiRay is an input "
            "of the model (its soundness is a hypothesis of multiRay_eq_map_ray and is sampled by the oracle).",
}

THEOREMS = []

PLANE, HFIELD, SPHERE, CAPSULE, ELLIPSOID, CYLINDER, BOX, MESH = (E("mjGEOM_PLANE"), E("mjGEOM_HFIELD"), E("mjGEOM_SPHERE"),
                                                                 E("mjGEOM_CAPSULE"), E("mjGEOM_ELLIPSOID"), E("mjGEOM_CYLINDER"),
                                                                 E("mjGEOM_BOX"), E("mjGEOM_MESH"))
NGROUP = 6
MINVAL = 1e-15


def fbits(x):
    return kernelval.fbits(x)


def frombits(t):
    return kernelval.frombits(t)


# ------------------------------------------------------------------------------------------ scenes
SCENE_PROFILE = {
    "nbody": (2, 6), "geoms": (1, 3), "static_body": 0.25, "mocap": 0.2, "plane": 0.7, "free": 0.3,
    "actuators": (0, 0), "tendons": 0.0, "equalities": 0.0, "sensors": (0, 0), "sites": 0.0, "cameras": 0.0,
    "pairs": 0.0, "excludes": 0.0, "keys": 0.0, "numeric": 0.0, "sleep": 0.0,
}


def make_scene(rng, meshes=True, lopsided=True):
    """A generated scene: description lines (mjbuild format) + trailer lines (materials, box meshes)."""
    prof = dict(SCENE_PROFILE)
    prof["nbody"] = rng.choice(((1, 3), (2, 6), (4, 9)))
    prof["static_body"] = rng.choice((0.0, 0.25, 0.6))
    mdl = ModelGen(rng, prof).make()
    lines = list(mdl.lines)
    trailer = []
    nmat = rng.choice((0, 0, 1, 3))
    for i in range(nmat):
        trailer.append("material mat%d %r %r %r %r" % (i, rng.random(), rng.random(), rng.random(),
                                                       rng.choice((0.0, 0.0, 1.0, 0.5))))
    geoms = [g for g in mdl.geoms if "handle" in g]
    hmax = max([int(l.split()[1]) for l in lines if l.split()[0] in
                ("body", "geom", "joint", "freejoint", "site", "camera", "key", "numeric")] + [0])
    extra = []
    # filter attributes on the generated geoms
    for g in geoms:
        h = g["handle"]
        r = rng.random()
        if r < 0.5:
            extra.append("set %d group %d" % (h, rng.choice((0, 1, 2, 3, 4, 5, 5))))
        if rng.random() < 0.2:
            extra.append("set %d rgba 0.5 0.5 0.5 %s" % (h, rng.choice(("0", "0", "0.3"))))
        if nmat and rng.random() < 0.35:
            extra.append("set %d material mat%d" % (h, rng.randrange(nmat)))
    # duplicates (exact distance ties between distinct geoms, possibly with different filter attributes)
    ndup = rng.choice((0, 0, 1, 2))
    for _ in range(ndup):
        if not geoms:
            break
        g = rng.choice(geoms)
        h = g["handle"]
        parent = [l.split()[2] for l in lines if l.startswith("geom %d " % h)][0]
        hmax += 1
        extra.append("geom %d %s" % (hmax, parent))
        for l in lines + extra[:]:
            w = l.split()
            if w[0] == "set" and w[1] == str(h) and w[2] not in ("material", "rgba", "group"):
                extra.append("set %d %s" % (hmax, " ".join(w[2:])))
        extra.append("name %d dup%d" % (hmax, hmax))
        if rng.random() < 0.5:
            # out-of-range groups (clamped by ray_eliminate) only on duplicates: the original keeps the body's mass
            extra.append("set %d group %d" % (hmax, rng.choice((0, 1, 2, 3, 4, 5, 7, 11, -1, -3))))
    # static (world-attached) extra primitives and box meshes
    for _ in range(rng.choice((0, 1, 2))):
        hmax += 1
        gt = rng.choice((SPHERE, CAPSULE, ELLIPSOID, CYLINDER, BOX))
        extra.append("geom %d 0" % hmax)
        extra.append("name %d wg%d" % (hmax, hmax))
        extra.append("set %d type %d" % (hmax, gt))
        extra.append("set %d size %r %r %r" % (hmax, rng.uniform(0.05, 0.4), rng.uniform(0.05, 0.4), rng.uniform(0.05, 0.4)))
        extra.append("set %d pos %r %r %r" % (hmax, rng.uniform(-1.5, 1.5), rng.uniform(-1.5, 1.5), rng.uniform(0, 1.5)))
        extra.append("set %d quat %s" % (hmax, " ".join(repr(x) for x in unit_quat(rng))))
        if rng.random() < 0.5:
            extra.append("set %d group %d" % (hmax, rng.choice((0, 1, 2, 3, 4, 5, 6, 9, -2))))
    # lopsided bodies: a long light geom far from the body's centre of mass (the body-level bounding volume is
    # then far off-centre in the inertial frame)
    moving = [l.split()[1] for l in lines if l.startswith("body ")]
    if lopsided and moving and rng.random() < 0.6:
        for bh in rng.sample(moving, min(len(moving), rng.choice((1, 2)))):
            hmax += 1
            gt = rng.choice((CAPSULE, BOX, CYLINDER))
            ln = rng.uniform(0.3, 0.9)
            extra.append("geom %d %s" % (hmax, bh))
            extra.append("name %d lg%d" % (hmax, hmax))
            extra.append("set %d type %d" % (hmax, gt))
            if gt == BOX:
                extra.append("set %d size 0.02 0.03 %r" % (hmax, ln))
            else:
                extra.append("set %d size 0.02 %r" % (hmax, ln))
            d = unit_vec(rng)
            extra.append("set %d pos %r %r %r" % (hmax, d[0] * ln, d[1] * ln, d[2] * ln))
            extra.append("set %d alt.type %d" % (hmax, E("mjORIENTATION_ZAXIS")))
            extra.append("set %d alt.zaxis %r %r %r" % (hmax, d[0], d[1], d[2]))
            extra.append("set %d density 5" % hmax)
    if meshes and rng.random() < 0.5:
        bodies = [l.split()[1] for l in lines if l.startswith("body ")] + ["0"]
        for k in range(rng.choice((1, 2))):
            hmax += 1
            nm = "bm%d" % k
            trailer.append("boxmesh %s %r %r %r" % (nm, rng.uniform(0.05, 0.3), rng.uniform(0.05, 0.3), rng.uniform(0.05, 0.3)))
            extra.append("geom %d %s" % (hmax, rng.choice(bodies)))
            extra.append("name %d mg%d" % (hmax, hmax))
            extra.append("set %d type %d" % (hmax, MESH))
            extra.append("set %d meshname %s" % (hmax, nm))
            extra.append("set %d contype 0" % hmax)
            extra.append("set %d conaffinity 0" % hmax)
            extra.append("set %d pos %r %r %r" % (hmax, rng.uniform(-0.3, 0.3), rng.uniform(-0.3, 0.3), rng.uniform(-0.3, 0.3)))
            if rng.random() < 0.7:
                extra.append("set %d quat %s" % (hmax, " ".join(repr(x) for x in unit_quat(rng))))
            if rng.random() < 0.4:
                extra.append("set %d group %d" % (hmax, rng.randint(0, 5)))
    return mdl, lines + extra, trailer


def scene_block(lines, trailer):
    return ["model"] + lines + ["end"] + trailer + ["compile"]
