"""C16  Ray casting returns the nearest intersection (DESIGN.md §5.C16).

P  Lean theorems over the reals about the *generated* per-primitive kernels of src/engine/engine_ray.c
   (translate/kernels_c16.py -> lean/MjProof/Gen/Kernels.lean, regenerated from the working tree on every
   run) and about the hand model of the selection logic (lean/MjProof/Model/Ray.lean): Props/C16.lean.
T  translator regeneration + bitwise translation validation of the kernels (Lean Float vs compiled C);
   exact correspondence of the hand model with the real ray_eliminate (all filter inputs), the real mj_ray
   and the real mj_multiRay on generated scenes (the Lean side gets the per-geom distances computed by the
   real mju_rayGeom / mj_rayMesh and the filter attributes, and must return the same distance bits and
   geom id).
S  property oracle on the real code alone (harness/c/c16_ray.c): mj_ray vs brute force over mju_rayGeom with
   the documented filter recomputed in Python, mj_multiRay vs repeated mj_ray (bitwise), -1 <=> geomid -1,
   returned point on the surface of the returned geom and no robustly nearer hit (independent analytic
   intersection in Python), mju_rayGeom on directed primitive cases (inside / outside / grazing / parallel
   / pointing away / tiny direction).
"""
import json
import math
import os
import struct

from checks import common, kernelval
from gen.enums import E
from gen.models import ModelGen, unit_quat, unit_vec

META = {
    "technique": "c2lean translation of the ray-primitive kernels (regenerated every run) + Lean 4 proofs over the reals "
                 "about the generated definitions (quadratic-root characterisation, case split over every branch) + hand "
                 "model of ray_eliminate / mj_ray / mj_multiRay with fold-invariant proofs + bitwise translation validation "
                 "and exact correspondence on generated scenes + analytic property oracle on the compiled functions",
    "text": "Proved over the reals about the kernels generated from engine_ray.c: ray_quad returns the smallest non-negative "
            "root of a x^2 + 2 b x + c (for a >= mjMINVAL), -1 iff there is none, and its two output slots are exactly the "
            "ordered real roots; mju_rayGeom for plane, sphere and ellipsoid returns a parameter whose point lies on the surface "
            "(plane: front face, inside the rendered rectangle), no smaller non-negative parameter does, and -1 iff no admissible "
            "intersection exists; for box, cylinder and capsule (…_partial) a returned x >= 0 lies on the surface and the result is "
            "-1 or >= 0 (nearest / completeness for these three is covered by the analytic oracle only). Proved about the hand model "
            "of the selection logic: ray_eliminate keeps exactly the geoms passing the documented filter (body exclusion, "
            "visibility, static flag, clamped group mask); mj_ray returns the minimum of the per-geom distances over the eligible "
            "geoms that are hit, the geom id is the first index attaining it, (-1,-1) iff none; mj_multiRay equals the map of "
            "mj_ray whenever its culling only removes geoms the ray does not hit and no direction is shorter than its threshold.",
    "note": "theorems are over the reals (rounding outside the proofs); meshes, height fields, SDFs and flexes are not "
            "modelled (box meshes are exercised by the oracle only); the per-geom distances and the bounding-sphere / "
            "bounding-angle culling of mj_multiRay are inputs of the hand model: soundness of the culling is a hypothesis of "
            "multiRay_eq_map_ray and is sampled by the oracle (every mj_multiRay/mj_ray difference is classified by recomputing the "
            "body bounding-sphere test and reading mju_multiRayPrepare's flags): known findings c16:multiray-visual-geom-culled and "
            "c16:multiray-short-vec remain on the tree; c16:multiray-body-sphere-center and c16:multiray-cutoff-rbound were fixed in "
            "/repo (59e563301, 452b4058c) and their minimal replays are permanent regression inputs of the check.",
}

PLANE, HFIELD, SPHERE, CAPSULE, ELLIPSOID, CYLINDER, BOX, MESH = (E("mjGEOM_PLANE"), E("mjGEOM_HFIELD"), E("mjGEOM_SPHERE"),
                                                                 E("mjGEOM_CAPSULE"), E("mjGEOM_ELLIPSOID"), E("mjGEOM_CYLINDER"),
                                                                 E("mjGEOM_BOX"), E("mjGEOM_MESH"))
NGROUP = 6
MINVAL = 1e-15


def fbits(x):
    return kernelval.fbits(x)


def frombits(t):
    return kernelval.frombits(t)


# ------------------------------------------------------------------------------------------ scenes
SCENE_PROFILE = {
    "nbody": (2, 6), "geoms": (1, 3), "static_body": 0.25, "mocap": 0.2, "plane": 0.7, "free": 0.3,
    "actuators": (0, 0), "tendons": 0.0, "equalities": 0.0, "sensors": (0, 0), "sites": 0.0, "cameras": 0.0,
    "pairs": 0.0, "excludes": 0.0, "keys": 0.0, "numeric": 0.0, "sleep": 0.0,
}


def make_scene(rng, meshes=True, lopsided=True):
    """A generated scene: description lines (mjbuild format) + trailer lines (materials, box meshes)."""
    prof = dict(SCENE_PROFILE)
    prof["nbody"] = rng.choice(((1, 3), (2, 6), (4, 9)))
    prof["static_body"] = rng.choice((0.0, 0.25, 0.6))
    mdl = ModelGen(rng, prof).make()
    lines = list(mdl.lines)
    trailer = []
    nmat = rng.choice((0, 0, 1, 3))
    for i in range(nmat):
        trailer.append("material mat%d %r %r %r %r" % (i, rng.random(), rng.random(), rng.random(),
                                                       rng.choice((0.0, 0.0, 1.0, 0.5))))
    geoms = [g for g in mdl.geoms if "handle" in g]
    hmax = max([int(l.split()[1]) for l in lines if l.split()[0] in
                ("body", "geom", "joint", "freejoint", "site", "camera", "key", "numeric")] + [0])
    extra = []
    # filter attributes on the generated geoms
    for g in geoms:
        h = g["handle"]
        r = rng.random()
        if r < 0.5:
            extra.append("set %d group %d" % (h, rng.choice((0, 1, 2, 3, 4, 5, 5))))
        if rng.random() < 0.2:
            extra.append("set %d rgba 0.5 0.5 0.5 %s" % (h, rng.choice(("0", "0", "0.3"))))
        if nmat and rng.random() < 0.35:
            extra.append("set %d material mat%d" % (h, rng.randrange(nmat)))
    # duplicates (exact distance ties between distinct geoms, possibly with different filter attributes)
    ndup = rng.choice((0, 0, 1, 2))
    for _ in range(ndup):
        if not geoms:
            break
        g = rng.choice(geoms)
        h = g["handle"]
        parent = [l.split()[2] for l in lines if l.startswith("geom %d " % h)][0]
        hmax += 1
        extra.append("geom %d %s" % (hmax, parent))
        for l in lines + extra[:]:
            w = l.split()
            if w[0] == "set" and w[1] == str(h) and w[2] not in ("material", "rgba", "group"):
                extra.append("set %d %s" % (hmax, " ".join(w[2:])))
        extra.append("name %d dup%d" % (hmax, hmax))
        if rng.random() < 0.5:
            # out-of-range groups (clamped by ray_eliminate) only on duplicates: the original keeps the body's mass
            extra.append("set %d group %d" % (hmax, rng.choice((0, 1, 2, 3, 4, 5, 7, 11, -1, -3))))
    # static (world-attached) extra primitives and box meshes
    for _ in range(rng.choice((0, 1, 2))):
        hmax += 1
        gt = rng.choice((SPHERE, CAPSULE, ELLIPSOID, CYLINDER, BOX))
        extra.append("geom %d 0" % hmax)
        extra.append("name %d wg%d" % (hmax, hmax))
        extra.append("set %d type %d" % (hmax, gt))
        extra.append("set %d size %r %r %r" % (hmax, rng.uniform(0.05, 0.4), rng.uniform(0.05, 0.4), rng.uniform(0.05, 0.4)))
        extra.append("set %d pos %r %r %r" % (hmax, rng.uniform(-1.5, 1.5), rng.uniform(-1.5, 1.5), rng.uniform(0, 1.5)))
        extra.append("set %d quat %s" % (hmax, " ".join(repr(x) for x in unit_quat(rng))))
        if rng.random() < 0.5:
            extra.append("set %d group %d" % (hmax, rng.choice((0, 1, 2, 3, 4, 5, 6, 9, -2))))
    # lopsided bodies: a long light geom far from the body's centre of mass (the body-level bounding volume is
    # then far off-centre in the inertial frame)
    moving = [l.split()[1] for l in lines if l.startswith("body ")]
    if lopsided and moving and rng.random() < 0.6:
        for bh in rng.sample(moving, min(len(moving), rng.choice((1, 2)))):
            hmax += 1
            gt = rng.choice((CAPSULE, BOX, CYLINDER))
            ln = rng.uniform(0.3, 0.9)
            extra.append("geom %d %s" % (hmax, bh))
            extra.append("name %d lg%d" % (hmax, hmax))
            extra.append("set %d type %d" % (hmax, gt))
            if gt == BOX:
                extra.append("set %d size 0.02 0.03 %r" % (hmax, ln))
            else:
                extra.append("set %d size 0.02 %r" % (hmax, ln))
            d = unit_vec(rng)
            extra.append("set %d pos %r %r %r" % (hmax, d[0] * ln, d[1] * ln, d[2] * ln))
            extra.append("set %d alt.type %d" % (hmax, E("mjORIENTATION_ZAXIS")))
            extra.append("set %d alt.zaxis %r %r %r" % (hmax, d[0], d[1], d[2]))
            extra.append("set %d density 5" % hmax)
    if meshes and rng.random() < 0.5:
        bodies = [l.split()[1] for l in lines if l.startswith("body ")] + ["0"]
        for k in range(rng.choice((1, 2))):
            hmax += 1
            nm = "bm%d" % k
            trailer.append("boxmesh %s %r %r %r" % (nm, rng.uniform(0.05, 0.3), rng.uniform(0.05, 0.3), rng.uniform(0.05, 0.3)))
            extra.append("geom %d %s" % (hmax, rng.choice(bodies)))
            extra.append("name %d mg%d" % (hmax, hmax))
            extra.append("set %d type %d" % (hmax, MESH))
            extra.append("set %d meshname %s" % (hmax, nm))
            extra.append("set %d contype 0" % hmax)
            extra.append("set %d conaffinity 0" % hmax)
            extra.append("set %d pos %r %r %r" % (hmax, rng.uniform(-0.3, 0.3), rng.uniform(-0.3, 0.3), rng.uniform(-0.3, 0.3)))
            if rng.random() < 0.7:
                extra.append("set %d quat %s" % (hmax, " ".join(repr(x) for x in unit_quat(rng))))
            if rng.random() < 0.4:
                extra.append("set %d group %d" % (hmax, rng.randint(0, 5)))
    return mdl, lines + extra, trailer


def scene_block(lines, trailer):
    return ["model"] + lines + ["end"] + trailer + ["compile"]


# ------------------------------------------------------------------------------------------ kernel generators
def quat2mat(q):
    w, x, y, z = q
    return [1 - 2 * (y * y + z * z), 2 * (x * y - w * z), 2 * (x * z + w * y),
            2 * (x * y + w * z), 1 - 2 * (x * x + z * z), 2 * (y * z - w * x),
            2 * (x * z - w * y), 2 * (y * z + w * x), 1 - 2 * (x * x + y * y)]


def rand_mat(rng):
    r = rng.random()
    if r < 0.3:
        return [1.0, 0.0, 0.0, 0.0, 1.0, 0.0, 0.0, 0.0, 1.0]
    if r < 0.4:   # axis permutation / reflection-free 90 degree rotations
        return rng.choice(([0.0, -1.0, 0.0, 1.0, 0.0, 0.0, 0.0, 0.0, 1.0], [1.0, 0.0, 0.0, 0.0, 0.0, -1.0, 0.0, 1.0, 0.0],
                           [0.0, 0.0, 1.0, 0.0, 1.0, 0.0, -1.0, 0.0, 0.0], [-1.0, 0.0, 0.0, 0.0, -1.0, 0.0, 0.0, 0.0, 1.0]))
    return quat2mat(unit_quat(rng))


def matvec(m, v):
    return [m[0] * v[0] + m[1] * v[1] + m[2] * v[2], m[3] * v[0] + m[4] * v[1] + m[5] * v[2], m[6] * v[0] + m[7] * v[1] + m[8] * v[2]]


def mattvec(m, v):
    return [m[0] * v[0] + m[3] * v[1] + m[6] * v[2], m[1] * v[0] + m[4] * v[1] + m[7] * v[2], m[2] * v[0] + m[5] * v[1] + m[8] * v[2]]


RAY_CLASSES = ("outside_towards", "outside_random", "inside", "grazing", "axis_parallel", "away", "tiny_dir", "zero_dir",
               "on_surface", "huge", "special")


def gen_ray_case(rng, gtype, cls=None):
    """(size[3], pos[3], mat[9], pnt[3], vec[3], class) for one mju_rayGeom call."""
    cls = cls or rng.choice(RAY_CLASSES)
    size = [rng.uniform(0.05, 0.6) for _ in range(3)]
    if gtype == PLANE:
        size = [rng.choice((0.0, 0.0, -1.0, rng.uniform(0.2, 3))), rng.choice((0.0, 0.0, rng.uniform(0.2, 3))), 0.1]
    if rng.random() < 0.1:
        size[rng.randrange(3)] = rng.choice((0.0, 1e-9, 5.0))
    pos = [rng.uniform(-2, 2) for _ in range(3)]
    if rng.random() < 0.2:
        pos = [0.0, 0.0, 0.0]
    mat = rand_mat(rng)
    ext = max(size) if gtype != PLANE else 1.0
    # a target point in the geom frame: inside the bounding box of the shape
    tgt = [rng.uniform(-1, 1) * s for s in (size if gtype != PLANE else [2.0, 2.0, 0.0])]
    if gtype in (SPHERE,):
        tgt = [x * size[0] * rng.uniform(0, 1) for x in unit_vec(rng)]
    if gtype in (CAPSULE, CYLINDER):
        tgt = [rng.uniform(-0.7, 0.7) * size[0], rng.uniform(-0.7, 0.7) * size[0], rng.uniform(-1, 1) * (size[1] + (size[0] if gtype == CAPSULE else 0))]
    d = unit_vec(rng)
    dist = rng.uniform(1.5, 6) * ext + 0.1
    scale = rng.choice((1.0, 1.0, 1.0, rng.uniform(0.01, 100)))
    if cls == "outside_towards":
        lp = [tgt[i] - d[i] * dist for i in range(3)]
        lv = [x * scale for x in d]
    elif cls == "outside_random":
        lp = [rng.uniform(-3, 3) * ext for _ in range(3)]
        lv = [x * scale for x in unit_vec(rng)]
    elif cls == "inside":
        lp = [x * 0.9 for x in tgt]
        lv = [x * scale for x in d]
    elif cls == "grazing":
        # aim at a point at distance ~ext from the centre line: close to tangent
        e = unit_vec(rng)
        off = rng.choice((1.0, 1.0 + 1e-9, 1.0 - 1e-9, 1.0 + 1e-15, 1.0 - 1e-15, 0.999, 1.001))
        t = [e[i] * size[0] * off for i in range(3)]
        # direction perpendicular to e
        c = [d[1] * e[2] - d[2] * e[1], d[2] * e[0] - d[0] * e[2], d[0] * e[1] - d[1] * e[0]]
        n = math.sqrt(sum(x * x for x in c)) or 1.0
        c = [x / n for x in c]
        lp = [t[i] - c[i] * dist for i in range(3)]
        lv = [x * scale for x in c]
    elif cls == "axis_parallel":
        ax = rng.randrange(3)
        lv = [0.0, 0.0, 0.0]
        lv[ax] = rng.choice((1.0, -1.0)) * scale
        lp = [tgt[i] * rng.choice((1.0, 1.0, 0.0, 1.2)) for i in range(3)]
        lp[ax] = -lv[ax] / scale * dist * rng.choice((1, 1, -1))
        if rng.random() < 0.3:   # slide exactly in a face plane
            o = (ax + 1) % 3
            lp[o] = size[o] * rng.choice((1.0, -1.0))
    elif cls == "away":
        lp = [tgt[i] - d[i] * dist for i in range(3)]
        lv = [-x * scale for x in d]
    elif cls == "tiny_dir":
        lp = [tgt[i] - d[i] * dist for i in range(3)]
        s = rng.choice((1e-7, 3.2e-8, 3.1e-8, 1e-9, 1e-14, 1e-15, 9e-16, 1e-200))
        lv = [x * s for x in d]
    elif cls == "zero_dir":
        lp = [tgt[i] - d[i] * dist for i in range(3)]
        lv = [0.0, 0.0, rng.choice((0.0, -0.0))]
        if rng.random() < 0.5:
            lv = [0.0, 0.0, 0.0]
    elif cls == "on_surface":
        # origin (numerically) on the surface of a sphere-like bound, random direction
        e = unit_vec(rng)
        lp = [e[i] * size[0] for i in range(3)]
        if gtype == BOX:
            lp = [rng.uniform(-1, 1) * size[0], rng.uniform(-1, 1) * size[1], size[2] * rng.choice((1, -1))]
        if gtype == PLANE:
            lp = [rng.uniform(-1, 1), rng.uniform(-1, 1), 0.0]
        lv = [x * scale for x in unit_vec(rng)]
    elif cls == "huge":
        lp = [tgt[i] - d[i] * dist * 1e6 for i in range(3)]
        lv = [x * rng.choice((1.0, 1e6, 1e-3)) for x in d]
    else:
        lp = [rng.choice(kernelval.SPECIALS) for _ in range(3)]
        lv = [rng.choice(kernelval.SPECIALS) for _ in range(3)]
    if gtype == PLANE and cls in ("outside_towards", "away") and rng.random() < 0.7:
        # start above the plane
        if lp[2] < 0:
            lp[2] = -lp[2]
            lv[2] = -lv[2]
    pnt = [a + b for a, b in zip(matvec(mat, lp), pos)]
    vec = matvec(mat, lv)
    return size, pos, mat, pnt, vec, cls


KERNEL_TYPE = {"ray_plane_nn": PLANE, "ray_plane": PLANE, "mju_rayGeom_plane": PLANE,
               "ray_sphere_nn": SPHERE, "ray_sphere": SPHERE, "mju_rayGeom_sphere": SPHERE,
               "ray_capsule_nn": CAPSULE, "mju_rayGeom_capsule": CAPSULE,
               "ray_ellipsoid_nn": ELLIPSOID, "ray_ellipsoid": ELLIPSOID, "mju_rayGeom_ellipsoid": ELLIPSOID,
               "ray_cylinder_nn": CYLINDER, "ray_cylinder": CYLINDER, "mju_rayGeom_cylinder": CYLINDER,
               "ray_box_nn": BOX, "ray_box_all": BOX, "mju_rayGeom_box": BOX, "ray_map": BOX}
KERNELS = ["ray_quad", "mju_rayGeom_badtype"] + sorted(KERNEL_TYPE)


def kernel_gen(name):
    gtype = KERNEL_TYPE[name]

    def g(rng, inputs):
        if rng.random() < 0.1:
            return kernelval.default_gen(rng, inputs)
        size, pos, mat, pnt, vec, _ = gen_ray_case(rng, gtype)
        src = {"pos": pos, "mat": mat, "size": size, "pnt": pnt, "vec": vec}
        vals = []
        for nm, kind in inputs:
            base, _, idx = nm.rpartition("_")
            if nm == "dist_sqr":
                vals.append(size[0] * size[0])
            else:
                vals.append(src[base][int(idx)])
        return vals
    return g


def quad_gen(rng, inputs):
    r = rng.random()
    if r < 0.15:
        return kernelval.default_gen(rng, inputs)
    # roots chosen first so that every sign pattern / double roots / tiny a occur
    a = rng.choice((1.0, rng.uniform(0.01, 100), 1e-15, 9.9e-16, 1.1e-15, 1e-12, 0.0, -1.0))
    x0 = rng.choice((rng.uniform(-5, 5), 0.0, -0.0, 1e-12, -1e-12))
    x1 = rng.choice((rng.uniform(-5, 5), x0, x0 + 1e-9, x0 + 1e-15 * abs(x0)))
    if r < 0.5:
        b = -a * (x0 + x1) / 2
        c = a * x0 * x1
    elif r < 0.75:   # near-zero discriminant
        b = rng.uniform(-3, 3)
        c = b * b / a * rng.choice((1.0, 1 + 1e-16, 1 - 1e-16, 1 + 1e-9, 1 - 1e-9)) if a else 0.0
    else:
        b = rng.uniform(-3, 3)
        c = rng.uniform(-3, 3)
    return [a, b, c]


# ------------------------------------------------------------------------------------------ analytic oracle (Python, independent)
def f32(x):
    return struct.unpack("<f", struct.pack("<f", x))[0]


def sdf(gtype, size, l):
    """signed distance (negative inside) of the geom-frame point l to the solid; exact for sphere / capsule /
    cylinder / box, first-order accurate near the surface for the ellipsoid"""
    x, y, z = l
    if gtype == SPHERE:
        return math.sqrt(x * x + y * y + z * z) - size[0]
    if gtype == CAPSULE:
        zc = min(max(z, -size[1]), size[1])
        return math.sqrt(x * x + y * y + (z - zc) * (z - zc)) - size[0]
    if gtype == CYLINDER:
        dr = math.hypot(x, y) - size[0]
        dz = abs(z) - size[1]
        return math.hypot(max(dr, 0.0), max(dz, 0.0)) + min(max(dr, dz), 0.0)
    if gtype in (BOX, MESH):
        d = [abs(x) - size[0], abs(y) - size[1], abs(z) - size[2]]
        return math.sqrt(sum(max(c, 0.0) ** 2 for c in d)) + min(max(d), 0.0)
    if gtype == ELLIPSOID:
        k0 = math.sqrt((x / size[0]) ** 2 + (y / size[1]) ** 2 + (z / size[2]) ** 2)
        k1 = math.sqrt((x / size[0] ** 2) ** 2 + (y / size[1] ** 2) ** 2 + (z / size[2] ** 2) ** 2)
        if k1 == 0.0:
            return -min(size)
        return k0 * (k0 - 1.0) / k1
    raise ValueError(gtype)


def bound_radius(gtype, size):
    if gtype == SPHERE:
        return size[0]
    if gtype == CAPSULE:
        return size[0] + size[1]
    if gtype == CYLINDER:
        return math.hypot(size[0], size[1])
    if gtype == ELLIPSOID:
        return max(size)
    return math.sqrt(size[0] ** 2 + size[1] ** 2 + size[2] ** 2)


def convex_min(g, lo, hi, iters=48):
    """minimum of a convex function on [lo, hi] by golden section (plus the end points)"""
    if hi <= lo:
        return g(lo)
    phi = 0.6180339887498949
    a, b = lo, hi
    c, d = b - phi * (b - a), a + phi * (b - a)
    gc, gd = g(c), g(d)
    best = min(g(lo), g(hi), gc, gd)
    for _ in range(iters):
        if gc < gd:
            b, d, gd = d, c, gc
            c = b - phi * (b - a)
            gc = g(c)
            best = min(best, gc)
        else:
            a, c, gc = c, d, gd
            d = a + phi * (b - a)
            gd = g(d)
            best = min(best, gd)
    return best


class Dev:
    """largest observed deviation relative to the allowed tolerance, per check"""

    def __init__(self):
        self.m = {}

    def note(self, key, val, tol):
        r = val / tol if tol > 0 else (0.0 if val == 0 else float("inf"))
        if r > self.m.get(key, 0.0):
            self.m[key] = r
        return r <= 1.0


MARGIN = 1e-7      # a hit / miss is "robust" when the ray penetrates deeper than / stays farther than this


def analytic_check(gtype, size, pos, mat, pnt, vec, d, dev, mesh=False):
    """Checks one per-geom distance d of the real code against the analytic geometry.  Returns None when the case is
    consistent (or outside the well-conditioned domain of this oracle), else (key, message)."""
    if not all(math.isfinite(v) for v in list(size) + list(pos) + list(mat) + list(pnt) + list(vec)):
        return None
    if d != d or (d < 0 and d != -1.0):
        return ("c16:dist-range", "per-geom distance %r is neither -1 nor >= 0" % d)
    dif = [pnt[i] - pos[i] for i in range(3)]
    lp = mattvec(mat, dif)
    lv = mattvec(mat, vec)
    nv = math.sqrt(sum(x * x for x in lv))
    nl = math.sqrt(sum(x * x for x in lp))
    if nv < 1e-6 or nv > 1e6:
        return None                      # guards of the code (mjMINVAL) / overflow: not an analytic case
    tname = {PLANE: "plane", SPHERE: "sphere", CAPSULE: "capsule", ELLIPSOID: "ellipsoid", CYLINDER: "cylinder",
             BOX: "box", MESH: "mesh"}[gtype]
    if gtype == PLANE:
        sx, sy = size[0], size[1]
        zdir = lv[2] / nv
        if abs(zdir) < 1e-9:
            return None                  # parallel to the plane: either answer is within rounding
        expect = None
        if zdir < 0 and lp[2] > 1e-9 * (1 + nl):
            t = -lp[2] / lv[2]
            p0, p1 = lp[0] + t * lv[0], lp[1] + t * lv[1]
            m0 = (abs(p0) - sx) if sx > 0 else -1.0
            m1 = (abs(p1) - sy) if sy > 0 else -1.0
            tolr = 1e-9 * (1 + nl + t * nv) / abs(zdir)
            if m0 < -tolr and m1 < -tolr:
                expect = t
            elif m0 > tolr or m1 > tolr:
                expect = -1.0
            else:
                return None
        elif zdir > 0 or lp[2] < -1e-9 * (1 + nl):
            expect = -1.0                # back face or origin below the plane
        else:
            return None
        if expect == -1.0:
            if d != -1.0:
                return ("c16:plane-spurious-hit", "ray_plane reports %r where no front-face intersection exists" % d)
            return None
        if d < 0:
            return ("c16:plane-missed-hit", "ray_plane reports -1, analytic intersection at %r" % expect)
        tol = 1e-9 * (1 + nl / nv + expect) / abs(zdir)
        if not dev.note("plane |x - analytic|", abs(d - expect), tol):
            return ("c16:plane-wrong-distance", "ray_plane %r vs analytic %r" % (d, expect))
        return None
    # ---- convex solids
    sz = list(size)
    smin = min(sz[:1] if gtype == SPHERE else sz[:2] if gtype in (CAPSULE, CYLINDER) else sz)
    if smin < 1e-3 or max(sz) > 1e3:
        return None
    R = bound_radius(gtype, sz)
    g = lambda t: sdf(gtype, sz, [lp[0] + t * lv[0], lp[1] + t * lv[1], lp[2] + t * lv[2]])
    D = nl + (d * nv if d >= 0 else 0.0) + R
    if D > 1e4:
        return None
    scale = 1e3 if mesh else 1.0         # mesh vertices are float32
    tol = max(1e-9, 1e-12 * D * D / smin) * scale
    margin = MARGIN * scale
    g0 = g(0.0)
    if d >= 0:
        res = abs(g(d))
        if not dev.note(tname + " |sdf(hit)|", res, tol):
            return ("c16:%s-hit-off-surface" % tname,
                    "returned point is %.3g away from the %s surface (tolerance %.3g)" % (res, tname, tol))
        if g0 > margin:
            # origin robustly outside: nothing may be entered before the reported parameter
            slack = (tol + margin) / nv * 10
            if d - slack > 0:
                mn = convex_min(g, 0.0, d - slack)
                if mn < -margin:
                    return ("c16:%s-not-nearest" % tname,
                            "the ray is %.3g inside the %s before the reported distance %r" % (-mn, tname, d))
        return None
    # reported miss: the ray must not robustly enter the solid
    tc = max(0.0, -sum(lp[i] * lv[i] for i in range(3)) / (nv * nv))
    if abs(g0) <= margin:
        return None
    if g0 < -margin:
        return ("c16:%s-missed-hit" % tname, "origin is %.3g inside the %s but -1 is reported" % (-g0, tname))
    # bounding-sphere pre-test
    cx = [lp[i] + tc * lv[i] for i in range(3)]
    if math.sqrt(sum(x * x for x in cx)) > R + margin:
        return None
    mn = convex_min(g, 0.0, tc + (R + 1.0) / nv)
    if mn < -margin:
        return ("c16:%s-missed-hit" % tname, "the ray enters the %s by %.3g but -1 is reported" % (tname, -mn))
    return None


# ------------------------------------------------------------------------------------------ filter (documented spec, in Python)
def eligible(g, flg, bx, mask):
    """the documented filter, from the compiled model's attributes (independent of ray_eliminate)"""
    if g["body"] == bx:
        return False
    alpha = g["galpha"] if g["matid"] < 0 else g["malpha"]
    if alpha == 0:
        return False
    if not flg and g["weld"] == 0:
        return False
    if mask != "-":
        grp = min(NGROUP - 1, max(0, g["group"]))
        if mask[grp] == "0":
            return False
    return True


def gen_elim_lines(ctx):
    lines = []
    masks = ("-", "000000", "111111", "101010", "010101", "100000", "000001")
    groups = (-3, -1, 0, 1, 2, 3, 4, 5, 6, 7, 100)
    for body in (0, 1, 2):
        for matid in (-1, 0, 2):
            for bits in range(8):
                ga, ma, w = bits & 1, (bits >> 1) & 1, (bits >> 2) & 1
                for grp in groups:
                    for flg in (0, 1):
                        for bx in (-1, 0, 1, 2):
                            for mask in masks:
                                lines.append("elim %d %d %d %d %d %d %d %d %s" % (body, matid, ga, ma, w, grp, flg, bx, mask))
    rng = ctx.rng
    for _ in range(2000):
        lines.append("elim %d %d %d %d %d %d %d %d %s" % (
            rng.randint(0, 64), rng.randint(-1, 3), rng.randint(0, 1), rng.randint(0, 1), rng.randint(0, 1),
            rng.choice((rng.randint(-10, 10), rng.randint(-2 ** 31, 2 ** 31 - 1))), rng.randint(0, 1),
            rng.randint(-1, 64), rng.choice(("-", "".join(rng.choice("01") for _ in range(6))))))
    # malformed: both sides must answer bad-op
    lines += ["elim 1 -1 0 0 0 3 1 -1 11111", "elim 1 -1 0 0 0 3 1 -1 1111111", "elim 1 -1 0 2 0 3 1 -1 -",
              "elim 1 -1 0 0 0 +3 1 -1 -", "elim 1 -1 0 0 0 3 1 -1", "elim 1 4 0 0 0 3 1 -1 -", "elim 65 0 0 0 0 3 1 -1 -",
              "elim 1 -1 0 0 0 x 1 -1 -", "elim 1 -1 0 0 0 3 2 -1 -", "frob"]
    return lines


def elim_oracle(line, out):
    w = line.split()
    try:
        if len(w) != 10 or w[0] != "elim":
            raise ValueError
        body, matid, ga, ma, weld0, grp, flg, bx = (int(x) for x in w[1:9])
        mask = w[9]
        if any(x.startswith("+") for x in w[1:9]) or not (0 <= body <= 64 and -1 <= matid <= 3) or \
                any(v not in (0, 1) for v in (ga, ma, weld0, flg)) or not (mask == "-" or (len(mask) == 6 and set(mask) <= set("01"))):
            raise ValueError
    except ValueError:
        return None if out == "bad-op" else "malformed elim line accepted"
    g = {"body": body, "matid": matid, "galpha": 0.0 if ga else 1.0, "malpha": 0.0 if ma else 0.25,
         "weld": 0 if weld0 else 1, "group": grp}
    exp = "0" if eligible(g, flg, bx, mask) else "1"
    return None if out == exp else "ray_eliminate returns %s where the documented filter says %s" % (out, exp)


# ------------------------------------------------------------------------------------------ scenes: generation and parsing
def gen_scene_stream(ctx, nscene, nsrc, nray):
    """harness input lines + a parallel list of descriptors"""
    rng = ctx.rng
    lines, meta = [], []
    for s in range(nscene):
        mdl, desc, trailer = make_scene(rng)
        block = scene_block(desc, trailer)
        lines += block
        meta.append({"kind": "model", "scene": s, "block": block})
        st = mdl.random_state(rng)
        sl = "state " + " ".join(repr(x) for x in st["qpos"])
        lines.append(sl)
        meta.append({"kind": "state", "scene": s, "line": sl})
        lines.append("scene")
        meta.append({"kind": "scene", "scene": s})
        nb = len(mdl.bodies)
        for k in range(nsrc):
            p = [rng.uniform(-2, 2), rng.uniform(-2, 2), rng.uniform(0.02, 2.5)]
            if rng.random() < 0.15:
                p = [rng.uniform(-0.6, 0.6), rng.uniform(-0.6, 0.6), rng.uniform(0.1, 1.0)]   # among the bodies
            flg = rng.choice((0, 1, 1))
            bx = rng.choice((-1, -1, 0, rng.randint(0, nb + 1)))
            mask = rng.choice(("-", "-", "111111", "101010", "110111", "000001", "".join(rng.choice("01") for _ in range(6))))
            cutoff = rng.choice((1e10, 1e10, 1e10, rng.uniform(0.3, 3.0)))
            vs = []
            for r in range(nray):
                c = rng.random()
                v = unit_vec(rng)
                if c < 0.1:
                    v = [0.0, 0.0, -1.0] if rng.random() < 0.5 else [rng.choice((1.0, -1.0)), 0.0, 0.0]
                sc = rng.choice((1.0, 1.0, 0.3, 7.0))
                if c > 0.97:
                    sc = rng.choice((1e-7, 3.2e-8, 3.1e-8, 1e-9, 1e-12))     # around the two thresholds of mj_ray / mj_multiRay
                v = [x * sc for x in v]
                vs.append(v)
                rl = "ray %s %s %d %d %s" % (" ".join(map(repr, p)), " ".join(map(repr, v)), flg, bx, mask)
                lines.append(rl)
                meta.append({"kind": "ray", "scene": s, "src": k, "ray": r, "line": rl, "pnt": p, "vec": v,
                             "flg": flg, "bx": bx, "mask": mask})
            ml = "multi %s %d %d %s %r %d %s" % (" ".join(map(repr, p)), flg, bx, mask, cutoff, len(vs),
                                                 " ".join(repr(x) for v in vs for x in v))
            lines.append(ml)
            meta.append({"kind": "multi", "scene": s, "src": k, "line": ml, "pnt": p, "vecs": vs, "flg": flg, "bx": bx,
                         "mask": mask, "cutoff": cutoff})
    return lines, meta


# minimal replays of the four mj_multiRay findings, kept as permanent regression inputs (A and D were fixed in /repo by
# 59e563301 and 452b4058c and must stay silent; B and C are recorded known findings and must keep their own keys)
REGRESSIONS = [
    ("A body-sphere centre", ["body 1 0", "set 1 pos 0 0 1", "set 1 quat 0.7071067811865476 0 0.7071067811865476 0", "joint 2 1",
                              "geom 3 1", "set 3 type 2", "set 3 size 0.05", "set 3 density 100000",
                              "geom 4 1", "set 4 type 6", "set 4 size 0.02 0.02 0.5", "set 4 pos 0 0 0.5", "set 4 density 1"],
     [0.0], [0.9, 0.0, 3.0], [[0.0, 0.0, -1.0], [0.0, 0.0, -2.5]], 1e10),
    ("B visual-only geom", ["body 1 0", "set 1 pos 0 0 1", "joint 2 1", "geom 3 1", "set 3 type 2", "set 3 size 0.05",
                            "geom 4 1", "set 4 type 6", "set 4 size 0.05 0.05 0.05", "set 4 pos 0.5 0 0",
                            "set 4 contype 0", "set 4 conaffinity 0"],
     [0.0], [0.5, 0.0, 3.0], [[0.0, 0.0, -1.0]], 1e10),
    ("C short direction", ["geom 1 0", "set 1 type 0", "set 1 size 5 5 0.1"],
     [], [0.0, 0.0, 0.5], [[0.0, 0.0, -1e-9], [0.0, 0.0, -1.0]], 1e10),
    ("D cutoff vs plane", ["geom 1 0", "set 1 type 0", "set 1 size 5 5 0.1"],
     [], [3.0, 0.0, 0.5], [[0.0, 0.0, -1.0], [0.1, 0.0, -1.0]], 1.0),
]


def regression_stream():
    lines, meta = [], []
    for s, (name, desc, qpos, p, vs, cutoff) in enumerate(REGRESSIONS):
        block = scene_block(desc, [])
        lines += block
        meta.append({"kind": "model", "scene": s, "block": block})
        sl = ("state " + " ".join(repr(x) for x in qpos)).strip()
        lines.append(sl)
        meta.append({"kind": "state", "scene": s, "line": sl})
        lines.append("scene")
        meta.append({"kind": "scene", "scene": s})
        for r, v in enumerate(vs):
            rl = "ray %s %s 1 -1 -" % (" ".join(map(repr, p)), " ".join(map(repr, v)))
            lines.append(rl)
            meta.append({"kind": "ray", "scene": s, "src": 0, "ray": r, "line": rl, "pnt": p, "vec": v, "flg": 1, "bx": -1, "mask": "-"})
        ml = "multi %s 1 -1 - %r %d %s" % (" ".join(map(repr, p)), cutoff, len(vs), " ".join(repr(x) for v in vs for x in v))
        lines.append(ml)
        meta.append({"kind": "multi", "scene": s, "src": 0, "line": ml, "pnt": p, "vecs": vs, "flg": 1, "bx": -1, "mask": "-",
                     "cutoff": cutoff})
    return lines, meta


def parse_scene(out):
    out, btxt = out.split(" | ")
    bodies = []
    for p in btxt.split(" ; ")[1:]:
        w = p.split()
        bodies.append({"bvhadr": int(w[0]), "center": [float(x) for x in w[1:4]], "half": [float(x) for x in w[4:7]],
                       "xipos": [float(x) for x in w[7:10]], "ximat": [float(x) for x in w[10:19]]})
    parts = out.split(" ; ")
    n = int(parts[0])
    geoms = []
    for p in parts[1:]:
        w = p.split()
        g = {"type": int(w[0]), "body": int(w[1]), "weld": int(w[2]), "group": int(w[3]), "matid": int(w[4]),
             "galpha": float(w[5]), "malpha": float(w[6]), "contype": int(w[7]), "conaffinity": int(w[8]),
             "bvhadr": int(w[9]), "rbound": float(w[10]),
             "size": [float(x) for x in w[11:14]], "pos": [float(x) for x in w[14:17]], "mat": [float(x) for x in w[17:26]]}
        geoms.append(g)
    assert len(geoms) == n
    return geoms, bodies


def sphere_test_misses(center, ssz, pnt, vec):
    """ray_sphere(center, NULL, ssz, pnt, vec, NULL) < 0, with the operations of the C code"""
    dif = [pnt[0] - center[0], pnt[1] - center[1], pnt[2] - center[2]]
    a = vec[0] * vec[0] + vec[1] * vec[1] + vec[2] * vec[2]
    b = vec[0] * dif[0] + vec[1] * dif[1] + vec[2] * dif[2]
    c = dif[0] * dif[0] + dif[1] * dif[1] + dif[2] * dif[2] - ssz
    det = b * b - a * c
    if det < 0 or a < MINVAL:
        return True
    det = math.sqrt(det)
    return (-b - det) / a < 0 and (-b + det) / a < 0


def classify_multi_mismatch(g, body, pnt, vec):
    """why mj_multiRay lost geom g (which mj_ray hits): reproduces the body-level bounding-sphere test of mju_singleRay.
    The code (since fix 59e563301) rotates the BVH root centre into the world frame (ximat * centre + xipos):
      "visual": that test misses and g is visual-only (contype = conaffinity = 0, hence not in the body BVH)   -> known finding B
      "center": that test passes but the test with the unrotated centre (centre + xipos, the pre-fix code) misses -> regression of A
    anything else is unexplained (None)."""
    if body["bvhadr"] < 0:
        return None
    h = body["half"]
    ssz = h[0] * h[0] + h[1] * h[1] + h[2] * h[2]
    unrot = [body["center"][i] + body["xipos"][i] for i in range(3)]
    rc = matvec(body["ximat"], body["center"])
    rot = [rc[i] + body["xipos"][i] for i in range(3)]
    rot_miss = sphere_test_misses(rot, ssz, pnt, vec)
    if rot_miss:
        return "visual" if (g["contype"] == 0 and g["conaffinity"] == 0) else None
    if sphere_test_misses(unrot, ssz, pnt, vec):
        return "center"
    return None


def parse_ray(out):
    head, tail = out.split(" | ")
    w = head.split()
    assert w[0] == "R" and w[3] == "N" and w[8] == "G"
    res = {"R": (w[1], int(w[2])), "N": (w[4], w[5:8]), "G": w[9]}
    parts = tail.split(" ; ")
    geoms = []
    for p in parts[1:]:
        x = p.split()
        geoms.append({"elim": int(x[0]), "d": x[1], "dn": x[2], "n": x[3:6]})
    assert len(geoms) == int(parts[0])
    res["geoms"] = geoms
    return res


def parse_multi(out):
    a, b, c = out.split(" | ")
    w = a.split()[1:]
    res = [(w[2 * i], int(w[2 * i + 1])) for i in range(len(w) // 2)]
    el = [int(x) for x in b.split()[1:]]
    x = c.split()[1:]
    nr = [(x[4 * i], x[4 * i + 1:4 * i + 4]) for i in range(len(x) // 4)]
    return res, el, nr


def replay_obj(block, state_line, line, extra=None):
    r = {"how": "feed `model_block` lines, `state`, then `op` to the c16_ray harness built by checks/c16.py "
                "(harness/c/c16_ray.c; doubles in outputs are IEEE-754 bit patterns)",
         "model_block": block, "state": state_line, "op": line}
    if extra:
        r.update(extra)
    return r


# ------------------------------------------------------------------------------------------ the scene part of the check
def run_scenes(ctx, impl, drv, nscene, nsrc, nray, dev, found, stats, max_report=4, stream=None):
    lines, meta = stream if stream is not None else gen_scene_stream(ctx, nscene, nsrc, nray)
    rc, outs, err = ctx.run_lines([impl], lines)
    # the harness answers one line per command; model blocks are one command
    if rc != 0 or len(outs) != len(meta):
        found.append({"key": "c16:crash", "what": "c16_ray harness crashed or lost sync (rc=%s, %d outputs for %d commands)"
                      % (rc, len(outs), len(meta)), "replay": {"stderr": err[-400:]}})
        return
    sel_lines, sel_expect, sel_info = [], [], []
    elim_lines, elim_expect = [], []
    multi_lines, multi_expect, multi_info = [], [], []
    cur = {}
    rays = {}

    def report(key, what, rp):
        stats["oracle_failures"] += 1
        stats["by_key"][key] = stats["by_key"].get(key, 0) + 1
        if sum(1 for f in found if f["key"] == key) < max_report:
            found.append({"key": key, "what": what, "replay": rp})

    for m, o in zip(meta, outs):
        k = m["kind"]
        if k == "model":
            cur = {"block": m["block"], "ok": o.startswith("ok"), "state": None, "geoms": None}
            rays = {}
            if not cur["ok"]:
                stats["scene_build_errors"] += 1
                stats.setdefault("scene_error_samples", [])
                if len(stats["scene_error_samples"]) < 3:
                    stats["scene_error_samples"].append(o[:200])
            else:
                stats["scenes"] += 1
            continue
        if not cur.get("ok"):
            continue
        if k == "state":
            cur["state"] = m["line"]
            if o != "ok":
                cur["ok"] = False
            continue
        if k == "scene":
            cur["geoms"], cur["bodies"] = parse_scene(o)
            for g in cur["geoms"]:
                stats["geom_types"][g["type"]] = stats["geom_types"].get(g["type"], 0) + 1
            continue
        geoms = cur["geoms"]
        rp = lambda extra=None: replay_obj(cur["block"], cur["state"], m["line"], extra)
        if k == "ray":
            nvec = math.sqrt(sum(x * x for x in m["vec"]))
            if o.startswith("error"):
                if nvec >= MINVAL * 1.01:
                    report("c16:ray-error", "mj_ray raised an error on a valid ray: " + o[:120], rp())
                rays[(m["src"], m["ray"])] = None
                continue
            if nvec < MINVAL * 0.99:
                report("c16:ray-accepts-zero-vec", "mj_ray accepted a direction shorter than mjMINVAL", rp({"output": o[:200]}))
            r = parse_ray(o)
            rays[(m["src"], m["ray"])] = (m, r)
            stats["rays"] += 1
            dist, gid = frombits(r["R"][0]), r["R"][1]
            ctx.count(("ray", m["line"]), nontrivial=gid >= 0)
            # variants agree
            if not (r["R"][0] == r["N"][0] == r["G"]):
                report("c16:ray-variants-differ", "mj_ray returns different distances with/without geomid/normal outputs",
                       rp({"output": o[:300]}))
            # -1 <=> geomid -1, range
            if (dist == -1.0) != (gid == -1) or (dist < 0 and dist != -1.0) or dist != dist:
                report("c16:ray-minus-one-iff", "distance %r with geom id %d" % (dist, gid), rp())
            # brute force over the per-geom distances with the documented filter
            cand = []
            for i, (g, pg) in enumerate(zip(geoms, r["geoms"])):
                el = eligible(g, m["flg"], m["bx"], m["mask"])
                if pg["elim"] != (0 if el else 1):
                    report("c16:eliminate-vs-spec", "ray_eliminate(geom %d) = %d, documented filter says eligible=%s"
                           % (i, pg["elim"], el), rp({"geom": g}))
                di = frombits(pg["d"])
                if pg["d"] != pg["dn"]:
                    report("c16:geom-normal-variant-differs", "per-geom distance differs with a normal output (geom %d type %d)"
                           % (i, g["type"]), rp())
                nn = [frombits(x) for x in pg["n"]]
                n2 = sum(x * x for x in nn)
                if all(math.isfinite(x) for x in nn) and math.isfinite(di):
                    if di >= 0 and not dev.note("|normal|-1", abs(math.sqrt(n2) - 1.0), 1e-9):
                        report("c16:normal-not-unit", "normal of a hit has length %r (geom %d type %d)" % (math.sqrt(n2), i, g["type"]), rp())
                    if di < 0 and n2 != 0.0:
                        report("c16:normal-nonzero-on-miss", "normal is non-zero for a miss (geom %d type %d)" % (i, g["type"]), rp())
                if el and di >= 0:
                    cand.append((di, i))
                # analytic geometry of every per-geom distance
                if g["type"] in (PLANE, SPHERE, CAPSULE, ELLIPSOID, CYLINDER, BOX, MESH) and nvec >= 1e-6:
                    why = analytic_check(g["type"], g["size"], g["pos"], g["mat"], m["pnt"], m["vec"], di, dev,
                                         mesh=(g["type"] == MESH))
                    stats["analytic_checked"] += 1
                    if why:
                        report(why[0], why[1] + " (geom %d)" % i, rp({"geom": g, "reported": di}))
            if cand:
                best = min(c[0] for c in cand)
                arg = [i for dd, i in cand if dd == best]
                if fbits(best) != r["R"][0]:
                    report("c16:ray-not-minimum", "mj_ray distance %r is not the minimum %r over the eligible geoms (argmin %s)"
                           % (dist, best, arg), rp({"candidates": cand}))
                elif gid not in arg:
                    report("c16:ray-geomid-not-argmin", "mj_ray geom id %d does not attain the minimum (argmin %s)" % (gid, arg),
                           rp({"candidates": cand}))
                if len(arg) > 1:
                    stats["ties"] += 1
            elif gid != -1 or dist != -1.0:
                report("c16:ray-spurious-hit", "mj_ray reports (%r, %d) but no eligible geom is hit" % (dist, gid), rp())
            # normal of mj_ray = normal of the winning geom
            if gid >= 0 and gid < len(r["geoms"]) and r["N"][1] != r["geoms"][gid]["n"]:
                report("c16:ray-normal", "mj_ray normal differs from the winning geom's normal", rp())
            if gid < 0 and any(frombits(x) != 0.0 for x in r["N"][1]):
                report("c16:ray-normal", "mj_ray normal is non-zero for a miss", rp())
            # tie with the Lean model: filter attributes + per-geom distances -> same distance bits and geom id
            sel = "sel %d %d %s" % (m["flg"], m["bx"], m["mask"])
            for g, pg in zip(geoms, r["geoms"]):
                sel += " ; %d %d %d %d %d %d %s" % (g["body"], g["matid"], 1 if g["galpha"] == 0 else 0,
                                                    1 if (g["matid"] >= 0 and g["malpha"] == 0) else 0,
                                                    1 if g["weld"] == 0 else 0, g["group"], pg["d"])
            if all(0 <= g["body"] <= 64 and -1 <= g["matid"] <= 3 for g in geoms):
                sel_lines.append(sel)
                sel_expect.append("%s %d" % r["R"])
                sel_info.append(rp())
                if m["ray"] == 0:
                    for g, pg in zip(geoms, r["geoms"]):
                        elim_lines.append("elim %d %d %d %d %d %d %d %d %s" % (
                            g["body"], g["matid"], 1 if g["galpha"] == 0 else 0, 1 if (g["matid"] >= 0 and g["malpha"] == 0) else 0,
                            1 if g["weld"] == 0 else 0, g["group"], m["flg"], m["bx"], m["mask"]))
                        elim_expect.append(str(pg["elim"]))
            continue
        if k == "multi":
            if o.startswith("error"):
                report("c16:multiray-error", "mj_multiRay raised an error: " + o[:120], rp())
                continue
            res, gel, nres = parse_multi(o)
            stats["multi_calls"] += 1
            big = m["cutoff"] >= 1e9
            ml = "multi"
            skip_tie = False
            exp = []
            for ri, (v, (db, gid)) in enumerate(zip(m["vecs"], res)):
                stats["multi_rays"] += 1
                dm = frombits(db)
                vv = v[0] * v[0] + v[1] * v[1] + v[2] * v[2]
                rr = rays.get((m["src"], ri))
                if nres[ri][0] != db:
                    report("c16:multiray-variants-differ", "mj_multiRay distance differs with normals requested (ray %d)" % ri, rp())
                if vv < MINVAL:
                    # the C code reports -1 and leaves geomid / normal untouched; mj_ray accepts |vec| >= mjMINVAL
                    if rr is not None:
                        stats["short_vec_rays"] += 1
                    if rr is not None and (db, gid) != rr[1]["R"]:
                        report("c16:multiray-short-vec",
                               "mj_multiRay treats a direction with |vec|^2 < mjMINVAL (|vec| < 3.2e-8) as a miss: dist %r, geomid entry %s; "
                               "mj_ray accepts the same direction (|vec| >= mjMINVAL) and returns (%r, %d)"
                               % (dm, "left unwritten" if gid == -7 else gid, frombits(rr[1]["R"][0]), rr[1]["R"][1]),
                               rp({"ray_index": ri, "vec": v}))
                elif rr is not None:
                    rdb, rgid = rr[1]["R"]
                    rd = frombits(rdb)
                    if (dm == -1.0) != (gid == -1):
                        report("c16:multiray-minus-one-iff", "mj_multiRay distance %r with geom id %d" % (dm, gid), rp({"ray_index": ri}))
                    wd = rd * math.sqrt(vv)
                    same = (db, gid) == (rdb, rgid)
                    if not same:
                        # a geom that mju_multiRayPrepare eliminated by the cutoff test (flag set although the filter keeps it) may
                        # legitimately be missing when it is hit beyond the cutoff; every other difference is a disagreement
                        cut = 0 <= rgid < len(gel) and gel[rgid] == 1 and rr[1]["geoms"][rgid]["elim"] == 0
                        must = (not cut) or wd <= m["cutoff"] * (1 - 1e-9)
                        weaker_ok = (not must) and (dm == -1.0 or dm >= rd)
                        if not weaker_ok:
                            g = geoms[rgid] if 0 <= rgid < len(geoms) else None
                            farther = rgid >= 0 and (dm == -1.0 or dm > rd)
                            why = classify_multi_mismatch(g, cur["bodies"][g["body"]], m["pnt"], v) if (farther and g is not None) else None
                            if farther and g is not None and gel[rgid] == 1 and rr[1]["geoms"][rgid]["elim"] == 0:
                                # mju_multiRayPrepare eliminated the geom by the cutoff test although it is hit within the cutoff
                                why = "cutoff"
                                key = "c16:multiray-cutoff-rbound"
                                what = ("mj_multiRay(cutoff=%r) ignores geom %d (type %d, geom_rbound %r) that mj_ray hits at world distance %r <= cutoff: "
                                        "mju_multiRayPrepare eliminates it because |geom_xpos - pnt| > cutoff + geom_rbound (rbound is 0 for planes): "
                                        "mj_ray (%r, %d), mj_multiRay (%r, %d)" % (m["cutoff"], rgid, g["type"], g["rbound"], wd, rd, rgid, dm, gid))
                            elif why == "visual":
                                key = "c16:multiray-visual-geom-culled"
                                what = ("mj_multiRay misses visual-only geom %d (contype=conaffinity=0, not in the body BVH whose root "
                                        "bounding sphere culls body %d for this ray): mj_ray (%r, %d), mj_multiRay (%r, %d)"
                                        % (rgid, g["body"], rd, rgid, dm, gid))
                            elif why == "center":
                                key = "c16:multiray-body-sphere-center"
                                what = ("mj_multiRay drops geom %d that mj_ray hits: the bounding sphere of body %d around the rotated BVH centre "
                                        "(ximat * centre + xipos) is hit, the one around the unrotated centre (centre + xipos, defect fixed by "
                                        "59e563301) is missed: "
                                        "mj_ray (%r, %d), mj_multiRay (%r, %d)" % (rgid, g["body"], rd, rgid, dm, gid))
                            else:
                                key = "c16:multiray-disagrees"
                                what = "mj_multiRay (%r, %d) differs from mj_ray (%r, %d)" % (dm, gid, rd, rgid)
                            skip_tie = skip_tie or why is not None
                            report(key, what, rp({"ray_index": ri, "vec": v, "ray_op": rr[0]["line"]}))
                    if nres[ri][1] != rr[1]["N"][1] and same:
                        report("c16:multiray-normal", "mj_multiRay normal differs from mj_ray's (ray %d)" % ri, rp())
                if rr is None:
                    skip_tie = True        # mj_ray refused the direction: no per-geom distances for the model
                else:
                    ml += " ; %s %s %s" % tuple(fbits(x) for x in v)
                    for e, pg in zip(gel, rr[1]["geoms"]):
                        ml += " , %d 0 %s" % (e, pg["d"])
                    exp.append("%s %s" % (db, "_" if gid == -7 else gid))
            if not skip_tie and exp:
                multi_lines.append(ml)
                multi_expect.append(" ".join(exp))
                multi_info.append(rp())
            elif skip_tie:
                stats["multi_ties_skipped"] += 1
            ctx.count(("multi", m["line"]))
    # ---- ties with the Lean hand model
    for label, ls, ex, info in (("mj_ray selection (real per-geom distances + filter attributes -> Lean mjRayFiltered)", sel_lines, sel_expect, sel_info),
                                ("ray_eliminate on compiled models -> Lean rayEliminate", elim_lines, elim_expect, None),
                                ("mj_multiRay (mju_multiRayPrepare flags, real distances -> Lean multiRay)", multi_lines, multi_expect, multi_info)):
        if not ls:
            continue
        rcm, om, em = ctx.run_lines([drv], ls)
        if rcm != 0 or len(om) != len(ls):
            raise common.Infra("drv_c16 failed on %s: rc=%d %s" % (label, rcm, em[-300:]))
        bad = [{"line": l[:3000], "model": a, "impl": b, "replay": (info[i] if info else None)}
               for i, (l, a, b) in enumerate(zip(ls, om, ex)) if a != b]
        ctx.oblige("correspondence %s (%d ops)" % (label, len(ls)), "correspondence", not bad, json.dumps(bad[:3])[:1800])
        if bad:
            ctx.disagreements += [dict(b, stream=label) for b in bad[:20]]
        stats["tie_ops"] += len(ls)
        if ls:
            ctx.sample({"tie": label, "op": ls[0][:260], "model_and_impl": om[0][:80]})


# ------------------------------------------------------------------------------------------ directed mju_rayGeom cases
def run_geomray(ctx, impl, n, dev, found, stats, max_report=4):
    rng = ctx.rng
    lines, cases = [], []
    for _ in range(n):
        gtype = rng.choice((PLANE, SPHERE, CAPSULE, ELLIPSOID, CYLINDER, BOX))
        size, pos, mat, pnt, vec, cls = gen_ray_case(rng, gtype)
        vals = size + pos + mat + pnt + vec
        lines.append("geomray %d %s" % (gtype, " ".join(fbits(float(v)) for v in vals)))
        cases.append((gtype, size, pos, mat, pnt, vec, cls))
    lines.append("geomray %d %s" % (HFIELD, " ".join(fbits(1.0) for _ in range(21))))     # unexpected type: mjERROR
    cases.append(None)
    rc, outs, err = ctx.run_lines([impl], lines)
    if rc != 0 or len(outs) != len(lines):
        found.append({"key": "c16:crash", "what": "c16_ray harness crashed on geomray (rc=%s)" % rc, "replay": {"stderr": err[-300:]}})
        return
    for l, c, o in zip(lines, cases, outs):
        rp = {"op": l, "how": "echo '<op>' | c16_ray   (tokens are IEEE-754 bit patterns: size[3] pos[3] mat[9] pnt[3] vec[3])"}
        key = what = None
        if c is None:
            if not o.startswith("error"):
                key, what = "c16:raygeom-bad-type", "mju_rayGeom accepted geom type mjGEOM_HFIELD: " + o[:80]
        elif o.startswith("error"):
            key, what = "c16:raygeom-error", "mju_rayGeom raised an error: " + o[:100]
        else:
            gtype, size, pos, mat, pnt, vec, cls = c
            rp["class"] = cls
            rp["inputs"] = {"type": gtype, "size": size, "pos": pos, "mat": mat, "pnt": pnt, "vec": vec}
            w = o.split()
            d0, d1 = frombits(w[0]), frombits(w[1])
            nn = [frombits(x) for x in w[2:5]]
            stats["geomray_classes"][cls] = stats["geomray_classes"].get(cls, 0) + 1
            stats["geomray_hits"] += 1 if d0 >= 0 else 0
            ctx.count(("geomray", l), nontrivial=d0 >= 0)
            if w[0] != w[1]:
                key, what = "c16:geom-normal-variant-differs", "mju_rayGeom distance differs with a normal output (%r vs %r)" % (d0, d1)
            elif d0 != d0 and all(math.isfinite(v) for v in size + pos + mat + pnt + vec) and min(size[:2]) > 1e-6 and cls not in ("special", "huge"):
                key, what = "c16:dist-range", "mju_rayGeom returns NaN on finite inputs"
            else:
                if d0 == d0 and d0 >= 0 and all(math.isfinite(x) for x in nn):
                    if not dev.note("|normal|-1", abs(math.sqrt(sum(x * x for x in nn)) - 1.0), 1e-9):
                        key, what = "c16:normal-not-unit", "normal of a hit has length %r" % math.sqrt(sum(x * x for x in nn))
                if d0 == d0 and d0 < 0 and any(x != 0.0 for x in nn):
                    key, what = "c16:normal-nonzero-on-miss", "normal is non-zero for a miss"
                if key is None and cls not in ("special",):
                    why = analytic_check(gtype, size, pos, mat, pnt, vec, d0, dev)
                    stats["analytic_checked"] += 1
                    if why:
                        key, what = why
        if key:
            stats["oracle_failures"] += 1
            stats["by_key"][key] = stats["by_key"].get(key, 0) + 1
            if sum(1 for f in found if f["key"] == key) < max_report:
                found.append({"key": key, "what": what, "replay": rp})


# ------------------------------------------------------------------------------------------ entry point
THEOREMS = [
    "MjProof.C16.ray_quad_smallest_nonneg_root",
    "MjProof.C16.ray_quad_outputs",
    "MjProof.C16.ray_quad_rejects",
    "MjProof.C16.sphere_hit_on_surface",
    "MjProof.C16.sphere_nearest",
    "MjProof.C16.sphere_miss_iff",
    "MjProof.C16.ellipsoid_hit_on_surface",
    "MjProof.C16.ellipsoid_nearest",
    "MjProof.C16.ellipsoid_miss_iff",
    "MjProof.C16.plane_hit_on_surface",
    "MjProof.C16.plane_unique",
    "MjProof.C16.plane_nearest",
    "MjProof.C16.plane_miss_iff",
    "MjProof.C16.box_hit_on_surface_partial",
    "MjProof.C16.box_range",
    "MjProof.C16.cylinder_hit_on_surface_partial",
    "MjProof.C16.cylinder_range",
    "MjProof.C16.capsule_hit_on_surface_partial",
    "MjProof.C16.capsule_range",
    "MjProof.C16.eliminate_matches_spec",
    "MjProof.C16.clampGroup_spec",
    "MjProof.C16.eliminate_bodyexclude",
    "MjProof.C16.eliminate_static",
    "MjProof.C16.ray_all_min",
    "MjProof.C16.multiRay_eq_map_ray",
    "MjProof.C16.multiRay_short",
]


def new_stats():
    return {"scenes": 0, "scene_build_errors": 0, "rays": 0, "multi_calls": 0, "multi_rays": 0, "ties": 0, "tie_ops": 0,
            "analytic_checked": 0, "oracle_failures": 0, "by_key": {}, "geom_types": {}, "short_vec_rays": 0,
            "multi_ties_skipped": 0, "geomray_classes": {}, "geomray_hits": 0}


def run(ctx):
    thorough = ctx.tier == "thorough"
    ctx.rule = ("(1) kernel cases per generated kernel drawn from named ray classes (outside towards / random, inside, grazing, "
                "axis-parallel incl. sliding in a face plane, pointing away, tiny and zero direction, origin on the surface, far "
                "origin, special values); (2) elim lines: exhaustive product of filter attributes + random; (3) generated scenes "
                "(gen/models.py + post-processing: groups incl. out-of-range, invisible rgba/materials, duplicated geoms for exact "
                "ties, static world geoms, lopsided bodies, box meshes) with ray fans from random sources under random filter "
                "settings; a case is distinct by its full op line, non-trivial = a geom is hit")
    m = kernelval.regen(ctx)
    ctx.lean_props(THEOREMS)
    gens = {n: kernel_gen(n) for n in KERNEL_TYPE}
    gens["ray_quad"] = quad_gen
    kernelval.validate(ctx, m, KERNELS, 4000 if thorough else 500, gens=gens, label="C16 ray kernels")
    ctx.extra["kernel_body_sha256"] = {n: m.get("kernels", {}).get(n, {}).get("sha256", "")[:16] for n in KERNELS}

    drv = ctx.driver("drv_c16")
    impl = ctx.harness("harness/c/c16_ray.c", "c16_ray", deps=["harness/mjbuild.h"])
    if not drv or not impl:
        return
    dev = Dev()
    found = []
    stats = new_stats()
    if getattr(ctx, "replay", None):
        rp = json.load(open(ctx.replay))
        for f in rp.get("failures", []):
            r = f.get("replay", {})
            ls = (r.get("model_block") or []) + ([r["state"]] if r.get("state") else []) + ([r["ray_op"]] if r.get("ray_op") else []) + [r.get("op", "")]
            rc, outs, err = ctx.run_lines([impl], ls)
            print("REPLAY %s\n  %s\n  -> %s" % (f.get("key"), f.get("what"), "\n     ".join(o[:400] for o in outs[-3:])))
        return
    # ---- ray_eliminate: the hand model vs the real static function, all filter inputs
    el = gen_elim_lines(ctx)
    rc, outs, err = ctx.run_lines([impl], el)
    ctx.differential("ray_eliminate (one-geom model with the given attributes) vs Lean rayEliminate", [drv], [impl], el,
                     keyf=lambda l: l)
    if rc == 0 and len(outs) == len(el):
        for l, o in zip(el, outs):
            why = elim_oracle(l, o)
            if why:
                stats["oracle_failures"] += 1
                stats["by_key"]["c16:eliminate-vs-spec"] = stats["by_key"].get("c16:eliminate-vs-spec", 0) + 1
                if sum(1 for f in found if f["key"] == "c16:eliminate-vs-spec") < 4:
                    found.append({"key": "c16:eliminate-vs-spec", "what": why,
                                  "replay": {"op": l, "impl_output": o, "how": "echo '<op>' | c16_ray"}})
    else:
        found.append({"key": "c16:crash", "what": "c16_ray crashed on elim lines (rc=%s)" % rc, "replay": {"stderr": err[-300:]}})
    ctx.extra["elim_exhaustive_scope"] = ("bodyid {0,1,2} x matid {-1,0,2} x (geom alpha 0, material alpha 0, weld 0) x group "
                                          "{-3,-1,0..7,100} x flg_static x bodyexclude {-1,0,1,2} x 7 masks = 44352 lines, + 2000 random")
    # ---- scenes
    run_scenes(ctx, impl, drv, 0, 0, 0, dev, found, stats, stream=regression_stream())
    ctx.extra["regression_inputs"] = [r[0] for r in REGRESSIONS]
    if thorough:
        for chunk in range(10):          # chunked: the per-ray outputs of one chunk are held in memory
            run_scenes(ctx, impl, drv, 100, 6, 80, dev, found, stats)
    else:
        run_scenes(ctx, impl, drv, 40, 5, 40, dev, found, stats)
    # ---- directed primitive cases
    for chunk in range(4 if thorough else 1):
        run_geomray(ctx, impl, 250000 if thorough else 12000, dev, found, stats)
    # findings of mj_multiRay's culling (reported to the coordinator, see final report) go last so that any other
    # failure is among the first entries of the replay file
    late = ("c16:multiray-short-vec", "c16:multiray-body-sphere-center", "c16:multiray-visual-geom-culled", "c16:multiray-cutoff-rbound")
    for f in sorted(found, key=lambda f: f["key"] in late):
        ctx.oracle_failure(f["key"], f["what"], f["replay"])
    ctx.extra["oracle"] = {k: v for k, v in stats.items()}
    ctx.extra["oracle_max_deviation_over_allowed"] = {k: float("%.3g" % v) for k, v in sorted(dev.m.items())}

    def directed(c):
        # a proof / tie obligation broke and the sampled oracle found nothing: search harder on the real code
        for rnd in range(4):
            f2, s2 = [], new_stats()
            run_geomray(c, impl, 40000, Dev(), f2, s2, max_report=1)
            if not f2:
                run_scenes(c, impl, drv, 30, 5, 40, Dev(), f2, s2, max_report=1)
            known = {k["key"] for k in c.known()}
            f2 = [f for f in f2 if f["key"] not in known]
            if f2:
                return f2[0]
        return None
    ctx.directed_search = directed
    if thorough:
        ctx.leanchecker(["MjProof.Props.C16"])
