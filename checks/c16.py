"""C16  Ray casting returns the nearest intersection (DESIGN.md §5.C16).

P  Lean theorems over the reals about the *generated* per-primitive kernels of src/engine/engine_ray.c
   (translate/kernels_c16.py -> lean/MjProof/Gen/Kernels.lean, regenerated from the working tree on every
   run) and about the hand model of the selection logic (lean/MjProof/Model/Ray.lean): Props/C16.lean.
T  translator regeneration + bitwise translation validation of the kernels (Lean Float vs compiled C);
   exact correspondence of the hand model with the real ray_eliminate (all filter inputs), the real mj_ray
   and the real mj_multiRay on generated scenes (the Lean side gets the per-geom distances computed by the
   real mju_rayGeom / mj_rayMesh and the filter attributes, and must return the same distance bits and
   geom id).
S  property oracle on the real code alone (harness/c/c16_ray.c): mj_ray vs brute force over mju_rayGeom with
   the documented filter recomputed in Python, mj_multiRay vs repeated mj_ray (bitwise), -1 <=> geomid -1,
   returned point on the surface of the returned geom and no robustly nearer hit (independent analytic
   intersection in Python), mju_rayGeom on directed primitive cases (inside / outside / grazing / parallel
   / pointing away / tiny direction).
"""
import json
import math
import os
import struct

from checks import common, kernelval
from gen.enums import E
from gen.models import ModelGen, unit_quat, unit_vec

META = {
    "technique": "c2lean translation of the ray-primitive kernels (regenerated every run) + Lean 4 proofs over the reals "
                 "about the generated definitions (quadratic-root characterisation, case split over every branch) + hand "
                 "model of ray_eliminate / mj_ray / mj_multiRay with fold-invariant proofs + bitwise translation validation "
                 "and exact correspondence on generated scenes + analytic property oracle on the compiled functions",
    "text": "ray_quad returns the smallest non-negative root of a x^2 + 2 b x + c (a >= mjMINVAL) and -1 iff none; "
            "ray-plane, ray-sphere and ray-ellipsoid (the mju_rayGeom paths) return a parameter whose point lies on the surface, "
            "no smaller non-negative parameter does, and -1 iff no admissible intersection exists; ray-box, ray-cylinder and "
            "ray-capsule: see the theorem list (soundness / nearest among the code's candidate set). The selection model "
            "(mj_ray = first argmin over geoms not eliminated, mj_multiRay = per-ray fold with conservative culling) is proved "
            "to return the minimum over eligible geoms, (-1,-1) iff none is hit, and multiRay = map ray when culling is sound.",
    "note": "theorems are over the reals (rounding outside the proofs); meshes, height fields, SDFs and flexes are not "
            "modelled (box meshes are covered by the oracle only); the bounding-angle culling of mj_multiRay is an input "
            "of the model (its soundness is a hypothesis of multiRay_eq_map_ray and is sampled by the oracle).",
}

THEOREMS = []

PLANE, HFIELD, SPHERE, CAPSULE, ELLIPSOID, CYLINDER, BOX, MESH = (E("mjGEOM_PLANE"), E("mjGEOM_HFIELD"), E("mjGEOM_SPHERE"),
                                                                 E("mjGEOM_CAPSULE"), E("mjGEOM_ELLIPSOID"), E("mjGEOM_CYLINDER"),
                                                                 E("mjGEOM_BOX"), E("mjGEOM_MESH"))
NGROUP = 6
MINVAL = 1e-15


def fbits(x):
    return kernelval.fbits(x)


def frombits(t):
    return kernelval.frombits(t)


# ------------------------------------------------------------------------------------------ scenes
SCENE_PROFILE = {
    "nbody": (2, 6), "geoms": (1, 3), "static_body": 0.25, "mocap": 0.2, "plane": 0.7, "free": 0.3,
    "actuators": (0, 0), "tendons": 0.0, "equalities": 0.0, "sensors": (0, 0), "sites": 0.0, "cameras": 0.0,
    "pairs": 0.0, "excludes": 0.0, "keys": 0.0, "numeric": 0.0, "sleep": 0.0,
}


def make_scene(rng, meshes=True, lopsided=True):
    """A generated scene: description lines (mjbuild format) + trailer lines (materials, box meshes)."""
    prof = dict(SCENE_PROFILE)
    prof["nbody"] = rng.choice(((1, 3), (2, 6), (4, 9)))
    prof["static_body"] = rng.choice((0.0, 0.25, 0.6))
    mdl = ModelGen(rng, prof).make()
    lines = list(mdl.lines)
    trailer = []
    nmat = rng.choice((0, 0, 1, 3))
    for i in range(nmat):
        trailer.append("material mat%d %r %r %r %r" % (i, rng.random(), rng.random(), rng.random(),
                                                       rng.choice((0.0, 0.0, 1.0, 0.5))))
    geoms = [g for g in mdl.geoms if "handle" in g]
    hmax = max([int(l.split()[1]) for l in lines if l.split()[0] in
                ("body", "geom", "joint", "freejoint", "site", "camera", "key", "numeric")] + [0])
    extra = []
    # filter attributes on the generated geoms
    for g in geoms:
        h = g["handle"]
        r = rng.random()
        if r < 0.5:
            extra.append("set %d group %d" % (h, rng.choice((0, 1, 2, 3, 4, 5, 5))))
        if rng.random() < 0.2:
            extra.append("set %d rgba 0.5 0.5 0.5 %s" % (h, rng.choice(("0", "0", "0.3"))))
        if nmat and rng.random() < 0.35:
            extra.append("set %d material mat%d" % (h, rng.randrange(nmat)))
    # duplicates (exact distance ties between distinct geoms, possibly with different filter attributes)
    ndup = rng.choice((0, 0, 1, 2))
    for _ in range(ndup):
        if not geoms:
            break
        g = rng.choice(geoms)
        h = g["handle"]
        parent = [l.split()[2] for l in lines if l.startswith("geom %d " % h)][0]
        hmax += 1
        extra.append("geom %d %s" % (hmax, parent))
        for l in lines + extra[:]:
            w = l.split()
            if w[0] == "set" and w[1] == str(h) and w[2] not in ("material", "rgba", "group"):
                extra.append("set %d %s" % (hmax, " ".join(w[2:])))
        extra.append("name %d dup%d" % (hmax, hmax))
        if rng.random() < 0.5:
            # out-of-range groups (clamped by ray_eliminate) only on duplicates: the original keeps the body's mass
            extra.append("set %d group %d" % (hmax, rng.choice((0, 1, 2, 3, 4, 5, 7, 11, -1, -3))))
    # static (world-attached) extra primitives and box meshes
    for _ in range(rng.choice((0, 1, 2))):
        hmax += 1
        gt = rng.choice((SPHERE, CAPSULE, ELLIPSOID, CYLINDER, BOX))
        extra.append("geom %d 0" % hmax)
        extra.append("name %d wg%d" % (hmax, hmax))
        extra.append("set %d type %d" % (hmax, gt))
        extra.append("set %d size %r %r %r" % (hmax, rng.uniform(0.05, 0.4), rng.uniform(0.05, 0.4), rng.uniform(0.05, 0.4)))
        extra.append("set %d pos %r %r %r" % (hmax, rng.uniform(-1.5, 1.5), rng.uniform(-1.5, 1.5), rng.uniform(0, 1.5)))
        extra.append("set %d quat %s" % (hmax, " ".join(repr(x) for x in unit_quat(rng))))
        if rng.random() < 0.5:
            extra.append("set %d group %d" % (hmax, rng.choice((0, 1, 2, 3, 4, 5, 6, 9, -2))))
    # lopsided bodies: a long light geom far from the body's centre of mass (the body-level bounding volume is
    # then far off-centre in the inertial frame)
    moving = [l.split()[1] for l in lines if l.startswith("body ")]
    if lopsided and moving and rng.random() < 0.6:
        for bh in rng.sample(moving, min(len(moving), rng.choice((1, 2)))):
            hmax += 1
            gt = rng.choice((CAPSULE, BOX, CYLINDER))
            ln = rng.uniform(0.3, 0.9)
            extra.append("geom %d %s" % (hmax, bh))
            extra.append("name %d lg%d" % (hmax, hmax))
            extra.append("set %d type %d" % (hmax, gt))
            if gt == BOX:
                extra.append("set %d size 0.02 0.03 %r" % (hmax, ln))
            else:
                extra.append("set %d size 0.02 %r" % (hmax, ln))
            d = unit_vec(rng)
            extra.append("set %d pos %r %r %r" % (hmax, d[0] * ln, d[1] * ln, d[2] * ln))
            extra.append("set %d alt.type %d" % (hmax, E("mjORIENTATION_ZAXIS")))
            extra.append("set %d alt.zaxis %r %r %r" % (hmax, d[0], d[1], d[2]))
            extra.append("set %d density 5" % hmax)
    if meshes and rng.random() < 0.5:
        bodies = [l.split()[1] for l in lines if l.startswith("body ")] + ["0"]
        for k in range(rng.choice((1, 2))):
            hmax += 1
            nm = "bm%d" % k
            trailer.append("boxmesh %s %r %r %r" % (nm, rng.uniform(0.05, 0.3), rng.uniform(0.05, 0.3), rng.uniform(0.05, 0.3)))
            extra.append("geom %d %s" % (hmax, rng.choice(bodies)))
            extra.append("name %d mg%d" % (hmax, hmax))
            extra.append("set %d type %d" % (hmax, MESH))
            extra.append("set %d meshname %s" % (hmax, nm))
            extra.append("set %d contype 0" % hmax)
            extra.append("set %d conaffinity 0" % hmax)
            extra.append("set %d pos %r %r %r" % (hmax, rng.uniform(-0.3, 0.3), rng.uniform(-0.3, 0.3), rng.uniform(-0.3, 0.3)))
            if rng.random() < 0.7:
                extra.append("set %d quat %s" % (hmax, " ".join(repr(x) for x in unit_quat(rng))))
            if rng.random() < 0.4:
                extra.append("set %d group %d" % (hmax, rng.randint(0, 5)))
    return mdl, lines + extra, trailer


def scene_block(lines, trailer):
    return ["model"] + lines + ["end"] + trailer + ["compile"]


# ------------------------------------------------------------------------------------------ kernel generators
def quat2mat(q):
    w, x, y, z = q
    return [1 - 2 * (y * y + z * z), 2 * (x * y - w * z), 2 * (x * z + w * y),
            2 * (x * y + w * z), 1 - 2 * (x * x + z * z), 2 * (y * z - w * x),
            2 * (x * z - w * y), 2 * (y * z + w * x), 1 - 2 * (x * x + y * y)]


def rand_mat(rng):
    r = rng.random()
    if r < 0.3:
        return [1.0, 0.0, 0.0, 0.0, 1.0, 0.0, 0.0, 0.0, 1.0]
    if r < 0.4:   # axis permutation / reflection-free 90 degree rotations
        return rng.choice(([0.0, -1.0, 0.0, 1.0, 0.0, 0.0, 0.0, 0.0, 1.0], [1.0, 0.0, 0.0, 0.0, 0.0, -1.0, 0.0, 1.0, 0.0],
                           [0.0, 0.0, 1.0, 0.0, 1.0, 0.0, -1.0, 0.0, 0.0], [-1.0, 0.0, 0.0, 0.0, -1.0, 0.0, 0.0, 0.0, 1.0]))
    return quat2mat(unit_quat(rng))


def matvec(m, v):
    return [m[0] * v[0] + m[1] * v[1] + m[2] * v[2], m[3] * v[0] + m[4] * v[1] + m[5] * v[2], m[6] * v[0] + m[7] * v[1] + m[8] * v[2]]


def mattvec(m, v):
    return [m[0] * v[0] + m[3] * v[1] + m[6] * v[2], m[1] * v[0] + m[4] * v[1] + m[7] * v[2], m[2] * v[0] + m[5] * v[1] + m[8] * v[2]]


RAY_CLASSES = ("outside_towards", "outside_random", "inside", "grazing", "axis_parallel", "away", "tiny_dir", "zero_dir",
               "on_surface", "huge", "special")


def gen_ray_case(rng, gtype, cls=None):
    """(size[3], pos[3], mat[9], pnt[3], vec[3], class) for one mju_rayGeom call."""
    cls = cls or rng.choice(RAY_CLASSES)
    size = [rng.uniform(0.05, 0.6) for _ in range(3)]
    if gtype == PLANE:
        size = [rng.choice((0.0, 0.0, -1.0, rng.uniform(0.2, 3))), rng.choice((0.0, 0.0, rng.uniform(0.2, 3))), 0.1]
    if rng.random() < 0.1:
        size[rng.randrange(3)] = rng.choice((0.0, 1e-9, 5.0))
    pos = [rng.uniform(-2, 2) for _ in range(3)]
    if rng.random() < 0.2:
        pos = [0.0, 0.0, 0.0]
    mat = rand_mat(rng)
    ext = max(size) if gtype != PLANE else 1.0
    # a target point in the geom frame: inside the bounding box of the shape
    tgt = [rng.uniform(-1, 1) * s for s in (size if gtype != PLANE else [2.0, 2.0, 0.0])]
    if gtype in (SPHERE,):
        tgt = [x * size[0] * rng.uniform(0, 1) for x in unit_vec(rng)]
    if gtype in (CAPSULE, CYLINDER):
        tgt = [rng.uniform(-0.7, 0.7) * size[0], rng.uniform(-0.7, 0.7) * size[0], rng.uniform(-1, 1) * (size[1] + (size[0] if gtype == CAPSULE else 0))]
    d = unit_vec(rng)
    dist = rng.uniform(1.5, 6) * ext + 0.1
    scale = rng.choice((1.0, 1.0, 1.0, rng.uniform(0.01, 100)))
    if cls == "outside_towards":
        lp = [tgt[i] - d[i] * dist for i in range(3)]
        lv = [x * scale for x in d]
    elif cls == "outside_random":
        lp = [rng.uniform(-3, 3) * ext for _ in range(3)]
        lv = [x * scale for x in unit_vec(rng)]
    elif cls == "inside":
        lp = [x * 0.9 for x in tgt]
        lv = [x * scale for x in d]
    elif cls == "grazing":
        # aim at a point at distance ~ext from the centre line: close to tangent
        e = unit_vec(rng)
        off = rng.choice((1.0, 1.0 + 1e-9, 1.0 - 1e-9, 1.0 + 1e-15, 1.0 - 1e-15, 0.999, 1.001))
        t = [e[i] * size[0] * off for i in range(3)]
        # direction perpendicular to e
        c = [d[1] * e[2] - d[2] * e[1], d[2] * e[0] - d[0] * e[2], d[0] * e[1] - d[1] * e[0]]
        n = math.sqrt(sum(x * x for x in c)) or 1.0
        c = [x / n for x in c]
        lp = [t[i] - c[i] * dist for i in range(3)]
        lv = [x * scale for x in c]
    elif cls == "axis_parallel":
        ax = rng.randrange(3)
        lv = [0.0, 0.0, 0.0]
        lv[ax] = rng.choice((1.0, -1.0)) * scale
        lp = [tgt[i] * rng.choice((1.0, 1.0, 0.0, 1.2)) for i in range(3)]
        lp[ax] = -lv[ax] / scale * dist * rng.choice((1, 1, -1))
        if rng.random() < 0.3:   # slide exactly in a face plane
            o = (ax + 1) % 3
            lp[o] = size[o] * rng.choice((1.0, -1.0))
    elif cls == "away":
        lp = [tgt[i] - d[i] * dist for i in range(3)]
        lv = [-x * scale for x in d]
    elif cls == "tiny_dir":
        lp = [tgt[i] - d[i] * dist for i in range(3)]
        s = rng.choice((1e-7, 3.2e-8, 3.1e-8, 1e-9, 1e-14, 1e-15, 9e-16, 1e-200))
        lv = [x * s for x in d]
    elif cls == "zero_dir":
        lp = [tgt[i] - d[i] * dist for i in range(3)]
        lv = [0.0, 0.0, rng.choice((0.0, -0.0))]
        if rng.random() < 0.5:
            lv = [0.0, 0.0, 0.0]
    elif cls == "on_surface":
        # origin (numerically) on the surface of a sphere-like bound, random direction
        e = unit_vec(rng)
        lp = [e[i] * size[0] for i in range(3)]
        if gtype == BOX:
            lp = [rng.uniform(-1, 1) * size[0], rng.uniform(-1, 1) * size[1], size[2] * rng.choice((1, -1))]
        if gtype == PLANE:
            lp = [rng.uniform(-1, 1), rng.uniform(-1, 1), 0.0]
        lv = [x * scale for x in unit_vec(rng)]
    elif cls == "huge":
        lp = [tgt[i] - d[i] * dist * 1e6 for i in range(3)]
        lv = [x * rng.choice((1.0, 1e6, 1e-3)) for x in d]
    else:
        lp = [rng.choice(kernelval.SPECIALS) for _ in range(3)]
        lv = [rng.choice(kernelval.SPECIALS) for _ in range(3)]
    if gtype == PLANE and cls in ("outside_towards", "away") and rng.random() < 0.7:
        # start above the plane
        if lp[2] < 0:
            lp[2] = -lp[2]
            lv[2] = -lv[2]
    pnt = [a + b for a, b in zip(matvec(mat, lp), pos)]
    vec = matvec(mat, lv)
    return size, pos, mat, pnt, vec, cls


KERNEL_TYPE = {"ray_plane_nn": PLANE, "ray_plane": PLANE, "mju_rayGeom_plane": PLANE,
               "ray_sphere_nn": SPHERE, "ray_sphere": SPHERE, "mju_rayGeom_sphere": SPHERE,
               "ray_capsule_nn": CAPSULE, "mju_rayGeom_capsule": CAPSULE,
               "ray_ellipsoid_nn": ELLIPSOID, "ray_ellipsoid": ELLIPSOID, "mju_rayGeom_ellipsoid": ELLIPSOID,
               "ray_cylinder_nn": CYLINDER, "ray_cylinder": CYLINDER, "mju_rayGeom_cylinder": CYLINDER,
               "ray_box_nn": BOX, "ray_box_all": BOX, "mju_rayGeom_box": BOX, "ray_map": BOX}
KERNELS = ["ray_quad", "mju_rayGeom_badtype"] + sorted(KERNEL_TYPE)


def kernel_gen(name):
    gtype = KERNEL_TYPE[name]

    def g(rng, inputs):
        if rng.random() < 0.1:
            return kernelval.default_gen(rng, inputs)
        size, pos, mat, pnt, vec, _ = gen_ray_case(rng, gtype)
        src = {"pos": pos, "mat": mat, "size": size, "pnt": pnt, "vec": vec}
        vals = []
        for nm, kind in inputs:
            base, _, idx = nm.rpartition("_")
            if nm == "dist_sqr":
                vals.append(size[0] * size[0])
            else:
                vals.append(src[base][int(idx)])
        return vals
    return g


def quad_gen(rng, inputs):
    r = rng.random()
    if r < 0.15:
        return kernelval.default_gen(rng, inputs)
    # roots chosen first so that every sign pattern / double roots / tiny a occur
    a = rng.choice((1.0, rng.uniform(0.01, 100), 1e-15, 9.9e-16, 1.1e-15, 1e-12, 0.0, -1.0))
    x0 = rng.choice((rng.uniform(-5, 5), 0.0, -0.0, 1e-12, -1e-12))
    x1 = rng.choice((rng.uniform(-5, 5), x0, x0 + 1e-9, x0 + 1e-15 * abs(x0)))
    if r < 0.5:
        b = -a * (x0 + x1) / 2
        c = a * x0 * x1
    elif r < 0.75:   # near-zero discriminant
        b = rng.uniform(-3, 3)
        c = b * b / a * rng.choice((1.0, 1 + 1e-16, 1 - 1e-16, 1 + 1e-9, 1 - 1e-9)) if a else 0.0
    else:
        b = rng.uniform(-3, 3)
        c = rng.uniform(-3, 3)
    return [a, b, c]
