"""C06  Inertia, bias force and inverse dynamics are mutually consistent (DESIGN.md §5.C06).

P  Lean theorems over the reals (lean/MjProof/Props/C06.lean) about the executable model of the sparse inertia
   routines (lean/MjProof/Model/InertiaSparse.lean), the generated spatial kernels, and the positive-definiteness
   algebra of sum J^T I J + diag(armature).
T  translator regeneration + bitwise translation validation of the spatial kernels; bitwise correspondence of the
   Lean sparse model (Float) with mj_mulM / mj_fullM / mj_factorM / mj_solveM of the tree build, on the engine's own
   M / qLD / sparsity pattern of generated kinematic trees.
S  property oracle on the real engine alone (harness/c/c06_oracle.c): symmetry and Cholesky-positivity of mj_fullM,
   M = sum_b J_b^T I_b J_b + armature with Jacobians from mj_jacBodyCom, tendon-armature part, L^T D L reconstruction
   from qLD, solveM o mulM = id and mulM o solveM = id, qfrc_bias = rne(0) + tendon bias, rne(a) - rne(0) = M_crb a,
   the bias force against the Lagrangian of the engine's own M(q) (qfrc_bias = Mdot v - 1/2 grad(v^T M v) + grad PE, with
   the Euler-Poincare term w x (M v) on the body-fixed rotational blocks of ball / free joints; M(q), xipos by central
   differences along mj_integratePos), plus the duality / parallel-axis identities on the compiled spatial kernels.
"""
import json
import math

from checks import common, kernelval
from gen.enums import E
from gen.models import unit_quat, unit_vec, fmt

META = {
    "technique": "Lean 4 proofs over the reals about a hand-written executable model of the CSR 'lower triangle by rows' routines (loop invariants by list induction, generic dimension and sparsity pattern; finite-dimensional linear algebra from Mathlib for the left inverse and for positive definiteness) and about c2lean-translated spatial kernels (ring) + bitwise differential correspondence of the model (Float) with the compiled engine on the engine's own matrices + property oracle on the real engine",
    "text": "Proved for every dimension n and every sparsity pattern accepted by lowerOk (diagonal slot last, strictly increasing columns below the diagonal) — for mj_factorI additionally treeOk (row of column c = prefix of the row, as mj_makeDofDofSparse lays out any dof_parentid forest): the dense matrix of mju_sym2dense (mj_fullM) times v equals mju_mulSymVecSparse (mj_mulM) entry by entry, and both equal the matrix D + Lo + Lo^T the format stands for; the output of mju_sym2dense is symmetric for every input whatsoever; mju_dotSparse's 4-accumulator scheme is the plain dot product; whatever qLD / qLDiagInv hold (lower pattern, non-zero qLDiagInv), the three passes of mj_solveLD return the solution y of (L^T D L) y = x with L the unit lower factor stored in the off-diagonal slots and D = 1/qLDiagInv — hence if L^T D L = M then mj_mulM(mj_solveM(x)) = x and mj_solveM(mj_mulM(v)) = v; mj_factorI on a tree pattern produces exactly such a factorisation (L^T D L = M entry by entry, qLDiagInv = 1/D, pattern unchanged) whenever no stored qLDiagInv is zero (ltdl_reconstruct: induction over the backward row loop with the invariant M = sum_{r done} d_r l_r l_r^T + remaining leading block, the positional mju_addToScl on row prefixes justified by treeOk), so mj_solveM o mj_mulM = mj_mulM o mj_solveM = id for the engine's own factorisation (solveM_mulM_inverse). Spatial algebra on the kernels translated from engine_util_spatial.c / engine_inline.h: crossForce is minus the transpose of crossMotion, crossMotion(v, v) = 0, the mji_ inline copies equal the mju_ functions, mju_inertCom + mju_mulInertVec implement the parallel-axis theorem (momentum (R I R^T w + d x p, p), p = m (v + w x d)) and their quadratic form is sum_k I_k (R^T w)_k^2 + m |v + w x d|^2. Algebra of positive definiteness: sum_b J_b^T I_b J_b + diag(armature) is positive semidefinite when every I_b is and armature >= 0, and positive definite when every I_b is and every non-zero v is seen by some J_b or carries positive armature.",
    "note": "NOT proved, decided by the oracle on the real engine only: that mj_crb computes sum J^T I J + armature (composite-rigid-body recursion), that mj_rne(a) = M a + bias, qfrc_bias = rne(0) (+ tendon bias), and that this bias is the Coriolis / centrifugal / gyroscopic / gravity force of the Lagrangian with the engine's own M(q) (finite-difference oracle; skipped for models whose tendon inertia falls outside M's pattern). The model abstracts flat address arithmetic (rowadr[i] + k, i*n + col) to rows; the AVX kernels, sleep filtering (index != NULL) and mj_solveM2 are not modelled. Tendon armature: the engine adds armature * J^T J only inside M's tree sparsity pattern (upstream test TendonArmature expects exactly that); the oracle checks that behaviour and counts the states where off-pattern terms are dropped (evidence only) — but when the truncation makes M itself indefinite although mj_crb's matrix and the untruncated sum are positive definite, that is reported as a failure under the stable key c06:M-indefinite-offtree-tendon-armature (a directed 'parent joint + two sibling joints + one fixed tendon' tree in every run exhibits it). Second stable key c06:tendon-bias-ball-followed-by-slide: the tendon-armature part of qfrc_bias is wrong for tendons attached below a ball joint that is followed by a slide joint on the same body (root cause mj_jacDot, see C07's c07:jacDot-ball-followed-by-slide; recognised by replacing the engine's tendon bias with armature * J^T (Jdot v) from central differences of ten_J). Reals vs doubles: rounding is outside the proofs.",
}

P = "MjProof.C06."
THEOREMS = [P + t for t in (
    "fullM_mulM_agree", "sym2dense_symmetric", "fullM_entry", "mulM_entry",
    "solveLD_solves", "solveLD_inverts_of_cert", "solveLD_mulM_of_cert", "ltdl_reconstruct", "solveM_mulM_inverse",
    "crossForce_dual_crossMotion", "crossMotion_self", "mji_crossForce_eq", "mji_crossMotion_eq", "mji_dot6_eq",
    "inertCom_parallel_axis", "inertCom_quadratic_form",
    "sum_congruence_psd", "quad_form", "sum_congruence_pd",
)]

KERNELS = ["mju_cross", "mju_crossMotion", "mju_crossForce", "mju_inertCom", "mju_mulInertVec", "mju_dofCom",
           "mju_transformSpatial", "mji_crossMotion", "mji_crossForce", "mji_dot6"]

fb = kernelval.fbits
frombits = kernelval.frombits


# ------------------------------------------------------------------------------------------------ tree generator
class Tree:
    """A kinematic tree in the line format of harness/mjbuild.h, generated here (not by gen/models.py) because C06/C07
    need control over topology (deep chains, wide branching, up to ~40 dofs), joint stacks (several joints per body,
    ball + hinge, ...), explicit inertial frames (incl. the 'simple body' fast path), armature on joints / tendons /
    actuators, reference positions (qpos0 != 0), mocap bodies, and frames attached to bodies (geoms, sites, cameras)."""

    def __init__(self):
        self.lines = []
        self.joints = []   # dict(name, type, body, qposadr, dofadr)
        self.bodies = []   # dict(name, parent(index, 0 = world), mocap)
        self.sites = []
        self.geoms = []
        self.cams = []
        self.nq = self.nv = self.nmocap = 0
        self.ntendon = 0
        self.gravity = [0.0, 0.0, -9.81]
        self.info = {}

    def text(self):
        return "|".join(self.lines + ["end"])

    def random_qpos(self, rng, nonunit=0.0):
        q = []
        for j in self.joints:
            if j["type"] == "free":
                q += [rng.uniform(-1, 1), rng.uniform(-1, 1), rng.uniform(-1, 1)]
                u = unit_quat(rng)
                if rng.random() < nonunit:
                    s = rng.choice((1 + 1e-9, 0.7, 3.0, 1 - 1e-13))
                    u = [x * s for x in u]
                q += u
            elif j["type"] == "ball":
                u = unit_quat(rng)
                if rng.random() < nonunit:
                    s = rng.choice((1 + 1e-9, 0.7, 3.0, 1 - 1e-13))
                    u = [x * s for x in u]
                q += u
            else:
                q.append(rng.choice((rng.uniform(-2.5, 2.5), rng.uniform(-0.3, 0.3), 0.0)) if rng.random() < 0.9
                         else j.get("ref", 0.0))
        return q


def gen_tree(rng, maxbody=8, maxdof=40, frames=True, tendons=True, p=None):
    p = dict({"free": 0.3, "static": 0.08, "mocap": 0.1, "explicit": 0.5, "chain": 0.5, "top": 0.2,
              "armature": 0.4, "ref": 0.3, "gravity": 0.85, "actarm": 0.3}, **(p or {}))
    t = Tree()
    L = t.lines.append
    h = [0]

    def newh():
        h[0] += 1
        return h[0]
    L("option timestep 0.002")
    t.gravity = [0.0, 0.0, -9.81]      # mjOption default
    if rng.random() > p["gravity"]:
        t.gravity = [0.0, 0.0, 0.0]
        L("option gravity 0 0 0")
    elif rng.random() < 0.3:
        t.gravity = [rng.uniform(-5, 5), rng.uniform(-5, 5), rng.uniform(-10, 0)]
        L("option gravity %s" % fmt(t.gravity))
    # no collisions / constraints are needed for this property: keeps mj_fwdPosition cheap
    L("option disableflags %d" % (E("mjDSBL_CONTACT") | E("mjDSBL_CONSTRAINT")))
    nb = rng.randint(1, maxbody)
    handles = [0]
    kinds = {"free": 0, "ball": 0, "slide": 0, "hinge": 0}
    path = []     # body indices from a root to the last created body: bodies are created in depth-first preorder, the
                  # order in which the compiler numbers them, so that joint / dof / qpos layouts here match the model's
    for bi in range(nb):
        if bi == 0 or rng.random() < p["top"] or not path:
            pi = 0
        elif rng.random() < p["chain"]:
            pi = path[-1]
        else:
            pi = rng.choice(path)
        if pi and t.bodies[pi - 1]["mocap"]:
            pi = 0          # mocap bodies must be children of the world and we keep them leaf-like
        path = (path[:path.index(pi) + 1] if pi else []) + [bi + 1]
        bh = newh()
        handles.append(bh)
        name = "b%d" % (bi + 1)
        L("body %d %d" % (bh, handles[pi]))
        L("name %d %s" % (bh, name))
        L("set %d pos %s" % (bh, fmt([rng.uniform(-0.6, 0.6) for _ in range(3)]) if rng.random() < 0.9 else "0 0 0"))
        if rng.random() < 0.65:
            L("set %d quat %s" % (bh, fmt(unit_quat(rng))))
        binfo = {"name": name, "parent": pi, "mocap": False}
        t.bodies.append(binfo)
        room = maxdof - t.nv
        r = rng.random()
        jl = []
        simple_candidate = rng.random() < 0.35     # joints at the body origin with aligned axes, identity inertial frame
        if pi == 0 and r < p["mocap"]:
            L("set %d mocap 1" % bh)
            binfo["mocap"] = True
            t.nmocap += 1
        elif r < p["mocap"] + p["static"]:
            pass
        elif pi == 0 and rng.random() < p["free"] and room >= 6:
            jl = ["free"]
        else:
            # MuJoCo rules: at most 6 dofs per body, no rotational joint (hinge / ball) after a ball
            nj = rng.choice((1, 1, 1, 2, 2, 3, 4))
            for _ in range(nj):
                jt = rng.choice(("hinge", "hinge", "hinge", "slide", "slide", "ball"))
                if "ball" in jl and jt != "slide":
                    jt = "slide"
                need = 3 if jt == "ball" else 1
                used = sum(3 if x == "ball" else 1 for x in jl)
                # keep the dofs of one body independent (else M is only semidefinite): <= 3 slides, and <= 3
                # rotational dofs when all joints sit at the body origin
                if jt == "slide" and jl.count("slide") >= 3:
                    continue
                if simple_candidate and jt != "slide" and 3 * jl.count("ball") + jl.count("hinge") + need > 3:
                    continue
                if room - used >= need and used + need <= 6:
                    jl.append(jt)
        used_axes = set()
        for jt in jl:
            jh = newh()
            jn = "j%d" % (len(t.joints) + 1)
            jinfo = {"name": jn, "type": jt, "body": name, "qposadr": t.nq, "dofadr": t.nv, "handle": jh}
            if jt == "free":
                L("freejoint %d %d" % (jh, bh))
                L("name %d %s" % (jh, jn))
                t.nq += 7
                t.nv += 6
            else:
                L("joint %d %d" % (jh, bh))
                L("name %d %s" % (jh, jn))
                L("set %d type %d" % (jh, E("mjJNT_" + jt.upper())))
                if simple_candidate:
                    L("set %d pos 0 0 0" % jh)
                else:
                    L("set %d pos %s" % (jh, fmt([rng.uniform(-0.3, 0.3) for _ in range(3)])))
                if jt != "ball":
                    free_idx = [k for k in range(3) if (jt, k) not in used_axes]
                    if (simple_candidate or rng.random() < 0.2) and free_idx:
                        # axis-aligned; never two parallel joints of one type in a body (M would be singular)
                        ax = [0.0, 0.0, 0.0]
                        k = rng.choice(free_idx)
                        used_axes.add((jt, k))
                        ax[k] = rng.choice((1.0, -1.0))
                    else:
                        ax = unit_vec(rng)
                    L("set %d axis %s" % (jh, fmt(ax)))
                    if rng.random() < p["ref"]:
                        jinfo["ref"] = rng.uniform(-0.8, 0.8)
                        L("set %d ref %r" % (jh, jinfo["ref"]))
                t.nq += 4 if jt == "ball" else 1
                t.nv += 3 if jt == "ball" else 1
            if rng.random() < p["armature"]:
                L("set %d armature %r" % (jh, rng.choice((rng.uniform(0.001, 0.5), rng.uniform(0.5, 5.0)))))
            kinds[jt] += 1
            t.joints.append(jinfo)
        # inertial properties
        explicit = rng.random() < p["explicit"] or (simple_candidate and rng.random() < 0.8)
        if explicit:
            a, b, c = (rng.uniform(0.05, 0.5) for _ in range(3))
            mass = rng.choice((rng.uniform(0.05, 5.0), rng.uniform(5, 50)))
            L("set %d explicitinertial 1" % bh)
            L("set %d mass %r" % (bh, mass))
            L("set %d inertia %s" % (bh, fmt([mass / 12 * (b * b + c * c), mass / 12 * (a * a + c * c), mass / 12 * (a * a + b * b)])))
            if simple_candidate or rng.random() < 0.3:
                L("set %d ipos 0 0 0" % bh)
            else:
                L("set %d ipos %s" % (bh, fmt([rng.uniform(-0.2, 0.2) for _ in range(3)])))
            if not (simple_candidate or rng.random() < 0.3):
                L("set %d iquat %s" % (bh, fmt(unit_quat(rng))))
        ngeom = rng.choice((1, 1, 2)) if (not explicit or rng.random() < 0.5) else 0
        if not frames and explicit:
            ngeom = 0
        for _ in range(ngeom):
            gh = newh()
            gn = "g%d" % (len(t.geoms) + 1)
            gt = rng.choice(("sphere", "capsule", "box", "ellipsoid", "cylinder"))
            L("geom %d %d" % (gh, bh))
            L("name %d %s" % (gh, gn))
            L("set %d type %d" % (gh, E("mjGEOM_" + gt.upper())))
            a, b, c = (rng.uniform(0.04, 0.25) for _ in range(3))
            L("set %d size %s" % (gh, fmt({"sphere": [a], "capsule": [a, b], "cylinder": [a, b]}.get(gt, [a, b, c]))))
            if rng.random() < 0.8:
                L("set %d pos %s" % (gh, fmt([rng.uniform(-0.2, 0.2) for _ in range(3)])))
            if rng.random() < 0.7:
                L("set %d quat %s" % (gh, fmt(unit_quat(rng))))
            L("set %d contype 0" % gh)
            L("set %d conaffinity 0" % gh)
            if rng.random() < 0.3:
                L("set %d density %r" % (gh, rng.uniform(100, 4000)))
            t.geoms.append({"name": gn, "body": bi + 1})
        if frames and rng.random() < 0.6:
            sh = newh()
            sn = "s%d" % (len(t.sites) + 1)
            L("site %d %d" % (sh, bh))
            L("name %d %s" % (sh, sn))
            if rng.random() < 0.85:
                L("set %d pos %s" % (sh, fmt([rng.uniform(-0.3, 0.3) for _ in range(3)])))
            if rng.random() < 0.6:
                L("set %d quat %s" % (sh, fmt(unit_quat(rng))))
            t.sites.append({"name": sn, "body": bi + 1})
        if frames and rng.random() < 0.3:
            ch = newh()
            L("camera %d %d" % (ch, bh))
            L("name %d cam%d" % (ch, len(t.cams) + 1))
            L("set %d pos %s" % (ch, fmt([rng.uniform(-0.3, 0.3) for _ in range(3)])))
            if rng.random() < 0.8:
                L("set %d quat %s" % (ch, fmt(unit_quat(rng))))
            t.cams.append({"body": bi + 1})
    sj = [j for j in t.joints if j["type"] in ("hinge", "slide")]
    if tendons and len(sj) >= 2:
        for _ in range(rng.choice((0, 1, 1, 2))):
            th = newh()
            L("tendon %d" % th)
            L("name %d t%d" % (th, t.ntendon + 1))
            for j in rng.sample(sj, rng.choice((2, 2, 3)) if len(sj) >= 3 else 2):
                L("wrap %d joint %s %r" % (th, j["name"], rng.uniform(-2, 2) or 1.0))
            if rng.random() < 0.75:
                L("set %d armature %r" % (th, rng.uniform(0.01, 2.0)))
            t.ntendon += 1
    if tendons and len(t.sites) >= 2 and rng.random() < 0.3:
        th = newh()
        L("tendon %d" % th)
        L("name %d t%d" % (th, t.ntendon + 1))
        for s in rng.sample(t.sites, 2):
            L("wrap %d site %s" % (th, s["name"]))
        if rng.random() < 0.7:
            L("set %d armature %r" % (th, rng.uniform(0.01, 1.0)))
        t.ntendon += 1
    if sj and rng.random() < p["actarm"]:
        for _ in range(rng.choice((1, 2))):
            ah = newh()
            j = rng.choice(sj)
            L("actuator %d" % ah)
            L("name %d a%d" % (ah, ah))
            L("set %d trntype %d" % (ah, E("mjTRN_JOINT")))
            L("set %d target %s" % (ah, j["name"]))
            L("set %d gear %r" % (ah, rng.choice((1.0, rng.uniform(-3, 3) or 1.0))))
            L("set %d armature %r" % (ah, rng.uniform(0.01, 0.3)))
    t.info = {"nbody": nb, "nv": t.nv, "kinds": kinds, "ntendon": t.ntendon}
    return t


# ------------------------------------------------------------------------------------------------ parsing helpers
def parse_groups(tokens):
    """`key n v1..vn ...` -> dict key -> list of tokens"""
    g, i = {}, 0
    while i < len(tokens):
        key, n = tokens[i], int(tokens[i + 1])
        g[key] = tokens[i + 2:i + 2 + n]
        i += 2 + n
    return g


def F(g, key):
    return [frombits(x) for x in g[key]]


def I(g, key):
    return [int(x) for x in g[key]]


def matvec(A, n, v):
    return [sum(A[i * n + j] * v[j] for j in range(n)) for i in range(n)]


def cholesky_ok(A, n):
    """returns (ok, min_pivot) of the plain Cholesky recursion on the dense matrix A (row major)"""
    Lm = [[0.0] * n for _ in range(n)]
    minp = float("inf")
    for i in range(n):
        for j in range(i + 1):
            s = A[i * n + j] - sum(Lm[i][k] * Lm[j][k] for k in range(j))
            if i == j:
                minp = min(minp, s)
                if not (s > 0):
                    return False, s
                Lm[i][i] = math.sqrt(s)
            else:
                Lm[i][j] = s / Lm[j][j]
    return True, (minp if n else 1.0)


class Dev:
    def __init__(self):
        self.m = {}

    def see(self, key, val, allowed):
        r = val / allowed if allowed > 0 else (0.0 if val == 0 else float("inf"))
        if r > self.m.get(key, 0.0):
            self.m[key] = r
        return r


# ------------------------------------------------------------------------------------------------ op streams
def model_block(rng, tree, nstates, thorough):
    """harness lines for one model; returns (lines, meta) where meta[i] describes line i"""
    lines, meta = [], []

    def add(l, **kw):
        lines.append(l)
        meta.append(kw)
    add("model " + tree.text(), kind="model")
    nv = tree.nv
    for s in range(nstates):
        qpos = tree.random_qpos(rng, nonunit=0.15)
        scale = rng.choice((1.0, 1.0, 5.0, 0.01))
        qvel = [rng.gauss(0, 1) * scale for _ in range(nv)]
        qacc = [rng.gauss(0, 1) * rng.choice((1.0, 10.0)) for _ in range(nv)]
        st = {"qpos": qpos, "qvel": qvel, "qacc": qacc}
        add("set qpos " + " ".join(map(fb, qpos)), kind="set")
        add("set qvel " + " ".join(map(fb, qvel)), kind="set")
        add("set qacc " + " ".join(map(fb, qacc)), kind="set")
        if tree.nmocap:
            add("set mocap_pos " + " ".join(fb(rng.uniform(-1, 1)) for _ in range(3 * tree.nmocap)), kind="set")
            add("set mocap_quat " + " ".join(fb(x) for _ in range(tree.nmocap) for x in unit_quat(rng)), kind="set")
        add("fwd", kind="fwd")
        add("dump", kind="dump", state=st)
        for b in range(len(tree.bodies) + 1):
            add("jac %d" % b, kind="jac", body=b)
        add("rne 1", kind="rne1")

        def vec(style):
            if style == "sparse":
                return [rng.gauss(0, 1) if rng.random() < 0.4 else 0.0 for _ in range(nv)]
            if style == "unit":
                e = [0.0] * nv
                if nv:
                    e[rng.randrange(nv)] = 1.0
                return e
            if style == "negzero":
                return [rng.choice((-0.0, 0.0, rng.gauss(0, 1))) for _ in range(nv)]
            if style == "wide":
                return [rng.gauss(0, 1) * 10 ** rng.randint(-6, 6) for _ in range(nv)]
            return [rng.gauss(0, 1) for _ in range(nv)]
        styles = ("gauss", "gauss", "sparse", "unit", "negzero", "wide")
        if nv == 0:
            continue
        add("mulM " + " ".join(fb(x) for x in vec(rng.choice(styles))), kind="rec")
        add("fullM", kind="rec")
        add("factor", kind="rec")
        add("solveM 1 " + " ".join(fb(x) for x in vec(rng.choice(styles))), kind="rec")
        if s == 0 or thorough:
            add("solveM 3 " + " ".join(fb(x) for _ in range(3) for x in vec(rng.choice(styles))), kind="rec")
            add("mulM " + " ".join(fb(x) for x in vec(rng.choice(styles))), kind="rec")
        add("round " + " ".join(fb(x) for x in vec("gauss") + vec("gauss")), kind="round")
    if 1 <= nv <= (24 if thorough else 12) and (rng.random() < (0.7 if thorough else 0.5) or tree.info.get("directed")):
        l2, m2 = lagrange_block(rng, tree)
        lines += l2
        meta += m2
    return lines, meta


LAG_EPS = 1e-6


def lagrange_block(rng, tree):
    """harness lines for the independent check of the bias force against the Lagrangian of the engine's own M(q):
       c = Mdot v - 1/2 grad_q (v^T M v) + grad_q PE (+ w x (M v) on the rotational block of ball / free joints, whose
       velocity coordinates are body-fixed).  M(q), xipos come from the engine at q (+-) eps e_i and q (+-) eps v."""
    lines, meta = [], []

    def add(l, **kw):
        lines.append(l)
        meta.append(kw)
    nv = tree.nv
    qpos = tree.random_qpos(rng)
    qvel = [rng.gauss(0, 1) for _ in range(nv)]
    info = {"qpos": qpos, "qvel": qvel, "gravity": tree.gravity}
    base = ["set qpos " + " ".join(map(fb, qpos)), "set qvel " + " ".join(map(fb, qvel))]
    for l in base:
        add(l, kind="set")
    if tree.nmocap:
        add("set mocap_pos " + " ".join(fb(rng.uniform(-1, 1)) for _ in range(3 * tree.nmocap)), kind="set")
        add("set mocap_quat " + " ".join(fb(x) for _ in range(tree.nmocap) for x in unit_quat(rng)), kind="set")
    add("fwd", kind="fwd")
    add("dump", kind="lagdump", lag=info)
    for i in list(range(nv)) + ["v"]:
        for sgn in (+1, -1):
            add(base[0], kind="set")
            vec = qvel if i == "v" else [1.0 if k == i else 0.0 for k in range(nv)]
            add("integ " + fb(sgn * LAG_EPS) + " " + " ".join(fb(x) for x in vec), kind="set")
            add("fwd", kind="fwd")
            add("mq", kind="lagmq", dof=i, sgn=sgn)
    add("lagend", kind="lagend")
    return lines, meta


def judge_lagrange(dump, mqs, lag, joints, dev):
    """returns list of (key, what)"""
    fails = []
    n = I(dump, "n")[0]
    if n == 0 or any(v is None for pr in mqs.values() for v in pr):
        return fails
    v, grav = lag["qvel"], lag["gravity"]
    M = F(dump, "fullM")
    mass = F(dump, "body_mass")
    bias = F(dump, "qfrc_bias")

    def quad(A):
        return sum(A[i * n + j] * v[i] * v[j] for i in range(n) for j in range(n))

    def pe(x):
        return -sum(mass[b] * sum(grav[r] * x[3 * b + r] for r in range(3)) for b in range(len(mass)))
    Mp, Mm = F(mqs["v"][0], "fullM"), F(mqs["v"][1], "fullM")
    Mdot_v = [sum((Mp[i * n + j] - Mm[i * n + j]) / (2 * LAG_EPS) * v[j] for j in range(n)) for i in range(n)]
    Mv = matvec(M, n, v)
    exp = []
    for i in range(n):
        a, b = mqs[i]
        dT = (quad(F(a, "fullM")) - quad(F(b, "fullM"))) / (2 * LAG_EPS)
        dV = (pe(F(a, "xipos")) - pe(F(b, "xipos"))) / (2 * LAG_EPS)
        exp.append(Mdot_v[i] - 0.5 * dT + dV)
    # Euler-Poincare term on the body-fixed rotational blocks:  w x p,  p = (M v)_block
    for j in joints:
        if j["type"] in ("ball", "free"):
            a = j["dofadr"] + (3 if j["type"] == "free" else 0)
            w, pblk = v[a:a + 3], Mv[a:a + 3]
            c = cross3(w, pblk)
            for r in range(3):
                exp[a + r] += c[r]
    scale = max([abs(x) for x in bias] + [abs(x) for x in Mdot_v] + [abs(x) for x in Mv] + [1e-300])
    err = max(abs(a - b) for a, b in zip(bias, exp))
    if err > 2e-5 * scale:
        # KNOWN DEFECT CANDIDATE (same root cause as c07:jacDot-ball-followed-by-slide): mj_tendonBias uses mj_tendonDot ->
        # mj_jacDot, which is wrong for the dofs of a ball joint followed by a slide joint on the same body.  Recognised by
        # replacing the engine's tendon bias with armature * J^T (Jdot v), Jdot from central differences of ten_J.
        ta, J0, tb = F(dump, "tenarm"), F(dump, "tenJ"), F(dump, "tbias")
        Jp, Jm = F(mqs["v"][0], "tenJ"), F(mqs["v"][1], "tenJ")
        tfd = [0.0] * n
        for k in range(len(ta)):
            jd = sum((Jp[k * n + i] - Jm[k * n + i]) / (2 * LAG_EPS) * v[i] for i in range(n))
            for i in range(n):
                tfd[i] += ta[k] * J0[k * n + i] * jd
        err2 = max(abs((a - t0 + t1) - b) for a, t0, t1, b in zip(bias, tb, tfd, exp))
        ballslide = any(j["type"] == "ball" and any(k["body"] == j["body"] and k["type"] == "slide" and k["dofadr"] > j["dofadr"]
                                                    for k in joints) for j in joints)
        if ballslide and any(tb) and err2 <= 2e-5 * scale:
            dev.see("bias-equals-lagrangian(tendon bias from FD of ten_J)", err2, 2e-5 * scale)
            fails.append(("c06:tendon-bias-ball-followed-by-slide",
                          "qfrc_bias differs from the Lagrangian bias force only through mj_tendonBias: the tendon-armature bias "
                          "armature * J^T (Jdot v) of the engine (mj_tendonDot -> mj_jacDot) is off by %.3g for a tendon attached "
                          "below a ball joint that is followed by a slide joint on the same body" % max(abs(a - b) for a, b in zip(tb, tfd))))
            return fails
    if dev.see("bias-equals-lagrangian", err, 2e-5 * scale) > 1:
        fails.append(("c06:bias-equals-lagrangian",
                      "qfrc_bias differs from Mdot v - 1/2 grad(v^T M v) + grad PE (+ w x Mv on quaternion blocks) formed by "
                      "central differences of the engine's own M(q), xipos (deviation %.3g, allowed %.3g)" % (err, 2e-5 * scale)))
    return fails


def kernel_lines(rng, n):
    lines = []
    for _ in range(n):
        sc = rng.choice((1.0, 1.0, 100.0, 1e-3))
        lines.append("cross " + " ".join(fb(rng.gauss(0, 1) * sc) for _ in range(18)))
        a, b, c = (rng.uniform(0.05, 0.6) for _ in range(3))
        mass = rng.uniform(0.05, 20)
        inertia = [mass / 12 * (b * b + c * c), mass / 12 * (a * a + c * c), mass / 12 * (a * a + b * b)]
        q = unit_quat(rng) if rng.random() < 0.9 else [1.0, 0.0, 0.0, 0.0]
        lines.append("inert " + " ".join(fb(x) for x in inertia + q + [rng.uniform(-1, 1) for _ in range(3)] + [mass] +
                                         [rng.gauss(0, 1) for _ in range(6)]))
    return lines


# ------------------------------------------------------------------------------------------------ oracle
def cross3(a, b):
    return [a[1] * b[2] - a[2] * b[1], a[2] * b[0] - a[0] * b[2], a[0] * b[1] - a[1] * b[0]]


def judge_kernel(line, out, dev):
    fails = []
    w = line.split()
    x = [frombits(t) for t in w[1:]]
    g = parse_groups(out.split()[1:])
    if w[0] == "cross":
        vel, v, f = x[0:6], x[6:12], x[12:18]
        cm, cf = F(g, "motion"), F(g, "force")
        lhs = sum(a * b for a, b in zip(cm, f))
        rhs = -sum(a * b for a, b in zip(v, cf))
        sc = sum(abs(a) for a in vel) * sum(abs(a) for a in v) * sum(abs(a) for a in f) + 1e-300
        if dev.see("cross_duality", abs(lhs - rhs), 1e-13 * sc) > 1:
            fails.append(("c06:kernel:cross-duality", "<crossMotion(v,w), f> != -<w, crossForce(v,f)> on the compiled kernels"))
    else:
        inertia, q, dif, mass, vv = x[0:3], x[3:7], x[7:10], x[10], x[11:17]
        R, res = F(g, "mat"), F(g, "res")
        w3, u3 = vv[0:3], vv[3:6]
        wd = cross3(w3, dif)
        p = [mass * (u3[k] + wd[k]) for k in range(3)]
        b = [sum(R[3 * r + k] * w3[r] for r in range(3)) for k in range(3)]
        rot = [sum(R[3 * r + k] * inertia[k] * b[k] for k in range(3)) for r in range(3)]
        dp = cross3(dif, p)
        exp = [rot[k] + dp[k] for k in range(3)] + p
        sc = (sum(inertia) + mass * (1 + sum(abs(a) for a in dif)) ** 2) * (sum(abs(a) for a in vv)) + 1e-300
        if dev.see("parallel_axis", max(abs(a - e) for a, e in zip(res, exp)), 1e-13 * sc) > 1:
            fails.append(("c06:kernel:parallel-axis", "mulInertVec(inertCom(I, R, d, m), v) differs from (R I R^T w + d x p, p)"))
    return fails


def judge_state(dump, jacs, rne1, rnd, st, dev, stats):
    """all C06 identities on one (model, state); returns list of (key, what)"""
    fails = []
    g = dump
    n = I(g, "n")[0]
    if n == 0:
        return fails
    full, crb = F(g, "fullM"), F(g, "crbM")
    rownnz, rowadr, colind = I(g, "rownnz"), I(g, "rowadr"), I(g, "colind")
    scale = max(abs(x) for x in full) or 1.0

    def chk(key, val, allowed, what):
        if dev.see(key, val, allowed) > 1:
            fails.append(("c06:" + key, what + " (deviation %.3g, allowed %.3g)" % (val, allowed)))
    # 1. symmetry (mju_sym2dense copies the same value into both cells: exact) and positivity
    asym = max(abs(full[i * n + j] - full[j * n + i]) for i in range(n) for j in range(n))
    if asym != 0:
        fails.append(("c06:fullM-symmetry", "mj_fullM is not symmetric (max |M_ij - M_ji| = %.3g)" % asym))
    ok, piv = cholesky_ok(full, n)
    offtree_indefinite = False
    if not ok:
        # KNOWN DEFECT CANDIDATE (reported under a stable key): mj_tendonArmature adds armature * J^T J only inside M's
        # tree sparsity pattern; for a tendon that couples dofs of different branches the truncated rank-one term is
        # indefinite and can make M itself indefinite although both the CRB matrix and CRB + armature * J^T J are
        # positive definite
        nt0, ta0, tj0 = len(g["tenarm"]), F(g, "tenarm"), F(g, "tenJ")
        un = list(crb)
        for k in range(nt0):
            for i in range(n):
                if tj0[k * n + i]:
                    for j in range(n):
                        un[i * n + j] += ta0[k] * tj0[k * n + i] * tj0[k * n + j]
        if nt0 and cholesky_ok(crb, n)[0] and cholesky_ok(un, n)[0]:
            offtree_indefinite = True
            stats["M_indefinite_offtree_tendon"] = stats.get("M_indefinite_offtree_tendon", 0) + 1
            fails.append(("c06:M-indefinite-offtree-tendon-armature",
                          "mj_fullM is not positive definite (Cholesky pivot %.3g) although mj_crb's matrix and mj_crb + "
                          "sum_t armature_t J_t^T J_t are: mj_tendonArmature drops the tendon inertia outside M's tree pattern" % piv))
        else:
            fails.append(("c06:fullM-positive-definite", "Cholesky of mj_fullM fails: pivot %.3g" % piv))
    # 2. M_crb = sum_b J_b^T I_b J_b + diag(armature)
    mass, inert, ximat = F(g, "body_mass"), F(g, "body_inertia"), F(g, "ximat")
    arm = F(g, "arm")
    exp = [0.0] * (n * n)
    for b, jg in enumerate(jacs):
        if mass[b] == 0 and not any(inert[3 * b:3 * b + 3]):
            continue
        jp, jr = F(jg, "jacp"), F(jg, "jacr")
        R = ximat[9 * b:9 * b + 9]
        # body-frame angular Jacobian  B = R^T Jr  (3 x n)
        B = [[sum(R[3 * r + k] * jr[r * n + c] for r in range(3)) for c in range(n)] for k in range(3)]
        cols = [c for c in range(n) if any(jp[r * n + c] for r in range(3)) or any(jr[r * n + c] for r in range(3))]
        for i in cols:
            for j in cols:
                exp[i * n + j] += (mass[b] * sum(jp[r * n + i] * jp[r * n + j] for r in range(3)) +
                                   sum(inert[3 * b + k] * B[k][i] * B[k][j] for k in range(3)))
    for i in range(n):
        exp[i * n + i] += arm[i]
    chk("crb-equals-sum-JtIJ", max(abs(a - e) for a, e in zip(crb, exp)), 1e-10 * scale,
        "mj_crb matrix differs from sum_b J_b^T I_b J_b + diag(armature) (Jacobians from mj_jacBodyCom)")
    # 3. tendon armature part, inside M's pattern only
    nt = len(g["tenarm"])
    ta, tj = F(g, "tenarm"), F(g, "tenJ")
    inpat = set()
    for i in range(n):
        for k in range(rownnz[i]):
            c = colind[rowadr[i] + k]
            inpat.add((i, c))
            inpat.add((c, i))
    texp = [0.0] * (n * n)
    dropped = 0.0
    for k in range(nt):
        for i in range(n):
            if tj[k * n + i] == 0:
                continue
            for j in range(n):
                v = ta[k] * tj[k * n + i] * tj[k * n + j]
                if (i, j) in inpat:
                    texp[i * n + j] += v
                else:
                    dropped = max(dropped, abs(v))
    chk("tendon-armature-part", max(abs((a - c) - e) for a, c, e in zip(full, crb, texp)), 1e-10 * scale,
        "mj_makeM - mj_crb differs from sum_t armature_t J_t^T J_t restricted to M's sparsity pattern")
    if dropped > 0:
        stats["tendon_offpattern_dropped"] = stats.get("tendon_offpattern_dropped", 0) + 1
    # 4. L^T D L reconstruction from qLD, dinv = 1/D
    qLD, dinv = F(g, "qLD"), F(g, "dinv")
    Lm = [[0.0] * n for _ in range(n)]
    D = [0.0] * n
    for i in range(n):
        for k in range(rownnz[i] - 1):
            Lm[i][colind[rowadr[i] + k]] = qLD[rowadr[i] + k]
        Lm[i][i] = 1.0
        D[i] = qLD[rowadr[i] + rownnz[i] - 1]
    rec_err, rec_scale = 0.0, 0.0
    for i in range(n):
        for j in range(n):
            s = sum(Lm[r][i] * D[r] * Lm[r][j] for r in range(max(i, j), n))
            sa = sum(abs(Lm[r][i] * D[r] * Lm[r][j]) for r in range(max(i, j), n))
            rec_err = max(rec_err, abs(s - full[i * n + j]))
            rec_scale = max(rec_scale, sa)
    chk("LtDL-reconstructs-M", rec_err, 1e-11 * max(rec_scale, scale) * n, "L^T D L from qLD differs from mj_fullM")
    chk("qLDiagInv", max(abs(dinv[i] * D[i] - 1) for i in range(n)), 1e-14, "qLDiagInv is not 1/diag(D)")
    if any(not (x > 0) for x in D) and not offtree_indefinite:
        fails.append(("c06:D-positive", "a pivot of the factorisation is not positive"))
    # 5. round trips
    rg = rnd
    v = st["round"][0:n]
    y = st["round"][n:2 * n]
    Mv, x1, x2, r2 = F(rg, "Mv"), F(rg, "x1"), F(rg, "x2"), F(rg, "r2")
    dense_mv = matvec(full, n, v)
    absmv = [sum(abs(full[i * n + j] * v[j]) for j in range(n)) for i in range(n)]
    chk("mulM-equals-fullM", max(abs(a - b) for a, b in zip(Mv, dense_mv)), 1e-13 * (max(absmv) or 1.0),
        "mj_mulM(v) differs from mj_fullM * v")
    absx2 = [sum(abs(full[i * n + j] * x2[j]) for j in range(n)) for i in range(n)]
    chk("mulM-after-solveM", max(abs(a - b) for a, b in zip(r2, y)), 1e-10 * n * (max(absx2) + max(abs(t) for t in y) + 1e-300),
        "mj_mulM(mj_solveM(y)) != y (backward error)")
    kappa = max(D) / min(D) if min(D) > 0 else float("inf")
    stats.setdefault("kappa_hist", {})
    bucket = "k<1e3" if kappa < 1e3 else "k<1e6" if kappa < 1e6 else "k>=1e6"
    stats["kappa_hist"][bucket] = stats["kappa_hist"].get(bucket, 0) + 1
    if kappa < 1e6:
        chk("solveM-after-mulM", max(abs(a - b) for a, b in zip(x1, v)), (1e-8 + 1e-13 * kappa) * (max(abs(t) for t in v) + 1e-300),
            "mj_solveM(mj_mulM(v)) != v on a well-conditioned sample")
    # 6. bias force and Newton-Euler
    bias, rne0, tb = F(g, "qfrc_bias"), F(g, "rne0"), F(g, "tbias")
    bscale = max([abs(t) for t in rne0] + [abs(t) for t in tb] + [1e-300])
    chk("qfrc_bias-equals-rne0", max(abs(b - (r + t)) for b, r, t in zip(bias, rne0, tb)), 1e-12 * bscale,
        "qfrc_bias != mj_rne(flg_acc=0) + tendon bias")
    r1 = F(rne1, "res")
    a = st["qacc"]
    mcrb_a = [sum((crb[i * n + j] - (arm[i] if i == j else 0.0)) * a[j] for j in range(n)) for i in range(n)]
    abs_ma = [sum(abs(crb[i * n + j] * a[j]) for j in range(n)) for i in range(n)]
    rscale = max([abs(t) for t in r1] + [abs(t) for t in rne0] + abs_ma + [1e-300])
    chk("rne-acc-equals-Ma", max(abs((p1 - p0) - ma) for p1, p0, ma in zip(r1, rne0, mcrb_a)), 1e-10 * rscale,
        "mj_rne(a) - mj_rne(0) != (M_crb - diag(armature)) a")
    return fails


def check_joint_order(tree, okline):
    """the generator's joint order (hence its qpos / dof layout) must be the compiled model's"""
    w = okline.split()
    k = w.index("jnt_type")
    got = [int(x) for x in w[k + 2:k + 2 + int(w[k + 1])]]
    want = [{"free": 0, "ball": 1, "slide": 2, "hinge": 3}[j["type"]] for j in tree.joints]
    if got != want:
        raise common.Infra("generator joint order %s differs from the compiled model's %s" % (want, got))


# ------------------------------------------------------------------------------------------------ run
def run_stream(ctx, impl, drv, trees, nstates, dev, stats, max_report=6):
    thorough = ctx.tier == "thorough"
    lines, meta, owner = [], [], []
    for ti, t in enumerate(trees):
        l, m = model_block(ctx.rng, t, nstates, thorough)
        lines += l
        meta += m
        owner += [ti] * len(l)
    rc, outs, err = ctx.run_lines([impl], lines)
    found, nfail = [], 0
    if rc != 0 or len(outs) != len(lines):
        idx = min(len(outs), len(lines) - 1)
        found.append({"key": "c06:crash", "what": "oracle harness crashed (rc=%s) at op %d" % (rc, idx),
                      "replay": {"model": trees[owner[idx]].text(), "line": lines[idx][:400], "stderr": err[-300:]}})
        return found, 1, [], 0
    # ---- correspondence records
    recs = []
    for i, (l, o, mt) in enumerate(zip(lines, outs, meta)):
        if mt["kind"] == "rec":
            if " ->" not in o:
                found.append({"key": "c06:engine-error", "what": "engine refused op: " + o[:200],
                              "replay": {"model": trees[owner[i]].text(), "line": l[:300]}})
                nfail += 1
                continue
            left, right = o.split(" ->", 1)
            recs.append((left.strip(), right.strip(), i))
        elif mt["kind"] == "model" and o.startswith("ok"):
            check_joint_order(trees[owner[i]], o)
        elif mt["kind"] in ("model", "fwd") and not o.startswith("ok"):
            found.append({"key": "c06:engine-error", "what": "model/forward failed: " + o[:200],
                          "replay": {"model": trees[owner[i]].text(), "line": l[:300]}})
            nfail += 1
    nbad = 0
    if drv and recs:
        rcm, om, em = ctx.run_lines([drv], [r[0] for r in recs])
        if rcm != 0 or len(om) != len(recs):
            raise common.Infra("drv_c06 failed: rc=%d %s" % (rcm, em[-300:]))
        bad = []
        for (left, right, i), mo in zip(recs, om):
            ctx.count(left, nontrivial=not left.startswith(("MULM n 1 0 ", "FULLM n 1 0 ", "FACTOR n 1 0 ", "SOLVE n 1 0 ")))
            if mo.strip() != right:
                bad.append({"line": left[:3000], "model": mo[:1500], "impl": right[:1500],
                            "mjmodel": trees[owner[i]].text(), "stream": "sparse inertia routines"})
        nbad = len(bad)
        ctx.oblige("correspondence Lean sparse-inertia model (Float) vs mj_mulM/mj_fullM/mj_factorM/mj_solveM, bitwise (%d ops)"
                   % len(recs), "correspondence", not bad, json.dumps(bad[:3])[:6000])
        ctx.disagreements += bad[:20]
        if recs:
            ctx.sample({"op": recs[0][0][:260] + " ...", "engine_and_model_output": recs[0][1][:120] + " ..."})
    # ---- oracle: bias force against the Lagrangian of the engine's own M(q)
    lagdump, lagmq, laginfo, lagline = None, {}, None, 0
    for i, (o, mt) in enumerate(zip(outs, meta)):
        k = mt["kind"]
        if k == "lagdump" and o.startswith("dump"):
            lagdump, lagmq, laginfo, lagline = parse_groups(o.split()[1:]), {}, mt["lag"], i
        elif k == "lagmq" and lagdump is not None:
            pr = lagmq.setdefault(mt["dof"], [None, None])
            pr[0 if mt["sgn"] > 0 else 1] = parse_groups(o.split()[1:]) if o.startswith("mq") else None
        elif k == "lagend" and lagdump is not None:
            t = trees[owner[i]]
            # the engine keeps tendon inertia only inside M's tree pattern: the Lagrangian identity then does not apply
            nn = I(lagdump, "n")[0]
            ta, tj = F(lagdump, "tenarm"), F(lagdump, "tenJ")
            rn, ra, ci = I(lagdump, "rownnz"), I(lagdump, "rowadr"), I(lagdump, "colind")
            inpat = {(r, ci[ra[r] + q]) for r in range(nn) for q in range(rn[r])}
            offpat = any(ta[q] and tj[q * nn + a] and tj[q * nn + b] and (max(a, b), min(a, b)) not in inpat
                         for q in range(len(ta)) for a in range(nn) for b in range(nn))
            if offpat:
                stats["lagrange_skipped_offpattern_tendon"] = stats.get("lagrange_skipped_offpattern_tendon", 0) + 1
            else:
                fs = judge_lagrange(lagdump, lagmq, laginfo, t.joints, dev)
                stats["lagrange_states"] = stats.get("lagrange_states", 0) + 1
                if fs:
                    nfail += 1
                    if len(found) < max_report:
                        found.append({"key": fs[0][0], "what": fs[0][1],
                                      "replay": {"model": t.text(), "qpos": laginfo["qpos"], "qvel": laginfo["qvel"],
                                                 "how": "`model`, `set qpos/qvel`, `fwd`, `dump`; then per dof `set qpos`, `integ +-1e-6 e_i`, "
                                                        "`fwd`, `mq` on the c06_oracle harness"}})
            lagdump = None
    # ---- oracle
    i = 0
    N = len(lines)
    while i < N:
        if meta[i]["kind"] != "dump":
            i += 1
            continue
        st = dict(meta[i]["state"])
        dump = parse_groups(outs[i].split()[1:]) if outs[i].startswith("dump") else None
        j = i + 1
        jacs, rne1, rnd = [], None, None
        while j < N and meta[j]["kind"] not in ("dump", "model"):
            if meta[j]["kind"] == "jac" and outs[j].startswith("jac"):
                jacs.append(parse_groups(outs[j].split()[1:]))
            elif meta[j]["kind"] == "rne1" and outs[j].startswith("rne"):
                rne1 = parse_groups(outs[j].split()[1:])
            elif meta[j]["kind"] == "round" and outs[j].startswith("round"):
                rnd = parse_groups(outs[j].split()[1:])
                st["round"] = [frombits(x) for x in lines[j].split()[1:]]
            j += 1
        if dump is not None and rne1 is not None and rnd is not None:
            fs = judge_state(dump, jacs, rne1, rnd, st, dev, stats)
            stats["states"] = stats.get("states", 0) + 1
            if fs:
                nfail += 1
                if len(found) < max_report:
                    for key, what in fs[:3]:
                        found.append({"key": key, "what": what,
                                      "replay": {"model": trees[owner[i]].text(), "qpos": st["qpos"], "qvel": st["qvel"],
                                                 "qacc": st["qacc"],
                                                 "how": "feed `model <model>`, `set qpos/qvel/qacc <hex bits>`, `fwd`, `dump`, `jac b`, "
                                                        "`rne 1`, `round ...` to the c06_oracle harness built by checks/c06.py"}})
        i = j
    return found, nfail, recs, nbad


def directed_tree(rng, kind):
    """small hand-shaped trees aimed at structures that random generation reaches rarely:
       'sibling-tendon': a parent joint with two sibling child joints and a fixed tendon (with armature) over the three;
       'ball-slide-tendon': a ball joint followed by a slide joint on one body, a child body, and a spatial tendon with
                            armature between a site below them and a site on the world-attached parent."""
    t = Tree()
    L = t.lines.append
    L("option timestep 0.002")
    L("option disableflags %d" % (E("mjDSBL_CONTACT") | E("mjDSBL_CONSTRAINT")))
    t.gravity = [0.0, 0.0, -9.81]
    h = [0]

    def newh():
        h[0] += 1
        return h[0]

    def body(parent, name, jts, site=False):
        bh = newh()
        L("body %d %d" % (bh, parent))
        L("name %d %s" % (bh, name))
        L("set %d pos %s" % (bh, fmt([rng.uniform(-0.5, 0.5) for _ in range(3)])))
        L("set %d quat %s" % (bh, fmt(unit_quat(rng))))
        for jt in jts:
            jh = newh()
            jn = "j%d" % (len(t.joints) + 1)
            L("joint %d %d" % (jh, bh))
            L("name %d %s" % (jh, jn))
            L("set %d type %d" % (jh, E("mjJNT_" + jt.upper())))
            L("set %d pos %s" % (jh, fmt([rng.uniform(-0.2, 0.2) for _ in range(3)])))
            if jt != "ball":
                L("set %d axis %s" % (jh, fmt(unit_vec(rng))))
            t.joints.append({"name": jn, "type": jt, "body": name, "qposadr": t.nq, "dofadr": t.nv, "handle": jh})
            t.nq += 4 if jt == "ball" else 1
            t.nv += 3 if jt == "ball" else 1
        a, b, c = (rng.uniform(0.1, 0.4) for _ in range(3))
        mass = rng.uniform(0.3, 3.0)
        L("set %d explicitinertial 1" % bh)
        L("set %d mass %r" % (bh, mass))
        L("set %d inertia %s" % (bh, fmt([mass / 12 * (b * b + c * c), mass / 12 * (a * a + c * c), mass / 12 * (a * a + b * b)])))
        L("set %d ipos %s" % (bh, fmt([rng.uniform(-0.1, 0.1) for _ in range(3)])))
        t.bodies.append({"name": name, "parent": parent, "mocap": False})
        if site:
            sh = newh()
            sn = "s%d" % (len(t.sites) + 1)
            L("site %d %d" % (sh, bh))
            L("name %d %s" % (sh, sn))
            L("set %d pos %s" % (sh, fmt([rng.uniform(-0.3, 0.3) for _ in range(3)])))
            t.sites.append({"name": sn, "body": len(t.bodies)})
        return bh
    if kind == "sibling-tendon":
        p0 = body(0, "b1", [rng.choice(("hinge", "slide"))])
        body(p0, "b2", [rng.choice(("hinge", "slide"))])
        body(p0, "b3", [rng.choice(("hinge", "slide"))])
        th = newh()
        L("tendon %d" % th)
        L("name %d t1" % th)
        for j in t.joints:
            L("wrap %d joint %s %r" % (th, j["name"], rng.choice((-1, 1)) * rng.uniform(1.0, 2.0)))
        # armature well above the body inertias: the truncated rank-one term (one negative eigenvalue) then dominates
        L("set %d armature %r" % (th, rng.uniform(20.0, 50.0)))
        t.ntendon = 1
    else:
        p0 = body(0, "b1", ["hinge"], site=True)
        p1 = body(p0, "b2", ["ball", "slide"], site=False)
        body(p1, "b3", ["hinge"], site=True)
        th = newh()
        L("tendon %d" % th)
        L("name %d t1" % th)
        L("wrap %d site s1" % th)
        L("wrap %d site s2" % th)
        L("set %d armature %r" % (th, rng.uniform(0.3, 1.5)))
        t.ntendon = 1
    kinds = {"free": 0, "ball": 0, "slide": 0, "hinge": 0}
    for j in t.joints:
        kinds[j["type"]] += 1
    t.info = {"nbody": len(t.bodies), "nv": t.nv, "kinds": kinds, "ntendon": t.ntendon, "directed": kind}
    return t


def gen_trees(ctx, n, maxbody, maxdof):
    trees = [directed_tree(ctx.rng, "sibling-tendon"), directed_tree(ctx.rng, "ball-slide-tendon")]
    hist = {"directed": 2}
    for k in range(n):
        r = ctx.rng.random()
        mb = maxbody if r < 0.6 else max(2, maxbody // 3)
        t = gen_tree(ctx.rng, maxbody=mb, maxdof=maxdof, frames=ctx.rng.random() < 0.5)
        trees.append(t)
        b = "nv=0" if t.nv == 0 else "nv<=5" if t.nv <= 5 else "nv<=15" if t.nv <= 15 else "nv<=30" if t.nv <= 30 else "nv>30"
        hist[b] = hist.get(b, 0) + 1
        for kk, v in t.info["kinds"].items():
            hist["joints:" + kk] = hist.get("joints:" + kk, 0) + v
        hist["tendons"] = hist.get("tendons", 0) + t.ntendon
    return trees, hist


def run(ctx):
    ctx.rule = ("seeded random kinematic trees (1..maxbody bodies, chains and wide branching, free/ball/slide/hinge joints with "
                "up to 3 joints per body, explicit inertial frames incl. simple bodies, joint/tendon/actuator armature, qpos0 "
                "offsets, mocap bodies) x random states (unit and non-unit quaternions, velocities at 3 scales); per state the "
                "engine's own M/qLD/pattern are fed to the Lean model (a case is distinct by its full record) and the oracle "
                "identities are evaluated; non-trivial = nv >= 1")
    thorough = ctx.tier == "thorough"
    m = kernelval.regen(ctx)
    ctx.lean_props(THEOREMS)
    kernelval.validate(ctx, m, KERNELS, 3000 if thorough else 200, label="C06 spatial kernels")
    ctx.extra["kernel_body_sha256"] = {n: m.get("kernels", {}).get(n, {}).get("sha256", "")[:16] for n in KERNELS}
    drv = ctx.driver("drv_c06")
    impl = ctx.harness("harness/c/c06_oracle.c", "c06_oracle", deps=["harness/mjbuild.h"])
    if not impl:
        return
    dev = Dev()
    stats = {}
    if getattr(ctx, "replay", None):
        rp = json.load(open(ctx.replay))
        print("replay inputs: %s" % json.dumps([f.get("replay", {}) for f in rp.get("failures", [])])[:3000])
    ntrees = 700 if thorough else 60
    trees, hist = gen_trees(ctx, ntrees, 14 if thorough else 9, 40 if thorough else 30)
    ctx.extra["tree_distribution"] = hist
    found, nfail, recs, nbad = run_stream(ctx, impl, drv, trees, 3 if thorough else 2, dev, stats)
    # compiled spatial kernels: duality / parallel axis
    kl = kernel_lines(ctx.rng, 3000 if thorough else 300)
    rc, outs, err = ctx.run_lines([impl], kl)
    if rc != 0 or len(outs) != len(kl):
        found.append({"key": "c06:crash", "what": "oracle harness crashed on kernel ops (rc=%s)" % rc, "replay": {"stderr": err[-300:]}})
    else:
        for l, o in zip(kl, outs):
            ctx.count(l)
            fs = judge_kernel(l, o, dev)
            if fs:
                nfail += 1
                if len(found) < 8:
                    found.append({"key": fs[0][0], "what": fs[0][1], "replay": {"line": l, "impl_output": o,
                                  "inputs": [frombits(t) for t in l.split()[1:]]}})
    for f in found:
        ctx.oracle_failure(f["key"], f["what"], f["replay"])
    ctx.extra["oracle_states_checked"] = stats.get("states", 0)
    ctx.extra["oracle_failures"] = nfail
    ctx.extra["oracle_max_deviation_over_allowed"] = {k: float("%.3g" % v) for k, v in sorted(dev.m.items())}
    ctx.extra["conditioning_histogram"] = stats.get("kappa_hist", {})
    ctx.extra["states_with_tendon_inertia_outside_M_pattern_dropped_by_engine"] = stats.get("tendon_offpattern_dropped", 0)
    ctx.extra["correspondence_records"] = len(recs)

    def directed(c):
        d2, s2 = Dev(), {}
        for rnd in range(4):
            ts, _ = gen_trees(c, 150, 12, 40)
            fnd, _, _, _ = run_stream(c, impl, None, ts, 2, d2, s2, max_report=1)
            if fnd:
                return fnd[0]
        return None
    ctx.directed_search = directed
    if thorough:
        ctx.leanchecker(["MjProof.Props.C06"])
